#!/venv/bin/python
"""Second phase of the mutation audit: which mutants that no check reports also pass the existing tests.

Reads <out>/ALL.json (tools/mutation_sweep.py --global), regenerates each surviving mutant on a full scratch copy of
/repo (tests included) and runs the test files related to the mutated file. Mutants that pass them are the interesting
ones: they compile, pass the tests, and no check fires. Written to <out>/SURVIVE_TESTS.json for manual triage
(property broken => gap in a rule; equivalent / outside every property => nothing to do).

usage: tools/sweep_tests.py [--out /tmp/sweep] [--jobs 12] [--kinds cmp,binop,...]
"""
from __future__ import annotations

import ast
import json
import multiprocessing as mp
import os
import shutil
import subprocess
import sys
import tempfile

ROOT = os.path.dirname(os.path.dirname(os.path.abspath(__file__)))
sys.path.insert(0, ROOT)
sys.path.insert(0, os.path.join(ROOT, 'tools'))
import mutation_sweep as ms  # noqa: E402

REPO = '/repo'
# extra test files exercising a source file besides its own <name>_test.py
EXTRA = {
    'fedjax/core/metrics.py': ['fedjax/core/models_test.py'],
    'fedjax/core/tree_util.py': ['fedjax/algorithms/fed_avg_test.py', 'fedjax/aggregators/aggregator_test.py'],
    'fedjax/core/client_datasets.py': ['fedjax/core/federated_data_test.py', 'fedjax/core/in_memory_federated_data_test.py'],
    'fedjax/core/models.py': ['fedjax/algorithms/hyp_cluster_test.py'],
    'fedjax/core/util.py': ['fedjax/core/metrics_test.py'],
    'fedjax/core/federated_data.py': ['fedjax/core/in_memory_federated_data_test.py', 'fedjax/core/client_samplers_test.py'],
    'fedjax/core/in_memory_federated_data.py': ['fedjax/core/client_samplers_test.py', 'fedjax/core/federated_data_test.py'],
    'fedjax/core/for_each_client.py': ['fedjax/algorithms/fed_avg_test.py', 'fedjax/core/models_test.py'],
    'fedjax/core/optimizers.py': ['fedjax/algorithms/fed_avg_test.py'],
    'fedjax/core/dataclasses.py': ['fedjax/algorithms/fed_avg_test.py'],
    'fedjax/aggregators/aggregator.py': ['fedjax/aggregators/compression_test.py'],
    'fedjax/aggregators/walsh_hadamard.py': ['fedjax/aggregators/compression_test.py'],
    'fedjax/core/serialization.py': ['fedjax/training/checkpoint_test.py'],
    'fedjax/training/federated_experiment.py': [],
}
STABLE = None


def tests_for(rel):
  out = []
  t = rel[:-3] + '_test.py'
  if os.path.exists(os.path.join(REPO, t)):
    out.append(t)
  out += [x for x in EXTRA.get(rel, []) if os.path.exists(os.path.join(REPO, x))]
  return out


def regen(mu):
  path = os.path.join(REPO, mu['file'])
  src = open(path, encoding='utf-8').read()
  for cand in ms.build('ALL', [f"{mu['file']}:{mu['func']}"]):
    if cand['line'] == mu['line'] and cand['kind'] == mu['kind'] and cand['old'] == mu['old'] and cand['new'] == mu['new']:
      return cand['src']
  return None


def work(mu):
  src = regen(mu)
  if src is None:
    return dict(mu, tests='regen-failed')
  tests = tests_for(mu['file'])
  if not tests:
    return dict(mu, tests='no-tests')
  scratch = tempfile.mkdtemp(prefix='fjsa-swt-', dir='/dev/shm')
  try:
    subprocess.run(['cp', '-r', os.path.join(REPO, 'fedjax'), scratch], check=True)
    with open(os.path.join(scratch, mu['file']), 'w', encoding='utf-8') as f:
      f.write(src)
    env = dict(os.environ, PYTHONPATH=scratch, JAX_PLATFORMS='cpu', TF_CPP_MIN_LOG_LEVEL='3')
    junit = os.path.join(scratch, 'junit.xml')
    try:
      r = subprocess.run(['/venv/bin/python', '-m', 'pytest', '-q', '-x', '-p', 'no:cacheprovider', '--timeout=600', f'--junitxml={junit}'] + tests,
                         cwd=scratch, env=env, capture_output=True, text=True, timeout=900)
    except subprocess.TimeoutExpired:
      return dict(mu, tests='timeout')
    # only failures of tests that are stable in the baseline count
    import xml.etree.ElementTree as ET
    failed = []
    try:
      for tc in ET.parse(junit).iter('testcase'):
        if any(ch.tag in ('failure', 'error') for ch in tc):
          failed.append(f"{tc.get('classname')}::{tc.get('name')}")
    except Exception:  # pylint: disable=broad-except
      return dict(mu, tests='junit-missing', tail=(r.stdout + r.stderr)[-300:])
    stable = set(json.load(open('/root/.vp/BASELINE.json'))['stable_pass'])
    bad = [t for t in failed if t in stable]
    return dict(mu, tests='fail' if bad else 'pass', failed=bad[:3], ran=tests)
  finally:
    shutil.rmtree(scratch, ignore_errors=True)


def main():
  args = sys.argv[1:]
  out, jobs = '/tmp/sweep', 12
  kinds = None
  if '--out' in args:
    i = args.index('--out'); out = args[i + 1]; del args[i:i + 2]
  if '--jobs' in args:
    i = args.index('--jobs'); jobs = int(args[i + 1]); del args[i:i + 2]
  if '--kinds' in args:
    i = args.index('--kinds'); kinds = set(args[i + 1].split(',')); del args[i:i + 2]
  res = json.load(open(os.path.join(out, 'ALL.json')))
  surv = [r for r in res if r['status'] == 'survived' and (kinds is None or r['kind'].split(':')[0] in kinds)]
  print('survivors to test', len(surv), flush=True)
  with mp.Pool(jobs) as pool:
    done = pool.map(work, surv, chunksize=1)
  counts = {}
  for r in done:
    counts[r['tests']] = counts.get(r['tests'], 0) + 1
  json.dump(done, open(os.path.join(out, 'SURVIVE_TESTS.json'), 'w'), indent=1)
  print(counts)


if __name__ == '__main__':
  main()
