#!/venv/bin/python
"""Regenerates fjsa/known_shapes.json and fjsa/known_defs.json from the pinned tree (run on a clean /repo only)."""
import json, os, sys, warnings
warnings.simplefilter('ignore')
ROOT = os.path.dirname(os.path.dirname(os.path.abspath(__file__)))
sys.path.insert(0, ROOT)
from fjsa.model import Repo
from fjsa import shapes
repo = Repo('/repo')
out = {}
for m in repo.modules.values():
  for q, node in shapes.raw_functions(m.src).items():
    out[f'{m.relpath}:{q}'] = shapes.statement_hashes(node)
json.dump(out, open(os.path.join(ROOT, 'fjsa', 'known_shapes.json'), 'w'), indent=0, sort_keys=True)
print(len(out), 'functions')
