#!/venv/bin/python
"""usage: tools/show_canon.py <patch.diff|-> <module> <qualname>  - prints the canonical form of a function (optionally with a patch applied)."""
import sys, ast, subprocess, tempfile, shutil, os, warnings
warnings.simplefilter('ignore')
ROOT = os.path.dirname(os.path.dirname(os.path.abspath(__file__)))
sys.path.insert(0, ROOT)
from fjsa.selftest.harness import copy_tree
from fjsa.model import Repo
patch, mod, q = sys.argv[1:4]
d = tempfile.mkdtemp(dir='/dev/shm')
try:
  copy_tree('/repo', d)
  if patch != '-':
    subprocess.run(['git', 'apply', '--unsafe-paths', '--directory=' + d, patch], cwd='/')
  r = Repo(d)
  print(ast.unparse(r.func(mod, q).node))
finally:
  shutil.rmtree(d)
