#!/venv/bin/python
"""Prepares a round of independent sub-agent work: one scratch worktree of /repo per property under <wt>/<Cnn> and a PROMPT.txt
under <out>/<Cnn>/ that contains only the text of the property (plus, for mutant rounds, one-line titles of changes already
delivered so the new ones go elsewhere). Nothing from /verif's checks is given to the agents.

usage: tools/make_round.py mutant|neutral <wt-dir> <out-dir> [Cnn ...]"""
import glob, json, os, re, subprocess, sys
ROOT = os.path.dirname(os.path.dirname(os.path.abspath(__file__)))
kind, wt, out = sys.argv[1:4]
props = sys.argv[4:] or [f'C{i:02d}' for i in range(1, 21)]
P = {}
for l in open(os.path.join(ROOT, 'properties.jsonl')):
  if l.strip():
    o = json.loads(l)
    P[o['id']] = o

def taken(p, store, word):
  res = []
  for d in sorted(glob.glob(os.path.join(ROOT, store, p + '-*'))):
    n = os.path.join(d, 'notes.md')
    title = open(n, errors='replace').readline().strip().lstrip('# ').strip() if os.path.exists(n) else os.path.basename(d)
    files = ' '.join(json.load(open(os.path.join(d, 'meta.json'))).get('files_changed', []))
    res.append(f' - {title} [{files}]')
  return res

for p in props:
  o = P[p]
  w, t = os.path.join(wt, p), os.path.join(out, p)
  os.makedirs(t, exist_ok=True)
  if not os.path.isdir(w):
    subprocess.run(['git', '-C', '/repo', 'worktree', 'add', '--detach', '-f', w, 'HEAD'], check=True, capture_output=True)
  anchors = ', '.join(o['anchors']['files'])
  head = f"""You are working alone in a scratch git worktree of the open-source Python library google/fedjax (a JAX-based library for simulating federated learning) located at {w}. Work ONLY inside {w} and write your deliverables ONLY under {t}/ . Do not read, list or write anything under /verif or /repo, and do not use git commands that touch other worktrees. NEVER use `git stash` (the stash is shared between worktrees of this repository and other engineers use it concurrently); to compare with the unmodified tree save your change with `git diff > wip.diff`, `git checkout -- .`, run, then `git apply wip.diff`.

Environment facts: use `/venv/bin/python` (has jax, numpy, haiku, optax, tensorflow-cpu, msgpack, pytest). `import fedjax` takes ~15 s (TensorFlow). To make Python import THIS worktree's code always run with `cd {w}` and `PYTHONPATH={w}`. There is no network. tensorboard is not installed (fedjax.training.logging.Logger.log with a root_dir raises; monkeypatch it in demos if you need run_federated_experiment). Some existing tests fail already in this sandbox for environment reasons; that is expected. The existing test suite is run with: `cd {w} && PYTHONPATH={w} /venv/bin/python -m pytest -q -p no:cacheprovider --timeout=900 --continue-on-collection-errors -q <test files>` ; the full suite (no file arguments) takes about 80-240 s. When you run only a subset of test files, some checkpoint/download/experiment tests fail because absl flags are only parsed in a full-suite run - compare against the unmodified worktree to know which failures are pre-existing.

THE PROPERTY (id {p}): "{o.get('title', '')}"
Statement: {o.get('statement', '')}
Quantified over: {o['quantifier']['text']}
Code that is meant to make it hold lives in: {anchors}
"""
  if kind == 'mutant':
    body = f"""
YOUR TASK: produce up to THREE different, realistic changes ("mutants") to the library source (never to tests) each of which BREAKS this property while (a) the package still imports, and (b) every test of the existing suite that passes on the unmodified worktree still passes with your change (run the relevant test files AND, once per final mutant, the full suite, and compare with the unmodified tree). Make them the kind of mistake a maintainer could plausibly make in a refactor or "optimisation" (an off-by-one, a dropped guard, a wrong operand, a reordered pair of statements, a reused variable, a stale value, a missing copy, a swapped argument, two sites that each look fine alone...). Prefer changes that need something specific to manifest - a particular input (zero weights, empty client, negative k, big-endian array, exact multiple of batch size), a particular multi-step sequence, a crash/fault at a particular point, a particular interleaving, or two cooperating sites - NOT changes that ordinary use or the existing tests would expose at once. The three mutants should differ in kind and touch different code locations where possible. Small diffs (1-10 lines) are best.

For each mutant N (1..3) deliver in {t}/m<N>/ :
 - patch.diff : output of `git diff` in the worktree with ONLY that mutant applied (so it applies cleanly with `git apply` to the unmodified tree);
 - demo.py : a small self-contained program (or pytest-style test run as a script) that exits with status 0 on the UNMODIFIED tree and with a non-zero status (assertion failure) when the mutant is applied, demonstrating the property violation through the library's public behaviour. It must run as `cd {w} && PYTHONPATH={w} /venv/bin/python {t}/m<N>/demo.py` in under 3 minutes;
 - notes.md : first line `# {p} / m<N> - <one line title>`; then which clause of the property breaks, what exactly is needed for it to manifest, and the commands you ran with their observed results (demo on clean tree = pass, demo on mutated tree = fail, which test files / full suite you ran and that no previously passing test started failing).
Before finishing, verify each patch by: `git checkout -- .`, `git apply {t}/m<N>/patch.diff`, run demo (must fail), run tests, `git checkout -- .`, run demo (must pass). Leave the worktree clean (`git status` shows nothing) at the end. Your final answer should just list the mutants with one line each (file/function changed and the breaking input).
ALREADY TAKEN - previous engineers already delivered the following mutants for this property; yours must be at OTHER code locations and of OTHER kinds. Look in particular at code the property depends on that nobody has touched yet: helper functions, sibling implementations of the same interface, default arguments, constructors and validation code, less-used options, the other files in the anchor list, and interactions between two functions:
""" + '\n'.join(taken(p, 'seeded', 'mutant')) + '\n'
  else:
    body = f"""
YOUR TASK: produce THREE different, realistic BEHAVIOUR-PRESERVING refactorings ("neutral changes") of the library source that implements this property (never of tests). Each must leave the property TRUE for every input - the observable behaviour of the public API must be exactly the same as before - while changing how the code is written in a way a maintainer could plausibly do in a clean-up: e.g. extract a helper function or inline one, rename local variables or private helpers, restructure a loop (for <-> while, comprehension <-> loop, early return <-> if/else), reorder independent statements, replace an idiom by an equivalent one (a += b <-> a = a + b for numbers, x[:n] <-> x[0:n], dict(...) <-> {{...}}, keyword <-> positional arguments, jnp.where(c, a, b) <-> equivalent select, explicit temporary variables, merging/splitting conditions, moving a computation into or out of a local function, adding logging / comments / type annotations / assertions that cannot fail), change import style, or move code between functions of the same module. Make them realistic in size (3-25 changed lines each), mutually different in kind, and touch different functions where possible. Do NOT change behaviour in any corner case (empty inputs, zero weights, dtype, order of results, exceptions raised, files written).

For each refactoring N (1..3) deliver in {t}/n<N>/ :
 - patch.diff : output of `git diff` in the worktree with ONLY that refactoring applied (so it applies cleanly with `git apply` to the unmodified tree);
 - demo.py : a small self-contained program that exercises the refactored code through the public API on several inputs INCLUDING corner cases relevant to the property and compares the results with values you recorded from the UNMODIFIED tree (hard-code the expected values, or recompute them with an independent reference implementation inside the demo). It must exit with status 0 on BOTH the unmodified tree and the refactored tree, and run as `cd {w} && PYTHONPATH={w} /venv/bin/python {t}/n<N>/demo.py` in under 3 minutes;
 - notes.md : first line `# {p} neutral <N> - <one line title>`; then what you changed, why it cannot change behaviour (argue every corner case), and the commands you ran with observed results (demo on both trees; the relevant test files and, once per refactoring, the full suite give the same pass/fail set as the unmodified tree).
Before finishing, verify each patch by: `git checkout -- .`, `git apply {t}/n<N>/patch.diff`, run demo (must pass), run tests, `git checkout -- .`, run demo (must pass). Leave the worktree clean (`git status` shows nothing) at the end. Your final answer should just list the refactorings with one line each (file/function changed and the kind of rewrite).
ALREADY DONE - previous engineers already delivered the following refactorings; yours must be of OTHER kinds or at OTHER functions:
""" + '\n'.join(taken(p, 'refactors', 'neutral')) + '\n'
  open(os.path.join(t, 'PROMPT.txt'), 'w').write(head + body)
  print(p, 'prompt', len(head + body))
