#!/venv/bin/python
"""Records independently verified seeded changes under /verif/seeded/<Cnn-mK>/ and prints the catch table.

usage: tools/record_seeds.py [--src /tmp/wtout] [--round r1] [Cnn ...]

For every <src>/<Cnn>/<mK>/ with a verify.json written by tools/verify_seed.py whose verdict is ok (demo passes on the
clean tree, fails with the patch, patch applies, all 158 pinned tests still pass), copies patch.diff, demo.py and
notes.md, runs all 20 quick checks against a scratch copy of /repo with the patch applied (the same thing
`git -C /repo apply` + run + `git -C /repo checkout -- .` does, without touching /repo), and writes meta.json.
"""
import json, os, re, shutil, subprocess, sys, tempfile
ROOT = os.path.dirname(os.path.dirname(os.path.abspath(__file__)))
sys.path.insert(0, ROOT)
from fjsa.selftest.harness import copy_tree

PROPS = [f'C{i:02d}' for i in range(1, 21)]


def needs(notes: str) -> str:
  lines = notes.splitlines()
  for i, l in enumerate(lines):
    if re.search(r'need(ed)?\b.*manifest|what is needed|to manifest|manifests? (only )?(when|if)', l, re.I):
      out = [l]
      for k in lines[i + 1:i + 14]:
        if not k.strip() and len(' '.join(out)) > 120:
          break
        if k.startswith('#') and len(' '.join(out)) > 40:
          break
        out.append(k)
      t = ' '.join(x.strip() for x in out if x.strip())
      return re.sub(r'[*#`]+', '', t).strip()[:900]
  return re.sub(r'[*#`]+', '', ' '.join(lines[:8]))[:600]


def run_checks(patch: str):
  scratch = tempfile.mkdtemp(prefix='fjsa-seeded-', dir='/dev/shm' if os.path.isdir('/dev/shm') else None)
  res = {}
  try:
    copy_tree('/repo', scratch)
    r = subprocess.run(['git', 'apply', '--unsafe-paths', '--directory=' + scratch, patch], capture_output=True, text=True, cwd='/')
    if r.returncode != 0:
      return None
    ev = os.path.join(scratch, '_evidence')
    for p in PROPS:
      c = subprocess.run([os.path.join(ROOT, 'check'), p, '--tier', 'quick', '--repo', scratch, '--evidence-dir', ev], capture_output=True, text=True)
      if c.returncode != 0 or 'NOT-DECIDED' in c.stdout:
        rules = []
        for l in c.stdout.splitlines():
          mm = re.match(r'\s+(R-[\w.\-]+) (\S+):(\d+) (\S+)', l)
          if mm:
            rules.append({'rule': mm.group(1), 'file': mm.group(2), 'function': mm.group(4)})
        res[p] = {'exit': c.returncode, 'reports': rules[:6]}
    return res
  finally:
    shutil.rmtree(scratch, ignore_errors=True)


def main():
  args = sys.argv[1:]
  src, rnd = '/tmp/wtout', 'r1'
  if '--src' in args:
    i = args.index('--src'); src = args[i + 1]; del args[i:i + 2]
  if '--round' in args:
    i = args.index('--round'); rnd = args[i + 1]; del args[i:i + 2]
  props = args or PROPS
  rows = []
  for p in props:
    for m in sorted(os.listdir(os.path.join(src, p))) if os.path.isdir(os.path.join(src, p)) else []:
      d = os.path.join(src, p, m)
      vj = os.path.join(d, 'verify.json')
      if not (re.fullmatch(r'm\d+', m) and os.path.exists(vj)):
        continue
      v = json.load(open(vj))
      if not v.get('ok'):
        rows.append((p, m, 'NOT-VERIFIED', '', ''))
        continue
      sid = f'{p}-{m}' if rnd == 'r1' else f'{p}-{rnd}{m}'
      dst = os.path.join(ROOT, 'seeded', sid)
      os.makedirs(dst, exist_ok=True)
      for f in ('patch.diff', 'demo.py', 'notes.md'):
        if os.path.exists(os.path.join(d, f)):
          shutil.copy(os.path.join(d, f), os.path.join(dst, f))
      notes = open(os.path.join(d, 'notes.md'), errors='replace').read() if os.path.exists(os.path.join(d, 'notes.md')) else ''
      fired = run_checks(os.path.join(d, 'patch.diff'))
      own = (fired or {}).get(p)
      verdict = 'caught' if own and own['exit'] == 1 else ('inconclusive' if own else 'missed')
      files = sorted(set(re.findall(r'^\+\+\+ b/(\S+)', open(os.path.join(d, 'patch.diff')).read(), re.M)))
      meta = {
          'id': sid, 'property': p, 'origin': f'fresh sub-agent given only the text of {p} and a scratch worktree of /repo ({rnd})',
          'files_changed': files,
          'needs_to_manifest': needs(notes),
          'confirmed_by': {
              'tool': 'tools/verify_seed.py (scratch git worktree of /repo HEAD, removed afterwards)',
              'demo_on_clean_tree_exit': v['demo_clean'][0], 'demo_with_patch_exit': v['demo_mutated'][0],
              'patch_applies': v['apply'] == 0,
              'pinned_suite': f"{v['stable_still_passing']}/158 stable tests still pass with the patch (command of /root/.vp/BASELINE.json, junit compared)",
          },
          'checks_run': 'all 20 quick checks on a scratch copy of /repo with patch.diff applied (tools/record_seeds.py); '
                        'equivalent to git -C /repo apply <patch>; ./check Cnn; git -C /repo checkout -- .',
          'own_property_verdict': verdict,
          'first_run': (json.load(open(os.path.join(dst, 'meta.json'))).get('first_run') if os.path.exists(os.path.join(dst, 'meta.json')) else verdict),
          'fired': fired,
      }
      json.dump(meta, open(os.path.join(dst, 'meta.json'), 'w'), indent=1, sort_keys=True)
      own_rules = ','.join(sorted({r['rule'] for r in own['reports']})) if own else ''
      others = ' '.join(k for k in (fired or {}) if k != p)
      rows.append((p, m, verdict, own_rules, others))
  for r in rows:
    print('| ' + ' | '.join(r) + ' |')


if __name__ == '__main__':
  main()
