#!/venv/bin/python
"""Regenerates /verif/MANIFEST.json from the table below (run after editing)."""
import json, os, subprocess
ROOT = os.path.dirname(os.path.dirname(os.path.abspath(__file__)))
props = [json.loads(l) for l in open(os.path.join(ROOT, 'properties.jsonl'))]

COMMON_NOTE = ('Sources are analysed in a canonical form (fjsa/canon.py + fjsa/inline.py: single-use temporaries inlined, positive guards, < / <= '
               'comparisons, conventional import aliases, x += e, positional prefix, early-exit instead of else, tuple assignments split, helpers '
               'that the pinned tree does not have inlined at their call sites) so that behaviour-preserving rewrites do not change a verdict. '
               'Pattern rules claim a VIOLATION only in functions that still have the shape they were confirmed against (statement multiset '
               'within 6 statements of fjsa/known_shapes.json); in a function rewritten beyond that, or where a rule does not recognise the new '
               'code, the obligation is printed as NOT-DECIDED, recorded in the evidence file and does not change the exit code (exact rules - '
               'forwarding, lints, purity, donation scope, key linearity, failure-path renames - always decide). On the pinned tree nothing is '
               'ever NOT-DECIDED: there an undecided obligation, an unmet instance floor or a missing anchor is exit 2, and a public anchor '
               'that is gone is exit 2 on any tree. The thorough tier adds self-validation: the corpus mutants and the stored agent-written '
               'breaking changes of the property (/verif/seeded) must be reported, its neutral twins, 13 whole-repo neutral transformations '
               'and the stored agent-written refactors (/verif/refactors) must not raise a VIOLATION, and the fail-closed behaviour is '
               're-tested (failure = exit 2, checker broken). '
               'Trusted base: CPython ast; the hand-built CFG / reaching-definitions / resolver in /verif/fjsa; '
               'JAX and numpy semantics listed as assumptions in the evidence file. User-supplied callables are opaque.')

CLAIMS = {
 'C01': dict(
   text='Static analysis (level "other"): decides, on every path of federated_averaging.apply and its training triple, the '
        'structural necessary conditions of the FedAvg definition: the server optimizer receives tree_inverse_weight(S, W) of '
        'zero-initialised accumulators updated together with one and the same weight w = len(dataset) of the yielded client; '
        'the zero guard; optimizer/gradient/key roles in init/step/final; delta = server - trained; ServerState built in field '
        'order; exactly one diagnostics entry per yielded client; linear key use; purity. Numerical equality, order and backend '
        'independence up to rounding are not decided.',
   design='DESIGN.md section 4 C01; rules R-WMEAN, R-DIV, R-SIB, R-YIELD1, R-KEY, R-PURE',
   technique='accumulator-idiom recognition over reaching definitions + CFG must-pass-through + record-field role recovery'),
 'C02': dict(
   text='Static analysis (level "other"): on the three backends of for_each_client.py it decides donation safety (every donated '
        'value is an owned copy / previous donation result, dead afterwards; caller inputs are never donated), one yield per '
        'client on every normal path and the fold shape init -> step* -> final, the pmap masking discipline (where(mask,new,old), '
        'zeroed step results, padding clients skipped, step results truncated, mask/padding pairing in _blockify), the '
        'thread-local scoped backend selection restored in finally with a who-may-write check, and that every JAX entry point '
        'used exists in the installed jax. Equality of values across backends is not decided.',
   design='DESIGN.md section 4 C02; rules R-DONATE, R-YIELD1, R-FOLD, R-MASK M-c, R-SCOPE, R-API, R-LEAF.scalar',
   technique='buffer-ownership dataflow + CFG must-pass-through (yield/finally) + structural pairing checks + getattr/signature API check',
   note='R-API imports the installed third-party packages (jax, numpy, haiku, optax) to inspect attributes/signatures; fedjax itself is never imported.'),
 'C03': dict(
   text='Static analysis (level "other"), narrow: sibling agreement of BatchView and PaddedBatchView (same range/slice bounds and '
        'the same full-batch predicate; padding only on its complement; drop_remainder drops only a non-full batch), the pairing '
        'obligations of pad_examples (prefix mask bound = copy bound, zeros of the feature\'s dtype and trailing shape, size and '
        'mask-key validation), operator checks on the bucket search when it has its documented shape, and purity of all '
        'iterators/helpers (re-iteration identical, dataset untouched). The integer arithmetic itself - that range/slice covers '
        'each row once and the bucket search returns the smallest admissible size for all sizes - is NOT decided.',
   design='DESIGN.md section 4 C03; rules R-SIB.view, R-PAIR.pad, R-BUCKET, R-PURE',
   technique='sibling comparison of loop/slice shapes + pairing checks + alias/mutation analysis'),
 'C04': dict(
   text='Static analysis (level "other"), narrow: the generator is a fresh RandomState(self._seed) per iteration and no global RNG '
        'is called anywhere in fedjax/core; the index buffer is arange(N) written only by rng.shuffle (so every window holds '
        'distinct indices); roles recovered from the copy statement show consecutive non-overlapping windows, reshuffle exactly '
        'on exhaustion together with the cursor reset, first pass shuffled; batches are gathers of exactly batch_size indices; '
        'the step count has the documented floor/ceil/min structure. Permutation coverage over epochs and the step-count '
        'arithmetic over all hyper-parameters are NOT decided.',
   design='DESIGN.md section 4 C04; rules R-SEED, R-PERM, R-SIZE, R-PURE',
   technique='who-may-call (global RNG) + role recovery from the window-copy statement + control-dependence checks + per-case constant propagation (case table) of the step-count computation'),
 'C05': dict(
   text='Static analysis (level "other"): decides the structural conditions that make evaluation a masked monoid fold: '
        'merge/reduce of every Stat combine field with the same field and return through the sanitising new() factory, '
        'MeanStat.new clamps the weight and zeroes accum under the clamped weight, statistics are only built through new(), '
        'evaluate_batch replaces masked rows by metric.zero() before reduce(), _evaluate_model_step always supplies the '
        'batch\'s own mask (or all-True) and merges per metric, evaluation loops start at zero() and end in result(), '
        'MeanStat.result is safe_div, zero()/evaluate_example() agree on the Stat type, and every padded producer reaches a '
        'mask-aware consumer. Associativity/commutativity up to rounding is not decided.',
   design='DESIGN.md section 4 C05; rules R-STAT, R-MASK M-a/M-b, R-MASK.rank, R-DIV, R-TYPE',
   technique='shape/provenance checks over reaching definitions + producer-to-consumer mask-awareness summaries'),
 'C06': dict(
   text='Static analysis (level "other"): traces every padded-batch producer to its consuming step function and requires a '
        'mask-aware consumer (summary computed transitively through callees); inside the mask-aware functions checks that '
        'per-example values meet the batch\'s own mask before any reduction and that the normalising count is a reduction of '
        'the same mask (grad.scalar_loss, _evaluate_average_loss_step, Mime gradient pass, Agnostic segment sums), that the '
        'means use safe_div, and that the regulariser enters exactly once. Reports one known finding (regulariser added per '
        'batch in the Agnostic domain pass). Numerical equality of padded vs unpadded results is not decided.',
   design='DESIGN.md section 4 C06; rules R-MASK M-a/M-b, R-DIV, R-REG',
   technique='producer/consumer dataflow with mask-awareness summaries + paired-reduction pattern checks'),
 'C07': dict(
   text='Static analysis (level "other"): ownership/liveness analysis of every donated buffer in tree_util (owned copy before '
        'first donation, dead after donation, public functions donate nothing, private wrappers stay private), recognition of '
        'the one-pass paired weighted-sum shape of tree_sum/tree_mean/mean_aggregator, zero guards on both inverse-weight helpers, '
        'a single common clip scalar min(1, bound/global norm), one-pass consumption of iterables, and no write through parameters. '
        'Hull containment, order independence and the numeric norm bound are not decided.',
   design='DESIGN.md section 4 C07; rules R-DONATE, R-WMEAN, R-DIV, R-ONEPASS, R-PURE, R-CLIP',
   technique='buffer-ownership (donation) dataflow + guard/denominator classification + accumulator-shape recognition'),
 'C11': dict(
   text='Static analysis (level "other"): decides the structural clauses of the quantizer property on all code paths: every '
        'data-dependent division in compression.py is guarded (nan_to_num / safe_div / non-negative self-normalisation), the '
        'probability compared with the uniform sample derives from a value clamped to [0,1], PRNG keys are linear per round, '
        'per client (PRNGSequence of a split output) and per leaf, rotation and inverse rotation share key and shapes, the '
        'client weight is passed through unchanged into tree_mean, and the bit counter accumulates the documented formula. '
        'Unbiasedness, grid membership and error bounds (expectations/values) are not decided.',
   design='DESIGN.md section 4 C11; rules R-DIV, R-KEY K1-K4, R-PAIR, R-WMEAN, R-CLAMP',
   technique='denominator classification + guard recognition, PRNG-key linearity typestate, paired-use provenance checks'),
 'C12': dict(
   text='Static analysis (level "other"): Engler-style sibling cross-check of the seven built-in algorithms against the FedAvg '
        'row: per trainer the recovered roles (start point, optimizer state threading, gradient evaluation point, delta direction, '
        'key threading), per round the paired weighted-mean idiom at all 9 inverse-weight sites and the server update; plus the '
        'algorithm-specific necessary conditions for the stated reductions (FedProx penalty is a product with mu added before the '
        'mean and differentiated w.r.t. the trained params; Mime server step and optimizer-state advance at the round\'s params; '
        'HypCluster index pairing / empty-cluster arm / argmin; APFL global branch isolation). The numerical equalities are not decided.',
   design='DESIGN.md section 4 C12; rules R-SIB, R-WMEAN, R-PROX, R-MIME, R-HYP, R-KEY',
   technique='sibling-implementation cross-checking via record-field role recovery and accumulator-idiom recognition'),
 'C08': dict(
   text='Static analysis (level "other"): sibling cross-check of the three FederatedData implementations: exhaustive interface '
        'coverage with matching arity, half-open range semantics at every comparison (SQL clauses parsed from the string literals, '
        'point-lookup guards, Subset/InMemory comprehensions), _range_where covering the four None combinations, every SELECT '
        'range-restricted or a guarded point lookup, ORDER BY rowid on iteration, KeyError discipline on all paths, derivations '
        'that rebuild the view from its own fields changing only the intended one, immutable preprocessor chains, client-before-'
        'batch preprocessing, sorted/ordered iteration, empty views constructible, and no write through self/arguments in any '
        'view method. Equality of content across implementations is not decided.',
   design='DESIGN.md section 4 C08; rules R-SIB, R-SQL, R-KEYERR, R-DERIVE, R-ORDER, R-PURE, R-EMPTY, R-FILTER.total',
   technique='sibling-implementation cross-checking (normalised comparisons, SQL literal parsing, CFG dominance, alias/mutation analysis)'),
 'C09': dict(
   text='Static analysis (level "other"): decides the structural necessary conditions of crash-safe resumption on every '
        'path of the code: checkpoints are published only by rename of a complete temp file that the loader pattern '
        'rejects, save dominates delete and the retention listing, the loader loads the last sorted name and parses the '
        'round from that same name, the loop restarts at loaded round + 1 with the sampler re-seated, the state is '
        'threaded (loaded/init/carried) and every name read after the possibly-empty round loop is definitely assigned. '
        'It does not decide equality of resumed and uninterrupted runs over crash points (runtime histories).',
   design='DESIGN.md section 4 C09; rules R-ATOMIC, R-ORDER, R-DEFASSIGN, R-PAIR, R-CONST',
   technique='CFG dominance / must-pass-through + reaching definitions + callee write-summaries (custom AST analysis)'),
 'C10': dict(
   text='Static analysis (level "other"): a flow-sensitive alias analysis with per-function summaries shows that no heap '
        'write in any function of fedjax/algorithms, fedjax/aggregators (and the evaluator triples of core/models) reaches '
        'an object aliased with a parameter, a module global, or a closure variable that outlives one invocation; state '
        'classes are frozen pytree dataclasses; no global RNG or clock is consulted; nothing reachable from the arguments '
        'is at a donated position; the key stored in the next compression state is a fresh split output used nowhere '
        'else. It does not decide value equality of two calls or pickle round trips.',
   design='DESIGN.md section 4 C10; rules R-PURE, R-DONATE, R-KEY K3, R-FROZEN, R-NONDET',
   technique='interprocedural alias/mutation analysis over reaching definitions + PRNG-key linearity typestate'),
 'C13': dict(
   text='Static analysis (level "other"): the samplers write only self._round_num outside __init__ (incremented exactly once per '
        'sample(), after its uses; set_round_num stores its argument), the numpy RandomState is rebuilt inside every sample() '
        'from (seed, round) by a function that touches no global RNG, ids are drawn with choice(np.array(ids, dtype=object), '
        'size=cohort, replace=False), datasets come from get_clients of exactly those ids and are paired with '
        'split(PRNGKey(round), cohort)[i] by position; the streaming sampler skips start_round*cohort items and consumes cohort '
        'items per round. Distinctness of the Lehmer seeds and statistical uniformity are not decided.',
   design='DESIGN.md section 4 C13; rules R-PURE, R-SEED, R-CHOICE, R-STREAM, R-KEY',
   technique='field-write (who-may-write) analysis + CFG ordering of the round counter + argument-shape checks'),
 'C14': dict(
   text='Static analysis (level "other"): per metric class, contradiction rules over the code shape: slice bounds taken from '
        'a user-supplied int field are clamped (k < 1), membership in a tuple of ids is a disjunction not an AND-fold, numerator '
        'and denominator of sequence metrics are built from the same get_target_weight(target, masked values), zero() and '
        'evaluate_example() agree on the Stat type with an all-zero identity, the logits mask is added before ranking, top-k '
        'ranks by argsort of negated scores, accuracy is target == argmax, the confusion matrix sets exactly [target, predicted]. '
        'Agreement with an independent reference on all inputs is not decided.',
   design='DESIGN.md section 4 C14; rules R-SLICE, R-FOLD, R-PAIR, R-TYPE, R-ORDER',
   technique='per-class contradiction/pairing lints over the AST with reaching-definition provenance + finite tabulation of validation guards'),
 'C15': dict(
   text='Static analysis (level "other"), narrow: error discipline of both multi-client batchers (identity of the preprocessor '
        'and equality of the feature set checked on every path before a dataset\'s examples are used), conservation shape of '
        'buffered_shuffle (incoming item replaces exactly one buffered item which is yielded exactly once on every path; all '
        'other buffer writes are two-slot swaps; tail emits the whole buffer; randomness only from the supplied generator), '
        'buf/buf_size pairing and slice contiguity in the padded multi-client batcher, one item per (dataset,row) and final '
        'flush in the example shuffler, and the replay discipline of RepeatableIterator. The carry-over arithmetic of the batcher '
        'and non-triviality of the order are NOT decided.',
   design='DESIGN.md section 4 C15; rules R-ERR, R-CONSERVE, R-REPLAY',
   technique='CFG dominance (checks before use, yield on every path) + permutation-shaped assignment recognition + paired-update checks'),
 'C16': dict(
   text='Static analysis (level "other"): writer/reader table agreement for the msgpack scheme (every extension code packed is '
        'unpacked by the inverse helper with equal tuple arity; codes distinct), C-order on both sides, byte order normalised '
        'because the descriptor written (dtype.name) carries none, strict_types/raw flags consistent, bytes-only object arrays, '
        'SQLite writer/reader inverse compositions with matching column order and validated row counts, pickle dump/load on '
        'binary files. Value equality for all dtypes/layouts is not decided.',
   design='DESIGN.md section 4 C16; rules R-SIB.ext, R-PAIR.layout/byteorder/flags, R-SIB.sqlite, R-PAIR.pickle',
   technique='writer/reader sibling agreement checks over the AST (tables, arities, flags, SQL literals)'),
 'C20': dict(
   text='Static analysis (level "other"): a constant folder evaluates from source the label ids and vocabulary sizes on the '
        'dataset side (including shakespeare._build_look_up_table on its literal vocabulary) and on the model side at default '
        'arguments and compares them; checks that metric/loss configuration uses those named ids, that tasks pair dataset and '
        'model consistently, that the CIFAR-100 TFF standard-deviation floor has the same normal form as the one parsed from the '
        'installed TensorFlow source, centre-crop and EMNIST writer-id offsets, and that packaged classification/language models '
        'keep the batch axis in train_loss and use no batch normalisation. Tokenizer losslessness and numeric agreement with '
        'TensorFlow are not decided.',
   design='DESIGN.md section 4 C20; rules R-CONST, R-SIB.tf, R-TASK, R-ROW, R-OFFSET, R-AXIS.flip',
   technique='constant folding from source + cross-module constant comparison + reference-source comparison (installed TensorFlow)'),
 'C17': dict(
   text='Static analysis (level "other"): decides the code-shape necessary conditions of the per-algorithm invariants: APFL '
        'coefficients stored in the next client state pass clip(.,0,1) after the optimizer update on every path (and the clip '
        'call is valid for the installed jax), client state is written only under the yielded client id into a copy of the table; '
        'MimeLite aggregates the clipped delta whenever a clip norm is configured; the Agnostic EG update renormalises a clamped '
        'vector by its own sum and shifts the window by [1:] + [newest]; HypCluster argmin / empty-cluster / index pairing; '
        'ignore_grads_haiku filters grads and params with the same predicate and restores ignored parameters from the input. '
        'Reports two known findings (unguarded data-dependent divisions in AgnosticFedAvg). The invariants as predicates on '
        'values along histories are not decided.',
   design='DESIGN.md section 4 C17; rules R-CLIP01, R-PARTICIPANT, R-CLIPNORM, R-SIMPLEX, R-DIV, R-HYP, R-IGNORE, R-API',
   technique='must-pass-through provenance checks over reaching definitions + denominator/guard classification + installed-API check',
   note='R-API imports the installed jax/numpy/haiku/optax packages (not fedjax) to inspect signatures.'),
 'C18': dict(
   text='Static analysis (level "other"), deliberately narrow: sibling/pairing agreement between structured_rotation[_pytree] and '
        'inverse_structured_rotation[_pytree] - per-leaf keys by split(rng, len(leaves)) zipped in flatten order on both sides, '
        'Rademacher signs of the shape of the vector that is transformed, scaling by the reciprocal square root of that vector\'s '
        'length (normal form of x/sqrt(d), x*(1/sqrt(d)), x*d**-0.5), sign-then-transform vs transform-then-sign, zero padding '
        'to the power-of-two ceiling at the end and cropping to prod(original shape). That the Kronecker/einsum schedule equals '
        'the Sylvester matrix, norm preservation and invertibility up to rounding - the larger half of the property - are NOT '
        'decided by this family.',
   design='DESIGN.md section 4 C18; rules R-SIB.rotation, R-KEY',
   technique='sibling-implementation comparison with algebraic normal forms of the scale factor'),
 'C19': dict(
   text='Static analysis (level "other"): for each cache completion marker (a path whose existence skips work) every '
        'writer that can create it is shown, on all normal CFG paths, to write a distinct temp name and publish it by '
        'rename; validation dominates publication; stale temp files are removed before non-truncating creators; the '
        'reuse arm reaches no network call or writer; the transfer loop count is a ceiling division. File-system and '
        'network behaviour at run time is not decided.',
   design='DESIGN.md section 4 C19; rule R-ATOMIC',
   technique='completion-marker discovery + writer/rename must-pass-through on the CFG (custom AST analysis)'),
}

NA_REASON = {}

# rules added while testing against seeded changes (DESIGN.md sections 9.5-9.7), appended to the claim text
EXTRA = {
 'C03': 'Also: Bucket sizes are exact floor halves computed without floating point; an Iterable chain is materialised before it is stored.',
 'C01': 'Also: optimizer results flow into the returned state; the local step-count structure (shared with C04) and the pmap padding-step selection (shared with C02). The cohort is passed on whole (no filtered comprehension over the clients); model builders forward train / eval keyword arguments to the pass they belong to. apply never returns the state it was given (the server step is taken on every path); no donation on the round\'s path; every backend yields for every client and keeps nothing between calls.',
 'C02': 'Also: padding values are zeros_like of their template (dtype kept); no [0]/[-1] on the client list outside the per-block loop or an emptiness guard. The block sort key is the batch count only; no memoised function reads the backend selection; the setter stores the choice on every path. No client is skipped by a backend; `run` mutates nothing of the enclosing __call__ (scratch lists, caches).',
 'C04': 'Also: the index array has the element type of the permutation buffer (>= 32 bit); dataclass replace() forwards its overrides unfiltered; hparams built from flags take each flag value unmodified. The number of batches is decided per case of (num_epochs, drop_remainder, num_steps) by a case table with canonical arithmetic (no floating point, no truthiness test of an optional count); dataset size rules shared with C03.',
 'C05': 'Also: the evaluation loop merges every batch (no break / skipped iteration); the average-loss evaluators end in safe_div (shared with C06). Every metric field takes part in equality / hash (static jit argument); accumulators are numbers, not booleans; the per-domain identity has the domain axis.',
 'C06': 'Also: once the regulariser is added the value does not flow into a reduction; nobody hands a regulariser to the factory of the known finding; per-domain means use safe_div; pair sums are not modified between accumulation and normalisation. Every result of evaluate_average_loss goes through the finalizer; no raw division by the cohort example count in Mime / MimeLite.',
 'C07': 'Also: aggregators do not filter clients before the mean; tree_sum/tree_mean accumulate in first-copy-then-add form with owned accumulators.',
 'C08': 'Also: Optional bounds are tested with `is None`, never by truthiness; every query of a view runs on its own cursor.',
 'C09': 'Also: the temporary file is closed before it is renamed; the removal list is every checkpoint but the newest `keep`; load_state returns the unpickled object unconverted; no file of the run is opened in append mode; the round-indexed sampler rules of C13. Divisions after the round loop are zero-guarded (a resumed run may have no rounds left); no ordered sequence is built from a set. Every configured final evaluation runs unconditionally.',
 'C10': 'Also: state constructor / replace() arguments are not views, iterators, generators or handles (a state must pickle and be a pytree). Donation is declared only in tree_util.py / for_each_client.py; a state field initialised with a numpy array is not updated through an augmented assignment on an alias. The optimizer wrapper writes into fresh containers only and returns the state its base optimizer produced.',
 'C11': 'Also: a state rebuilt with .replace() gets a fresh key; tree_mean and its zero-guarded normaliser (shared with C07). No counter or list that outlives one apply() (hidden-state rule of C10 on the compression modules); loops carry their accumulator (R-LOOPCARRY). The leaf-level quantizer is applied per leaf; optional bounds are tested with `is None` also where the parameter is rebound later.',
 'C12': 'Also: HypCluster carries the updated optimizer state; Mime evaluates the control variate with the key of the step. No module-level cache or in-place update of a state list in the algorithm modules; the weight total is accumulated per stream occurrence, not per client id.',
 'C13': 'Also: shuffled_clients builds one RandomState(seed) unconditionally (no truthiness test of the seed) and iterates ids in sorted order. Reading a stream of clients does not permute the id list of the dataset; the population is never ordered through a set.',
 'C14': 'Also: cross entropy takes log-probabilities from log_softmax (never log(softmax)); the confusion matrix puts one count at [target, argmax]. The ConfusionMatrix length check rejects exactly the unequal pairs (guard tabulated over a finite domain); weights may be the inlined get_target_weight call. The SequenceLength numerator is a reduction of the weights.',
 'C15': 'Also: the per-client cursor is assigned in every iteration before it is read (must-assign dataflow over the loop body); concat_examples appends every piece; the no-copy arm of RepeatableIterator is limited to builtin re-iterable containers. The bucket rule of the final batch (shared with C03).',
 'C16': 'Also: NumPy scalars come back through ar[()]; every INSERT of the builder is committed before the method returns; no cursor is stored on a view; load_state returns the unpickled object unconverted. The state file is published by rename on the normal path only (never from a finally / except block); CREATE TABLE is unconditional. The dtype is written by name (the reader looks it up by name); NumPy scalars are recognised before native complex.',
 'C17': 'Also: no function of apfl.py writes into a state table it was given; the sliding window keeps its length; HypCluster leaves empty clusters untouched. The per-domain counts entering the window are the unmodified sum over the clients. MimeLite\'s weighted mean (shared with C12); ignore_grads returns the base optimizer\'s new state.',
 'C18': 'Also: no shortcut return in one rotation direction only; the einsum / tensordot axis schedule; no module-level caches; divisions only by shape-derived lengths. The factorisation loop stops at 1 (strict test); the diagonal of signs is never sign() of a continuous draw. One contraction per axis (never over a de-duplicated set of block sizes); a parameter is not clamped before it is validated; no identity-based bookkeeping.',
 'C19': 'Also: the download / decompress loops do not swallow read errors and require end-of-stream; a stale temporary file is removed or truncated before rebuilding. Published files are written through buffered writers; no publishing rename in a finally / except block. A reader that does not enforce Content-Length needs an explicit length check; the default progress reporter yields all its steps.',
 'C20': 'Also: constants are folded at the arguments the task actually passes; the look-up table fill value is the OOV label; crop arguments are not swapped; logits are transposed (not reshaped) back to batch-major; the default vocabulary size reaches the loader unmodified. Accepted crop sizes are exactly 1..32 (guard tabulated); every snippet is written and counted; a value computed for a module argument reaches the constructor. A row\'s loss does not use the batch size; every returned loss is the padding-masked one; the test split is not preprocessed with distortion.',
}
FORWARD_NOTE = (' Cross-cutting R-FORWARD (functions scoped per property in rules/forward.py): every parameter is read or explicitly discarded, same-named '
                'parameters are passed on to repository callees, optional numbers are not tested by truthiness, same-named arguments are not '
                'swapped, **kwargs are forwarded unfiltered.')

def main():
  checks = []
  na = []
  for p in props:
    pid = p['id']
    c = CLAIMS.get(pid)
    if c is None:
      na.append({'property_id': pid, 'reason': NA_REASON.get(pid, 'check not built yet (build in progress; see DESIGN.md section 4)')})
      continue
    checks.append({
      'property_id': pid,
      'quick_cmd': f'./check {pid} --tier quick',
      'thorough_cmd': f'./check {pid} --tier thorough',
      'evidence_file': f'/verif/evidence/{pid}.json',
      'replay_cmd_template': f'./check {pid} --replay {{path}}',
      'engine': 'fjsa',
      'level_claimed': {'category': 'other', 'text': c['text'] + (' ' + EXTRA[pid] if pid in EXTRA else '') + FORWARD_NOTE,
                        'design_ref': c['design'] + '; sections 9.5-9.13'},
      'level_note': c.get('note', '') + ('' if not c.get('note') else ' ') + COMMON_NOTE,
      'technique': c['technique'],
    })
  fixes = []
  try:
    out = subprocess.run(['git', '-C', '/repo', 'log', '--format=%h %s'], capture_output=True, text=True).stdout
    fixes = [l for l in out.splitlines() if l.split(' ', 1)[1].startswith('fix:')]
  except Exception:
    pass
  m = {
    'version': 1,
    'setup_cmd': '/venv/bin/python -m compileall -q /verif/fjsa',
    'hooks': {
      'guard': 'FEDJAX_VERIF',
      'enable': 'none needed: the checks read /repo sources statically; no hook is installed in google/fedjax',
      'baseline_off_cmd': 'cd /repo && /venv/bin/python -m pytest -ra -q -p no:cacheprovider --timeout=900 --continue-on-collection-errors',
      'source_commits': [],
      'add_only': True,
    },
    'engines': [{'name': 'fjsa', 'path': '/verif/fjsa', 'serves_properties': [c['property_id'] for c in checks],
                 'kind_free_text': 'AST/CFG/dataflow static analyser specific to fedjax (python stdlib only)'}],
    'checks': checks,
    'notes': 'All checks are static analysis (no fedjax code is imported or run). Exit 0 held / 1 VIOLATION / 2 analysis could not decide. '
             'Genuine defects repaired in /repo by "fix:" commits: ' + '; '.join(fixes) + '. Known findings: /verif/known_findings.json.',
    'not_applicable': na,
  }
  json.dump(m, open(os.path.join(ROOT, 'MANIFEST.json'), 'w'), indent=1)
  print('checks', len(checks), 'not_applicable', len(na))

if __name__ == '__main__':
  main()
