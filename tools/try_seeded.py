#!/venv/bin/python
"""Runs the property checks against a patch applied to a scratch copy of /repo.

usage: tools/try_seeded.py <patch.diff> [C01 C02 ...]      (default: all 20 properties)
Prints, per property, the exit status and the VIOLATION / ANALYSIS lines. /repo itself is not touched; evidence
files in /verif/evidence are not overwritten (a scratch evidence dir is used).
"""
import os, shutil, subprocess, sys, tempfile
ROOT = os.path.dirname(os.path.dirname(os.path.abspath(__file__)))
sys.path.insert(0, ROOT)
from fjsa.selftest.harness import copy_tree

def main():
  patch = os.path.abspath(sys.argv[1])
  props = sys.argv[2:] or [f'C{i:02d}' for i in range(1, 21)]
  repo = os.environ.get('FJSA_BASE_REPO', '/repo')
  scratch = tempfile.mkdtemp(prefix='fjsa-seeded-', dir='/dev/shm' if os.path.isdir('/dev/shm') else None)
  try:
    copy_tree(repo, scratch)
    r = subprocess.run(['git', 'apply', '--unsafe-paths', '--directory=' + scratch, patch], capture_output=True, text=True, cwd='/')
    if r.returncode != 0:
      r = subprocess.run(['patch', '-p1', '-d', scratch, '-i', patch], capture_output=True, text=True)
      if r.returncode != 0:
        print('PATCH-FAILED', r.stdout[-400:], r.stderr[-400:])
        return 3
    ev = os.path.join(scratch, '_evidence')
    fired = []
    for p in props:
      c = subprocess.run([os.path.join(ROOT, 'check'), p, '--tier', 'quick', '--repo', scratch, '--evidence-dir', ev],
                         capture_output=True, text=True)
      lines = [l for l in c.stdout.splitlines() if l.startswith(('VIOLATION', '  R-', 'ANALYSIS', 'NOT-DECIDED', '  ')) and 'auto_activate' not in l]
      if c.returncode != 0 or 'NOT-DECIDED' in c.stdout:
        fired.append(p)
        print(f'== {p}: exit {c.returncode}')
        for l in lines[:8]:
          print('   ' + l[:300])
    print('FIRED:', ' '.join(fired) if fired else '(none)')
    return 0
  finally:
    shutil.rmtree(scratch, ignore_errors=True)

if __name__ == '__main__':
  sys.exit(main())
