#!/venv/bin/python
"""Runs all 20 quick checks against each neutral patch under <src>/<Cnn>/<nK>/patch.diff and prints one line per patch:
which checks exit 1 (false alarm) and which exit 2 (inconclusive). usage: tools/try_neutral.py [--src /tmp/wtoutN] [Cnn ...]"""
import os, re, shutil, subprocess, sys, tempfile, json
ROOT = os.path.dirname(os.path.dirname(os.path.abspath(__file__)))
sys.path.insert(0, ROOT)
from fjsa.selftest.harness import copy_tree
import concurrent.futures
PROPS = [f'C{i:02d}' for i in range(1, 21)]

def one(args):
  src, p, n = args
  patch = os.path.join(src, p, n, 'patch.diff')
  scratch = tempfile.mkdtemp(prefix='fjsa-neutral-', dir='/dev/shm')
  try:
    copy_tree('/repo', scratch)
    r = subprocess.run(['git', 'apply', '--unsafe-paths', '--directory=' + scratch, patch], capture_output=True, text=True, cwd='/')
    if r.returncode != 0:
      return p, n, 'PATCH-FAILED', {}, {}
    alarms, incs = {}, {}
    ev = os.path.join(scratch, '_ev')
    for q in PROPS:
      c = subprocess.run([os.path.join(ROOT, 'check'), q, '--repo', scratch, '--evidence-dir', ev], capture_output=True, text=True)
      lines = [l.strip()[:200] for l in c.stdout.splitlines() if re.match(r'\s+R-|ANALYSIS', l)]
      if c.returncode == 1:
        alarms[q] = lines[:4]
      elif c.returncode != 0 or 'NOT-DECIDED' in c.stdout:
        incs[q] = [l.strip()[:200] for l in c.stdout.splitlines() if l.startswith(('NOT-DECIDED', 'ANALYSIS'))][:4]
    return p, n, 'ok', alarms, incs
  finally:
    shutil.rmtree(scratch, ignore_errors=True)

def main():
  a = sys.argv[1:]
  src = '/tmp/wtoutN'
  if '--src' in a:
    i = a.index('--src'); src = a[i + 1]; del a[i:i + 2]
  props = a or PROPS
  tasks = [(src, p, n) for p in props for n in sorted(os.listdir(os.path.join(src, p))) if os.path.exists(os.path.join(src, p, n, 'patch.diff'))]
  with concurrent.futures.ProcessPoolExecutor(max_workers=8) as ex:
    res = list(ex.map(one, tasks))
  out = {}
  fa = inc = 0
  for p, n, st, alarms, incs in res:
    own_a, own_i = p in alarms, p in incs
    fa += bool(alarms); inc += bool(incs) and not alarms
    print(f'{p} {n}: alarms={sorted(alarms)} inconclusive={sorted(incs)} {st if st != "ok" else ""}')
    out[f'{p}-{n}'] = {'alarms': alarms, 'inconclusive': incs}
  json.dump(out, open(os.path.join(src, 'neutral_results.json'), 'w'), indent=1)
  print(f'patches {len(res)}: with a false alarm {fa}, only inconclusive {inc}, silent {len(res) - fa - inc}')

if __name__ == '__main__':
  main()
