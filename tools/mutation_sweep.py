#!/venv/bin/python
"""Mutation-adequacy audit of the static checks (a development aid, not a registered check).

For a property, takes the functions its check reports as analysed (`functions_analysed`) and generates classic
first-order mutants inside them (comparison flips, arithmetic swaps, 0/1 constants, boolean constants, `not` insertion,
argument swaps, statement deletion, `and`/`or` swaps, `is`/`is not`), each applied to a scratch copy, and runs the quick
check on it. Survivors are written to <out>/<Cnn>.json for manual triage: a survivor is either equivalent / outside the
property, or a gap in the rules.

usage: tools/mutation_sweep.py [--out /tmp/sweep] [--jobs 16] Cnn ...
"""
from __future__ import annotations

import ast
import copy
import json
import multiprocessing as mp
import os
import shutil
import sys
import tempfile

ROOT = os.path.dirname(os.path.dirname(os.path.abspath(__file__)))
sys.path.insert(0, ROOT)
from fjsa import report  # noqa: E402
from fjsa.cli import run_property  # noqa: E402
from fjsa.selftest.harness import copy_tree  # noqa: E402

REPO = os.environ.get('FJSA_BASE_REPO', '/repo')
CMP = {ast.Lt: ast.LtE, ast.LtE: ast.Lt, ast.Gt: ast.GtE, ast.GtE: ast.Gt, ast.Eq: ast.NotEq, ast.NotEq: ast.Eq,
       ast.Is: ast.IsNot, ast.IsNot: ast.Is, ast.In: ast.NotIn, ast.NotIn: ast.In}
BIN = {ast.Add: ast.Sub, ast.Sub: ast.Add, ast.Mult: ast.Div, ast.Div: ast.Mult, ast.FloorDiv: ast.Mult, ast.Mod: ast.FloorDiv}


def func_nodes(tree: ast.AST):
  out = {}

  def rec(node, prefix):
    for ch in ast.iter_child_nodes(node):
      if isinstance(ch, (ast.FunctionDef, ast.AsyncFunctionDef)):
        q = f'{prefix}{ch.name}'
        out[q] = ch
        rec(ch, q + '.')
      elif isinstance(ch, ast.ClassDef):
        rec(ch, f'{prefix}{ch.name}.')
      else:
        rec(ch, prefix)
  rec(tree, '')
  return out


def own_nodes(fn):
  """Nodes of the function body, not descending into nested defs (they are separate entries)."""
  stack = list(fn.body)
  while stack:
    n = stack.pop()
    yield n
    for ch in ast.iter_child_nodes(n):
      if not isinstance(ch, (ast.FunctionDef, ast.AsyncFunctionDef, ast.ClassDef)):
        stack.append(ch)


def splice(src_lines, node, new_text):
  l0, c0, l1, c1 = node.lineno - 1, node.col_offset, node.end_lineno - 1, node.end_col_offset
  # col offsets are utf8 byte offsets
  first = src_lines[l0].encode()
  last = src_lines[l1].encode()
  head = first[:c0].decode()
  tail = last[c1:].decode()
  indent = ' ' * (len(head) - len(head.lstrip())) if not head.strip() else None
  if indent is not None and '\n' in new_text:
    new_text = ('\n' + indent).join(new_text.split('\n'))
  return src_lines[:l0] + [head + new_text + tail] + src_lines[l1 + 1:]


def mutants_of(fn, is_docstring):
  for n in own_nodes(fn):
    if isinstance(n, ast.Compare) and len(n.ops) == 1 and type(n.ops[0]) in CMP:
      m = copy.deepcopy(n)
      m.ops = [CMP[type(n.ops[0])]()]
      yield n, ast.unparse(m), 'cmp'
    elif isinstance(n, ast.BinOp) and type(n.op) in BIN and not (isinstance(n.left, ast.Constant) and isinstance(n.left.value, str)):
      m = copy.deepcopy(n)
      m.op = BIN[type(n.op)]()
      yield n, ast.unparse(m), 'binop'
    elif isinstance(n, ast.BoolOp):
      m = copy.deepcopy(n)
      m.op = ast.Or() if isinstance(n.op, ast.And) else ast.And()
      yield n, ast.unparse(m), 'boolop'
    elif isinstance(n, ast.UnaryOp) and isinstance(n.op, ast.Not):
      yield n, ast.unparse(n.operand), 'drop-not'
    elif isinstance(n, ast.UnaryOp) and isinstance(n.op, ast.USub):
      yield n, ast.unparse(n.operand), 'drop-neg'
    elif isinstance(n, ast.Constant) and not is_docstring(n):
      if n.value is True:
        yield n, 'False', 'const'
      elif n.value is False:
        yield n, 'True', 'const'
      elif isinstance(n.value, int) and not isinstance(n.value, bool) and n.value in (0, 1, 2):
        yield n, str({0: 1, 1: 0, 2: 1}[n.value]), 'const'
      elif n.value is None:
        pass
    elif isinstance(n, ast.Call):
      if len(n.args) == 2 and not n.keywords and ast.unparse(n.args[0]) != ast.unparse(n.args[1]) and not any(isinstance(a, ast.Starred) for a in n.args):
        m = copy.deepcopy(n)
        m.args = [m.args[1], m.args[0]]
        yield n, ast.unparse(m), 'swap-args'
      for i, k in enumerate(n.keywords):
        if k.arg and len(n.keywords) + len(n.args) > 1 and i < 3:
          m = copy.deepcopy(n)
          del m.keywords[i]
          yield n, ast.unparse(m), f'drop-kw:{k.arg}'
    elif isinstance(n, ast.IfExp):
      m = copy.deepcopy(n)
      m.body, m.orelse = m.orelse, m.body
      yield n, ast.unparse(m), 'ifexp-swap'
    elif isinstance(n, ast.Subscript) and isinstance(n.slice, ast.Slice):
      s = n.slice
      if s.lower is not None and s.upper is None:
        m = copy.deepcopy(n); m.slice = ast.Slice(lower=None, upper=s.lower, step=s.step)
        yield n, ast.unparse(m), 'slice-flip'
      elif s.upper is not None and s.lower is None:
        m = copy.deepcopy(n); m.slice = ast.Slice(lower=s.upper, upper=None, step=s.step)
        yield n, ast.unparse(m), 'slice-flip'
    if isinstance(n, (ast.Expr, ast.Assign, ast.AugAssign, ast.Raise, ast.Delete)) and not (isinstance(n, ast.Expr) and is_docstring(n.value)):
      if isinstance(n, ast.Assign):
        continue  # deleting a binding mostly yields NameError: not a behavioural mutant
      yield n, 'pass', 'del-stmt'
    if isinstance(n, ast.If) and not n.orelse:
      yield n.test, 'True', 'if-true'
      yield n.test, 'False', 'if-false'
    if isinstance(n, (ast.Break, ast.Continue)):
      yield n, 'pass', 'del-jump'
    if isinstance(n, ast.AugAssign):
      m = copy.deepcopy(n)
      yield n, ast.unparse(ast.Assign(targets=[m.target], value=m.value, lineno=0)), 'aug-to-assign'


def build(prop, fns=None):
  if fns is None:
    check, _ = run_property(prop, 'quick', REPO)
    fns = sorted(check.functions_analysed)
  out = []
  by_file = {}
  for f in fns:
    rel, q = f.split(':', 1)
    by_file.setdefault(rel, []).append(q)
  for rel, qs in by_file.items():
    path = os.path.join(REPO, rel)
    src = open(path, encoding='utf-8').read()
    tree = ast.parse(src)
    fmap = func_nodes(tree)
    lines = src.split('\n')
    for q in qs:
      fn = fmap.get(q)
      if fn is None:
        continue
      doc = fn.body[0].value if fn.body and isinstance(fn.body[0], ast.Expr) and isinstance(fn.body[0].value, ast.Constant) and isinstance(
          fn.body[0].value.value, str) else None
      seen = set()
      for node, new, kind in mutants_of(fn, lambda c: c is doc):
        key = (node.lineno, node.col_offset, node.end_lineno, node.end_col_offset, new)
        if key in seen:
          continue
        seen.add(key)
        try:
          new_src = '\n'.join(splice(lines, node, new))
          compile(new_src, path, 'exec')
        except SyntaxError:
          continue
        old = ast.unparse(node)
        out.append(dict(prop=prop, file=rel, func=q, line=node.lineno, kind=kind, old=old[:160], new=new[:160], src=new_src))
  return out


def work(mu):
  scratch = tempfile.mkdtemp(prefix='fjsa-sweep-', dir='/dev/shm' if os.path.isdir('/dev/shm') else None)
  try:
    copy_tree(REPO, scratch)
    with open(os.path.join(scratch, mu['file']), 'w', encoding='utf-8') as f:
      f.write(mu['src'])
    try:
      check, _ = run_property(mu['prop'], 'quick', scratch)
    except Exception as e:  # pylint: disable=broad-except
      return dict(mu, src=None, status='error', detail=f'{type(e).__name__}: {e}'[:200])
    known = report.load_known_findings()
    viol = [o for o in check.obs if o.status == 'violation' and not o.advisory and not any(report.finding_matches(e, mu['prop'], o) for e in known)]
    inc = [o for o in check.obs if o.status == 'inconclusive']
    if viol:
      return dict(mu, src=None, status='killed', detail=viol[0].rule)
    if inc or check.errors:
      return dict(mu, src=None, status='inconclusive', detail=(check.errors + [o.rule for o in inc])[0][:120])
    return dict(mu, src=None, status='survived', detail='')
  finally:
    shutil.rmtree(scratch, ignore_errors=True)


ALL = [f'C{i:02d}' for i in range(1, 21)]


def work_global(mu):
  """All 20 checks against one mutant: which properties report it."""
  scratch = tempfile.mkdtemp(prefix='fjsa-sweep-', dir='/dev/shm' if os.path.isdir('/dev/shm') else None)
  try:
    copy_tree(REPO, scratch)
    with open(os.path.join(scratch, mu['file']), 'w', encoding='utf-8') as f:
      f.write(mu['src'])
    known = report.load_known_findings()
    killed, inconc = {}, {}
    for prop in (mu.get('owners') or ALL) if os.environ.get('SWEEP_OWNERS_ONLY') else ALL:
      try:
        check, _ = run_property(prop, 'quick', scratch)
      except Exception as e:  # pylint: disable=broad-except
        inconc[prop] = f'{type(e).__name__}: {e}'[:120]
        continue
      viol = [o for o in check.obs if o.status == 'violation' and not o.advisory and not any(report.finding_matches(e, prop, o) for e in known)]
      inc = [o for o in check.obs if o.status == 'inconclusive']
      if viol:
        killed[prop] = viol[0].rule
      elif inc or check.errors:
        inconc[prop] = (check.errors + [o.rule for o in inc])[0][:120]
    from fjsa.flow import FuncFlow
    FuncFlow._cache.clear()
    r = dict(mu)
    r.pop('src')
    r.update(status='killed' if killed else ('inconclusive' if inconc else 'survived'), killed=killed, inconclusive=inconc)
    return r
  finally:
    shutil.rmtree(scratch, ignore_errors=True)


def main_global(out, jobs):
  import warnings
  warnings.simplefilter('ignore')
  fns, owners = set(), {}
  for prop in ALL:
    check, _ = run_property(prop, 'quick', REPO)
    for f in check.functions_analysed:
      fns.add(f)
      owners.setdefault(f, []).append(prop)
  mus = build('ALL', sorted(fns))
  for mu in mus:
    mu['owners'] = owners.get(f"{mu['file']}:{mu['func']}", [])
  print('mutants', len(mus), 'functions', len(fns), flush=True)
  res = []
  with mp.Pool(jobs, maxtasksperchild=24) as pool:
    for i, r in enumerate(pool.imap_unordered(work_global, mus, chunksize=2)):
      res.append(r)
      if i % 200 == 0:
        print('done', i, flush=True)
  counts = {}
  for r in res:
    counts[r['status']] = counts.get(r['status'], 0) + 1
  json.dump(res, open(os.path.join(out, 'ALL.json'), 'w'), indent=1)
  print('ALL', len(res), counts, flush=True)


def main():
  args = sys.argv[1:]
  if '--global' in args:
    args.remove('--global')
    out, jobs = '/tmp/sweep', 16
    if '--out' in args:
      i = args.index('--out'); out = args[i + 1]; del args[i:i + 2]
    if '--jobs' in args:
      i = args.index('--jobs'); jobs = int(args[i + 1]); del args[i:i + 2]
    os.makedirs(out, exist_ok=True)
    return main_global(out, jobs)
  out, jobs = '/tmp/sweep', 16
  if '--out' in args:
    i = args.index('--out'); out = args[i + 1]; del args[i:i + 2]
  if '--jobs' in args:
    i = args.index('--jobs'); jobs = int(args[i + 1]); del args[i:i + 2]
  os.makedirs(out, exist_ok=True)
  for prop in args:
    mus = build(prop)
    with mp.Pool(jobs) as pool:
      res = pool.map(work, mus, chunksize=4)
    for r in res:
      r.pop('src', None)
    counts = {}
    for r in res:
      counts[r['status']] = counts.get(r['status'], 0) + 1
    json.dump(res, open(os.path.join(out, f'{prop}.json'), 'w'), indent=1)
    print(prop, len(res), counts, flush=True)


if __name__ == '__main__':
  main()
