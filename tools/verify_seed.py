#!/venv/bin/python
"""Confirms a seeded change independently, in the property's scratch worktree:
  demo passes on the clean tree, fails with the patch; the pinned stable tests still pass with the patch.
usage: verify_seed.py C07 m1   -> writes /tmp/wtout/C07/m1/verify.json
"""
import json, os, subprocess, sys, time, xml.etree.ElementTree as ET
prop, m = sys.argv[1], sys.argv[2]
wt = os.path.join(os.environ.get('SEED_WT', '/tmp/wt'), prop)
out = os.path.join(os.environ.get('SEED_OUT', '/tmp/wtout'), prop, m)
env = dict(os.environ, PYTHONPATH=wt, JAX_PLATFORMS='cpu')
def sh(cmd, timeout=1500):
  t = time.time()
  try:
    r = subprocess.run(cmd, shell=True, cwd=wt, env=env, capture_output=True, text=True, timeout=timeout)
    return r.returncode, (r.stdout + r.stderr)[-1500:], round(time.time() - t, 1)
  except subprocess.TimeoutExpired:
    return 124, 'timeout', timeout
res = {'property': prop, 'mutant': m}
sh('git checkout -- . && git clean -fdq')
res['demo_clean'] = sh(f'/venv/bin/python {out}/demo.py', 600)[::2]
rc, o, _ = sh(f'git apply {out}/patch.diff')
res['apply'] = rc
if rc == 0:
  rc2, o2, t2 = sh(f'/venv/bin/python {out}/demo.py', 600)
  res['demo_mutated'] = (rc2, t2)
  res['demo_mutated_tail'] = o2[-600:]
  junit = f'{out}/junit.xml'
  rc3, o3, t3 = sh(f'/venv/bin/python -m pytest -q -p no:cacheprovider --timeout=900 --continue-on-collection-errors --junitxml={junit} > {out}/pytest.log 2>&1', 1500)
  res['suite_wall_s'] = t3
  base = set(json.load(open('/root/.vp/BASELINE.json'))['stable_pass'])
  passed = set()
  try:
    for tc in ET.parse(junit).iter('testcase'):
      if not any(ch.tag in ('failure', 'error', 'skipped') for ch in tc):
        passed.add(f"{tc.get('classname')}::{tc.get('name')}")
  except Exception as e:
    res['junit_error'] = str(e)
  res['stable_still_passing'] = len(base & passed)
  res['stable_broken'] = sorted(base - passed)[:10]
sh('git checkout -- . && git clean -fdq')
res['ok'] = (res.get('demo_clean', (1,))[0] == 0 and res.get('apply') == 0 and res.get('demo_mutated', (0,))[0] != 0 and
             res.get('stable_still_passing') == 158)
json.dump(res, open(f'{out}/verify.json', 'w'), indent=1)
print(json.dumps({k: res[k] for k in ('property', 'mutant', 'ok', 'demo_clean', 'demo_mutated', 'stable_still_passing', 'stable_broken') if k in res}))
