#!/venv/bin/python
"""Re-evaluates every recorded seeded change (seeded/*/patch.diff) against the current checks, in parallel, and updates
meta.json (own_property_verdict, fired). usage: tools/eval_seeds.py [--no-write]"""
import os, re, shutil, subprocess, sys, tempfile, json, glob
ROOT = os.path.dirname(os.path.dirname(os.path.abspath(__file__)))
sys.path.insert(0, ROOT)
from fjsa.selftest.harness import copy_tree
import concurrent.futures
PROPS = [f'C{i:02d}' for i in range(1, 21)]

def one(d):
  patch = os.path.join(d, 'patch.diff')
  scratch = tempfile.mkdtemp(prefix='fjsa-seed-', dir='/dev/shm')
  try:
    copy_tree('/repo', scratch)
    r = subprocess.run(['git', 'apply', '--unsafe-paths', '--directory=' + scratch, patch], capture_output=True, text=True, cwd='/')
    if r.returncode != 0:
      return d, None
    fired = {}
    ev = os.path.join(scratch, '_ev')
    for q in PROPS:
      c = subprocess.run([os.path.join(ROOT, 'check'), q, '--repo', scratch, '--evidence-dir', ev], capture_output=True, text=True)
      if c.returncode != 0 or 'NOT-DECIDED' in c.stdout:
        rules = []
        for l in c.stdout.splitlines():
          mm = re.match(r'\s+(R-[\w.\-]+) (\S+):(\d+) (\S+)', l)
          if mm:
            rules.append({'rule': mm.group(1), 'file': mm.group(2), 'function': mm.group(4)})
        fired[q] = {'exit': c.returncode, 'reports': rules[:6]}
    return d, fired
  finally:
    shutil.rmtree(scratch, ignore_errors=True)

def main():
  write = '--no-write' not in sys.argv
  dirs = sorted(x for x in glob.glob(os.path.join(ROOT, 'seeded', '*')) if os.path.exists(os.path.join(x, 'patch.diff')))
  with concurrent.futures.ProcessPoolExecutor(max_workers=12) as ex:
    res = list(ex.map(one, dirs))
  stats = {}
  for d, fired in res:
    mj = os.path.join(d, 'meta.json')
    m = json.load(open(mj))
    p = m['property']
    own = (fired or {}).get(p)
    verdict = 'caught' if own and own['exit'] == 1 else ('inconclusive' if own else 'missed')
    stats[verdict] = stats.get(verdict, 0) + 1
    if m.get('own_property_verdict') != verdict:
      print(os.path.basename(d), m.get('own_property_verdict'), '->', verdict, 'others:', [k for k in (fired or {}) if k != p])
    if write:
      m['own_property_verdict'] = verdict
      m['fired'] = fired
      json.dump(m, open(mj, 'w'), indent=1, sort_keys=True)
  print(stats)

if __name__ == '__main__':
  main()
