#!/venv/bin/python
"""Shape distance (fjsa/shapes.py) of every function changed by each stored patch: seeded/*/patch.diff and refactors/*/patch.diff.
Prints the distribution of the largest per-function distance per patch. usage: tools/measure_dist.py"""
import glob, os, re, shutil, subprocess, sys, tempfile, collections, warnings
warnings.simplefilter('ignore')
ROOT = os.path.dirname(os.path.dirname(os.path.abspath(__file__)))
sys.path.insert(0, ROOT)
from fjsa import shapes
from fjsa.selftest.harness import copy_tree

def dist(patch):
  d = tempfile.mkdtemp(dir='/dev/shm')
  try:
    copy_tree('/repo', d)
    subprocess.run(['git', 'apply', '--unsafe-paths', '--directory=' + d, patch], cwd='/', capture_output=True)
    files = sorted(set(re.findall(r'^\+\+\+ b/(\S+)', open(patch).read(), re.M)))
    worst = 0
    for f in files:
      if not f.endswith('.py') or not os.path.exists(os.path.join(d, f)):
        continue
      src = open(os.path.join(d, f)).read()
      for q, node in shapes.raw_functions(src).items():
        x = shapes.distance(f, q, node)
        worst = max(worst, 99 if x is None else x)
    return worst
  finally:
    shutil.rmtree(d, ignore_errors=True)

for store in ('seeded', 'refactors'):
  c = collections.Counter()
  for p in sorted(glob.glob(os.path.join(ROOT, store, '*', 'patch.diff'))):
    c[dist(p)] += 1
  print(store, sorted(c.items()))
