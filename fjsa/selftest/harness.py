"""Checker self-validation: scripted AST edits on a scratch copy of the repo.

Each corpus entry names a file, optionally a function (qualname) and a
statement/expression by its *normalised source* (ast.unparse text, so it is
insensitive to formatting and comments); the node is replaced by new source,
the module is written to a scratch copy outside /repo and /verif, and the
property check is run on that copy in-process.

  kind='break'   the check must report a violation (rule name containing
                 `expect`, if given) located in the mutated file;
  kind='neutral' the check must stay silent (no violation, no analysis error).

An entry whose anchor text does not occur in the current tree is *skipped*
(the tree under analysis has been edited there); it never fails the run.
Scratch copies are removed before returning.
"""
from __future__ import annotations

import ast
import concurrent.futures
import os
import shutil
import tempfile
import time
import traceback
from typing import Any, Dict, List, Optional, Tuple

from fjsa import report
from fjsa.model import ROOT_PACKAGES, EXCLUDE_SUFFIXES


def _norm_src(src: str, mode: str) -> str:
  tree = ast.parse(src.strip(), mode='exec')
  if mode == 'expr':
    return ast.unparse(tree.body[0].value)
  return '\n'.join(ast.unparse(s) for s in tree.body)


def _find_func(tree: ast.Module, qualname: Optional[str]) -> Optional[ast.AST]:
  if not qualname:
    return tree
  cur: ast.AST = tree
  for part in qualname.split('.'):
    nxt = None
    for n in ast.walk(cur):
      if n is cur:
        continue
      if isinstance(n, (ast.FunctionDef, ast.AsyncFunctionDef, ast.ClassDef)) and n.name == part:
        # must be a direct child in terms of nesting: take the first found in
        # document order that is not inside another def of a different name chain
        nxt = n
        break
    if nxt is None:
      return None
    cur = nxt
  return cur


class _Replace(ast.NodeTransformer):

  def __init__(self, target: ast.AST, new_nodes: List[ast.AST]):
    self.target = target
    self.new_nodes = new_nodes
    self.done = False

  def generic_visit(self, node):
    return super().generic_visit(node)

  def visit(self, node):
    if node is self.target:
      self.done = True
      if isinstance(node, ast.stmt):
        return self.new_nodes
      return self.new_nodes[0]
    return super().visit(node)


def apply_edit(src: str, func: Optional[str], old: str, new: str, mode: str,
               occurrence: int = 0) -> Optional[str]:
  """Returns the edited module source, or None if the anchor is absent."""
  tree = ast.parse(src)
  scope = _find_func(tree, func)
  if scope is None:
    return None
  want = _norm_src(old, mode)
  matches = []
  for n in ast.walk(scope):
    if mode == 'expr' and isinstance(n, ast.expr):
      try:
        if ast.unparse(n) == want:
          matches.append(n)
      except Exception:  # pylint: disable=broad-except
        pass
    elif mode == 'stmt' and isinstance(n, ast.stmt):
      try:
        if ast.unparse(n) == want:
          matches.append(n)
      except Exception:  # pylint: disable=broad-except
        pass
  if len(matches) <= occurrence:
    return None
  matches.sort(key=lambda n: (n.lineno, n.col_offset))
  target = matches[occurrence]
  if mode == 'expr':
    new_nodes = [ast.parse(new.strip(), mode='eval').body]
  else:
    new_nodes = ast.parse(new.strip() or 'pass').body if new.strip() != '<delete>' else [ast.Pass()]
  tr = _Replace(target, new_nodes)
  out = tr.visit(tree)
  if not tr.done:
    return None
  ast.fix_missing_locations(out)
  return ast.unparse(out) + '\n'


def copy_tree(repo_root: str, dst: str):
  for pkg in ROOT_PACKAGES:
    base = os.path.join(repo_root, pkg)
    if not os.path.isdir(base):
      continue
    for dirpath, dirnames, filenames in os.walk(base):
      rel = os.path.relpath(dirpath, repo_root)
      os.makedirs(os.path.join(dst, rel), exist_ok=True)
      for fn in filenames:
        if fn.endswith('.py') and not fn.endswith(EXCLUDE_SUFFIXES):
          shutil.copyfile(os.path.join(dirpath, fn), os.path.join(dst, rel, fn))


def _scratch_base() -> str:
  for cand in (os.environ.get('FJSA_SCRATCH'), '/dev/shm', tempfile.gettempdir()):
    if cand and os.path.isdir(cand) and os.access(cand, os.W_OK):
      return cand
  return tempfile.gettempdir()


def run_one(args) -> Dict[str, Any]:
  prop, repo_root, entry = args
  from fjsa.cli import run_property
  t0 = time.time()
  res: Dict[str, Any] = {'id': entry['id'], 'kind': entry['kind'], 'status': 'error', 'detail': ''}
  scratch = tempfile.mkdtemp(prefix='fjsa-selftest-', dir=_scratch_base())
  try:
    edits = entry.get('edits') or [entry]
    copy_tree(repo_root, scratch)
    for ed in edits:
      path = os.path.join(scratch, ed['file'])
      if not os.path.exists(path):
        res.update(status='skipped', detail=f'file missing: {ed["file"]}')
        return res
      with open(path, encoding='utf-8') as f:
        src = f.read()
      new_src = apply_edit(src, ed.get('func'), ed['old'], ed['new'], ed.get('mode', 'stmt'),
                           ed.get('occurrence', 0))
      if new_src is None:
        res.update(status='skipped', detail=f'anchor not found in {ed["file"]}:{ed.get("func")}')
        return res
      compile(new_src, path, 'exec')
      with open(path, 'w', encoding='utf-8') as f:
        f.write(new_src)
    check, _ = run_property(prop, 'quick', scratch)
    known = report.load_known_findings()
    viol = [o for o in check.obs if o.status == 'violation' and not o.advisory and
            not any(report.finding_matches(e, prop, o) for e in known)]
    inconc = [o for o in check.obs if o.status == 'inconclusive']
    files = {ed['file'] for ed in edits}
    if entry['kind'] == 'break':
      exp = entry.get('expect')
      if isinstance(exp, dict):
        exp = exp.get(prop)
      hits = [o for o in viol if (not exp or exp in o.rule)]
      located = [o for o in hits if o.file in files or entry.get('anywhere')]
      if located:
        res.update(status='killed', detail=located[0].brief()[:300])
      elif hits:
        res.update(status='killed-elsewhere', detail=hits[0].brief()[:300])
      elif viol:
        res.update(status='killed-other-rule', detail=viol[0].brief()[:300])
      elif check.errors or inconc:
        res.update(status='inconclusive', detail='; '.join(check.errors + [o.brief() for o in inconc])[:300])
      else:
        res.update(status='missed', detail='no violation reported')
    else:
      if viol:
        res.update(status='false-alarm', detail=viol[0].brief()[:300])
      elif check.errors or inconc:
        res.update(status='false-inconclusive',
                   detail='; '.join(check.errors + [o.brief() for o in inconc])[:300])
      else:
        res.update(status='silent', detail='')
  except Exception as e:  # pylint: disable=broad-except
    res.update(status='error', detail=f'{type(e).__name__}: {e} | ' + traceback.format_exc().splitlines()[-3][:200])
  finally:
    shutil.rmtree(scratch, ignore_errors=True)
    res['wall_s'] = round(time.time() - t0, 2)
  return res


GOOD = {'break': {'killed', 'killed-elsewhere'}, 'neutral': {'silent'}}


def run_selftest(prop: str, repo_root: str, jobs: int = 16, only: Optional[List[str]] = None) -> Dict[str, Any]:
  from fjsa.selftest import corpus
  entries = [e for e in corpus.entries() if prop in e['props']]
  if only:
    entries = [e for e in entries if e['id'] in only]
  t0 = time.time()
  results: List[Dict[str, Any]] = []
  if entries:
    tasks = [(prop, repo_root, e) for e in entries]
    try:
      with concurrent.futures.ProcessPoolExecutor(max_workers=min(jobs, len(tasks))) as ex:
        results = list(ex.map(run_one, tasks))
    except Exception:  # pylint: disable=broad-except
      results = [run_one(t) for t in tasks]
  failures = []
  for r in results:
    if r['status'] == 'skipped':
      continue
    if r['status'] not in GOOD[r['kind']]:
      failures.append(f'{r["id"]}({r["kind"]}):{r["status"]}:{r["detail"][:160]}')
  # whole-repo behaviour-preserving rewrites: the check must stay silent on each of them
  whole = []
  if not only:
    from fjsa.selftest import neutral
    for kind, status, detail in neutral.run_for_property(prop, repo_root, jobs):
      whole.append({'id': f'whole-repo:{kind}', 'kind': 'neutral', 'status': status, 'detail': detail})
      if status != 'silent':
        failures.append(f'whole-repo:{kind}(neutral):{status}:{detail[:160]}')
    # behaviour-preserving refactors written by independent agents: no VIOLATION on any of them (a withheld verdict is allowed)
    from fjsa.selftest import refactors
    for rid, _, status, detail in refactors.run([prop], repo_root, jobs):
      if status == 'skipped':
        continue
      whole.append({'id': f'refactor:{rid}', 'kind': 'neutral', 'status': 'silent' if status in ('silent', 'withheld') else status,
                    'detail': ('verdict withheld: ' + detail) if status == 'withheld' else detail})
      if status == 'false-alarm':
        failures.append(f'refactor:{rid}(neutral):{status}:{detail[:160]}')
    # the seeded changes of independent agents that this property's check reports must still be reported
    from fjsa.selftest import seeds
    for sid, expected, verdict, detail in seeds.run(prop, repo_root, jobs):
      if verdict == 'skipped' or expected != 'caught':
        continue
      results.append({'id': f'seeded:{sid}', 'kind': 'break', 'status': 'killed' if verdict == 'violation' else 'survived', 'detail': detail})
      if verdict != 'violation':
        failures.append(f'seeded:{sid}(break):{verdict}:no longer reported')
    # the machinery fails closed where it must (floor unmet / undecided obligation on the reference tree, public anchor renamed)
    from fjsa.selftest import failclosed
    try:
      problems, _ = failclosed.run(prop, repo_root)
    except Exception as e:  # pylint: disable=broad-except
      problems = [f'{type(e).__name__}: {e}']
    whole.append({'id': 'fail-closed', 'kind': 'neutral', 'status': 'silent' if not problems else 'error', 'detail': '; '.join(problems)})
    for pr in problems:
      failures.append(f'fail-closed:{pr[:200]}')
    results = results + whole
  return {
      'mutants': len([r for r in results if r['kind'] == 'break']),
      'killed': len([r for r in results if r['kind'] == 'break' and r['status'] in GOOD['break']]),
      'twins': len([r for r in results if r['kind'] == 'neutral']),
      'silent': len([r for r in results if r['kind'] == 'neutral' and r['status'] == 'silent']),
      'skipped': [r['id'] for r in results if r['status'] == 'skipped'],
      'failures': failures,
      'results': [{k: r[k] for k in ('id', 'kind', 'status', 'detail')} for r in results],
      'wall_s': round(time.time() - t0, 2),
  }


def main():
  import argparse, json
  ap = argparse.ArgumentParser()
  ap.add_argument('props', nargs='*')
  ap.add_argument('--repo', default='/repo')
  ap.add_argument('--only', nargs='*')
  ap.add_argument('--jobs', type=int, default=16)
  a = ap.parse_args()
  from fjsa.selftest import corpus
  props = a.props or sorted({p for e in corpus.entries() for p in e['props']})
  bad = 0
  for p in props:
    r = run_selftest(p, a.repo, a.jobs, a.only)
    print(f'{p}: mutants {r["killed"]}/{r["mutants"]} killed, twins {r["silent"]}/{r["twins"]} silent, '
          f'skipped {len(r["skipped"])}, {r["wall_s"]}s')
    for x in r['results']:
      flag = ' ' if x['status'] in ('killed', 'silent', 'killed-elsewhere') else '!'
      print(f'  {flag} {x["id"]:44s} {x["kind"]:7s} {x["status"]:18s} {x["detail"][:150]}')
    bad += len(r['failures'])
  raise SystemExit(1 if bad else 0)


if __name__ == '__main__':
  main()
