"""Behaviour-preserving refactors written by independent agents (/verif/refactors/<Cnn-nK>/patch.diff): a restructuring of the
code a property is about that leaves its behaviour unchanged. No check may report a VIOLATION on any of them; a withheld
verdict (INCONCLUSIVE: the code no longer has the shape the rule describes) is allowed and counted separately.

usage: python -m fjsa.selftest.refactors [Cnn ...]     (all 20 checks against every stored refactor)
"""
from __future__ import annotations

import concurrent.futures
import os
import shutil
import subprocess
import sys
import tempfile

VERIF = os.path.dirname(os.path.dirname(os.path.dirname(os.path.abspath(__file__))))
STORE = os.path.join(VERIF, 'refactors')


def patches():
  if not os.path.isdir(STORE):
    return []
  return sorted(d for d in os.listdir(STORE) if os.path.exists(os.path.join(STORE, d, 'patch.diff')))


def _one(args):
  rid, props, repo_root = args
  from fjsa.selftest.harness import copy_tree, _scratch_base
  from fjsa.cli import run_property
  from fjsa import report
  scratch = tempfile.mkdtemp(prefix='fjsa-refactor-', dir=_scratch_base())
  out = []
  try:
    copy_tree(repo_root, scratch)
    r = subprocess.run(['git', 'apply', '--unsafe-paths', '--directory=' + scratch, os.path.join(STORE, rid, 'patch.diff')],
                       capture_output=True, text=True, cwd='/')
    if r.returncode != 0:
      return [(rid, p, 'skipped', 'patch does not apply to this tree') for p in props]
    known = report.load_known_findings()
    for p in props:
      try:
        check, _ = run_property(p, 'quick', scratch)
        verdict = report.classify(check)
        inc = [o.brief() for o in check.obs if o.status == 'inconclusive']
        if verdict == 'violation':
          viol = [o for o in check.obs if o.status == 'violation' and not o.advisory and not any(report.finding_matches(e, p, o) for e in known)]
          out.append((rid, p, 'false-alarm', viol[0].brief()[:200]))
        elif verdict == 'failed':
          out.append((rid, p, 'exit2', (check.errors + inc)[0][:200]))
        elif verdict == 'not-decided':
          out.append((rid, p, 'withheld', (inc + check.errors)[0][:200]))
        else:
          out.append((rid, p, 'silent', ''))
      except Exception as e:  # pylint: disable=broad-except
        out.append((rid, p, 'exit2', f'{type(e).__name__}: {e}'[:200]))
    return out
  finally:
    shutil.rmtree(scratch, ignore_errors=True)


def run(props, repo_root: str, jobs: int = 16):
  tasks = [(rid, list(props), repo_root) for rid in patches()]
  if not tasks:
    return []
  try:
    with concurrent.futures.ProcessPoolExecutor(max_workers=min(jobs, len(tasks))) as ex:
      res = list(ex.map(_one, tasks))
  except Exception:  # pylint: disable=broad-except
    res = [_one(t) for t in tasks]
  return [x for r in res for x in r]


def main():
  props = sys.argv[1:] or [f'C{i:02d}' for i in range(1, 21)]
  res = run(props, os.environ.get('FJSA_BASE_REPO', '/repo'))
  by = {}
  for rid, p, st, detail in res:
    by.setdefault(rid, {}).setdefault(st, []).append(p)
    if st == 'false-alarm':
      print(f'FALSE-ALARM {rid} {p}: {detail}')
  fa = sum(1 for v in by.values() if 'false-alarm' in v)
  e2 = sum(1 for v in by.values() if 'exit2' in v and 'false-alarm' not in v)
  wh = sum(1 for v in by.values() if 'withheld' in v and 'false-alarm' not in v and 'exit2' not in v)
  sk = sum(1 for v in by.values() if 'skipped' in v)
  for rid, p, st, detail in res:
    if st == 'exit2':
      print(f'EXIT2 {rid} {p}: {detail}')
  for rid in sorted(by):
    v = by[rid]
    print(f'{rid}: false-alarm={v.get("false-alarm", [])} exit2={v.get("exit2", [])} not-decided={v.get("withheld", [])}' + (' SKIPPED' if 'skipped' in v else ''))
  print(f'refactors {len(by)}: with a false alarm {fa}, analysis failed (exit 2) {e2}, NOT-DECIDED lines only (exit 0) {wh}, skipped {sk}, '
        f'silent {len(by) - fa - e2 - wh - sk}')
  sys.exit(1 if fa else 0)


if __name__ == '__main__':
  main()
