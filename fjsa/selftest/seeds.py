"""The seeded changes written by independent agents (/verif/seeded/<id>/patch.diff, each confirmed to break its property while the
pinned suite passes) as a regression suite: every change whose meta.json says `own_property_verdict: caught` must still make the
check of its property report a VIOLATION. Changes recorded as not decided / missed are reported for information only.

usage: python -m fjsa.selftest.seeds [Cnn ...]
"""
from __future__ import annotations

import concurrent.futures
import json
import os
import shutil
import subprocess
import sys
import tempfile

VERIF = os.path.dirname(os.path.dirname(os.path.dirname(os.path.abspath(__file__))))
STORE = os.path.join(VERIF, 'seeded')


def seeds_for(prop: str):
  out = []
  if not os.path.isdir(STORE):
    return out
  for d in sorted(os.listdir(STORE)):
    mj = os.path.join(STORE, d, 'meta.json')
    if os.path.exists(mj) and os.path.exists(os.path.join(STORE, d, 'patch.diff')):
      try:
        m = json.load(open(mj))
      except Exception:  # pylint: disable=broad-except
        continue
      if m.get('property') == prop:
        out.append((d, m.get('own_property_verdict')))
  return out


def _one(args):
  sid, prop, expected, repo_root = args
  from fjsa.selftest.harness import copy_tree, _scratch_base
  from fjsa.cli import run_property
  from fjsa import report
  scratch = tempfile.mkdtemp(prefix='fjsa-seed-', dir=_scratch_base())
  try:
    copy_tree(repo_root, scratch)
    r = subprocess.run(['git', 'apply', '--unsafe-paths', '--directory=' + scratch, os.path.join(STORE, sid, 'patch.diff')],
                       capture_output=True, text=True, cwd='/')
    if r.returncode != 0:
      return sid, expected, 'skipped', 'patch does not apply to this tree'
    check, _ = run_property(prop, 'quick', scratch)
    v = report.classify(check)
    known = report.load_known_findings()
    viol = [o for o in check.obs if o.status == 'violation' and not o.advisory and not any(report.finding_matches(e, prop, o) for e in known)]
    return sid, expected, v, (viol[0].brief()[:160] if viol else '')
  except Exception as e:  # pylint: disable=broad-except
    return sid, expected, 'failed', f'{type(e).__name__}: {e}'[:160]
  finally:
    shutil.rmtree(scratch, ignore_errors=True)


def run(prop: str, repo_root: str, jobs: int = 16):
  tasks = [(sid, prop, exp, repo_root) for sid, exp in seeds_for(prop)]
  if not tasks:
    return []
  try:
    with concurrent.futures.ProcessPoolExecutor(max_workers=min(jobs, len(tasks))) as ex:
      return list(ex.map(_one, tasks))
  except Exception:  # pylint: disable=broad-except
    return [_one(t) for t in tasks]


def main():
  props = sys.argv[1:] or [f'C{i:02d}' for i in range(1, 21)]
  bad = 0
  for p in props:
    res = run(p, os.environ.get('FJSA_BASE_REPO', '/repo'))
    lost = [(s, v) for s, exp, v, _ in res if exp == 'caught' and v not in ('violation', 'skipped')]
    n_c = sum(1 for _, exp, v, _ in res if v == 'violation')
    print(f'{p}: {n_c}/{len(res)} reported' + (f'  LOST: {lost}' if lost else ''))
    bad += len(lost)
  sys.exit(1 if bad else 0)


if __name__ == '__main__':
  main()
