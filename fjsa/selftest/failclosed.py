"""The machinery fails closed where it must. On the reference tree (every function as in fjsa/known_shapes.json) an unmet instance
floor or an undecided obligation is a defect of the check (exit 2); a public anchor that is gone fails the run on any tree; only on a
tree that differs from the reference may unrecognised code be reported as NOT-DECIDED with exit 0.

usage: python -m fjsa.selftest.failclosed [Cnn]   -> exit 0 when all three hold
"""
from __future__ import annotations

import os
import re
import shutil
import sys
import tempfile


def run(prop: str, repo_root: str):
  from fjsa.cli import run_property
  from fjsa import report
  from fjsa.selftest.harness import copy_tree, _scratch_base
  problems = []
  c, _ = run_property(prop, 'quick', repo_root)
  if not c.tree_changed():
    base = report.classify(c)
    c.floor('R-SELFTEST', 'instances', 0, 1)
    if report.classify(c) != 'failed' and base == 'silent':
      problems.append('an unmet instance floor on the reference tree does not fail the run')
    c, _ = run_property(prop, 'quick', repo_root)
    fi = next((f for m in c.repo.modules.values() if m.relpath.startswith('fedjax/') for f in m.functions()), None)
    c.ob('R-SELFTEST', fi, 'construct', None, 'not recognised')
    if report.classify(c) != 'failed':
      problems.append('an undecided obligation in an unchanged function does not fail the run')
  # a public anchor that is gone
  scratch = tempfile.mkdtemp(prefix='fjsa-failclosed-', dir=_scratch_base())
  try:
    copy_tree(repo_root, scratch)
    # a function the property's module looks up by name: repo.func(<module constant>, '<public name>')
    import importlib, inspect
    mod = importlib.import_module(f'fjsa.props.{prop.lower()}')
    msrc = inspect.getsource(mod)
    target = None
    for const, name in re.findall(r"repo\.func\((\w+), '([a-z]\w*)'\)", msrc):
      modname = getattr(mod, const, None)
      if not isinstance(modname, str) or modname not in c.repo.modules:
        continue
      rel = c.repo.modules[modname].relpath
      path = os.path.join(scratch, rel)
      src = open(path).read()
      if re.search(rf'^def {name}\(', src, re.M):
        open(path, 'w').write(re.sub(rf'^def {name}\(', f'def {name}_renamed(', src, count=1, flags=re.M))
        target = f'{rel}:{name}'
        break
    if target is not None:
      c2, _ = run_property(prop, 'quick', scratch)
      v = report.classify(c2)
      if v not in ('failed', 'violation'):
        problems.append(f'renaming the public function {target} gives `{v}`, expected a failed run or a violation')
  finally:
    shutil.rmtree(scratch, ignore_errors=True)
  return problems, target


def main():
  props = sys.argv[1:] or [f'C{i:02d}' for i in range(1, 21)]
  bad = 0
  for p in props:
    pr, target = run(p, os.environ.get('FJSA_BASE_REPO', '/repo'))
    print(p, 'ok' if not pr else pr, f'(floor, undecided-in-unchanged-function, public anchor renamed: {target})')
    bad += bool(pr)
  sys.exit(1 if bad else 0)


if __name__ == '__main__':
  main()
