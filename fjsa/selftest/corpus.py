"""Self-validation corpus: breaking mutants and neutral twins per rule.

Entry: id, props (which property checks must kill it / stay silent), kind
('break'|'neutral'), file, func (qualname or None), old / new (source of one
statement or expression; matched by normalised ast.unparse), mode
('stmt'|'expr'), expect (substring of the rule that must fire).
"""
from __future__ import annotations

from typing import Any, Dict, List

_E: List[Dict[str, Any]] = []


def m(id, props, kind, file, func, old, new, mode='stmt', expect=None, **kw):
  e = dict(id=id, props=props if isinstance(props, list) else [props], kind=kind, file=file, func=func,
           old=old, new=new, mode=mode, expect=expect)
  e.update(kw)
  _E.append(e)


def multi(id, props, kind, edits, expect=None, **kw):
  e = dict(id=id, props=props if isinstance(props, list) else [props], kind=kind, edits=edits, expect=expect)
  e.update(kw)
  _E.append(e)


def entries() -> List[Dict[str, Any]]:
  return list(_E)


DL = 'fedjax/datasets/downloads.py'
CIFAR = 'fedjax/datasets/cifar100.py'
CKPT = 'fedjax/training/checkpoint.py'
SER = 'fedjax/core/serialization.py'
EXP = 'fedjax/training/federated_experiment.py'
APFL = 'fedjax/algorithms/apfl.py'
AGN = 'fedjax/algorithms/agnostic_fed_avg.py'
FEDAVG = 'fedjax/algorithms/fed_avg.py'
FEDPROX = 'fedjax/algorithms/fed_prox.py'
MIME = 'fedjax/algorithms/mime.py'
MIMELITE = 'fedjax/algorithms/mime_lite.py'
HYP = 'fedjax/algorithms/hyp_cluster.py'
COMP = 'fedjax/aggregators/compression.py'
WH = 'fedjax/aggregators/walsh_hadamard.py'
AGG = 'fedjax/aggregators/aggregator.py'
TU = 'fedjax/core/tree_util.py'
FEC = 'fedjax/core/for_each_client.py'
CD = 'fedjax/core/client_datasets.py'
FD = 'fedjax/core/federated_data.py'
IMFD = 'fedjax/core/in_memory_federated_data.py'
SQL = 'fedjax/core/sqlite_federated_data.py'
MET = 'fedjax/core/metrics.py'
MOD = 'fedjax/core/models.py'
SAMP = 'fedjax/core/client_samplers.py'
OPT = 'fedjax/core/optimizers.py'
DC = 'fedjax/core/dataclasses.py'

# ---------------------------------------------------------------- C19 (R-ATOMIC)
m('c19-lzma-inplace', 'C19', 'break', DL, 'maybe_lzma_decompress',
  "with open(decompressed_path + '.partial', 'wb') as fo:\n  shutil.copyfileobj(fi, fo)",
  "with open(decompressed_path, 'wb') as fo:\n  shutil.copyfileobj(fi, fo)", expect='R-ATOMIC')
m('c19-lzma-no-rename', 'C19', 'break', DL, 'maybe_lzma_decompress',
  "os.rename(decompressed_path + '.partial', decompressed_path)", "pass", expect='R-ATOMIC')
m('c19-download-inplace', 'C19', 'break', DL, 'maybe_download',
  "open(path + '.partial', 'wb')", "open(path, 'wb')", mode='expr', expect='R-ATOMIC')
m('c19-download-append', 'C19', 'break', DL, 'maybe_download',
  "open(path + '.partial', 'wb')", "open(path + '.partial', 'ab')", mode='expr', expect='R-ATOMIC.trunc')
m('c19-download-floor-blocks', 'C19', 'break', DL, 'maybe_download',
  "(length + block_size - 1) // block_size", "length // block_size", mode='expr', expect='R-CEILDIV')
m('c19-cifar-validate-after', 'C19', 'break', CIFAR, 'load_split',
  "os.rename(partial_path, path)", "pass", expect='R-ATOMIC')
multi('c19-cifar-validate-final', 'C19', 'break', [
    dict(file=CIFAR, func='load_split', old="os.rename(partial_path, path)", new="pass"),
    dict(file=CIFAR, func='load_split',
         old="downloads.validate_file(partial_path, _FEDJAX_SQLITE_NUM_BYTES[split], _FEDJAX_SQLITE_HEXDIGEST[split])",
         new="os.rename(partial_path, path)\ndownloads.validate_file(path, _FEDJAX_SQLITE_NUM_BYTES[split], _FEDJAX_SQLITE_HEXDIGEST[split])"),
], expect='R-ATOMIC.validate')
m('c19-cifar-no-stale-removal', 'C19', 'break', CIFAR, 'load_split',
  "if os.path.exists(partial_path):\n  os.remove(partial_path)", "pass", expect='R-ATOMIC.stale')
m('c19-reuse-refetch', 'C19', 'break', DL, 'maybe_download',
  "log(f'Reusing cached file {path!r}')", "requests.get(url)", expect='R-ATOMIC')
m('c19-validate-size-only', 'C19', 'break', DL, 'validate_file',
  "if hexdigest != expected_hexdigest:\n  raise ValueError(f'Expected file content hash to be {expected_hexdigest!r} but found {hexdigest!r}.')",
  "pass", expect='R-VALIDATE')
m('c19-twin-replace', 'C19', 'neutral', DL, 'maybe_download',
  "os.rename(path + '.partial', path)", "os.replace(path + '.partial', path)")
m('c19-twin-suffix', 'C19', 'neutral', DL, 'maybe_lzma_decompress',
  "with open(decompressed_path + '.partial', 'wb') as fo:\n  shutil.copyfileobj(fi, fo)",
  "with open(decompressed_path + '.tmp', 'wb') as fo:\n  shutil.copyfileobj(fi, fo)",
  edits=None) if False else None
multi('c19-twin-suffix', 'C19', 'neutral', [
    dict(file=DL, func='maybe_lzma_decompress', mode='expr', old="open(decompressed_path + '.partial', 'wb')",
         new="open(decompressed_path + '.tmp', 'wb')"),
    dict(file=DL, func='maybe_lzma_decompress', old="os.rename(decompressed_path + '.partial', decompressed_path)",
         new="os.rename(decompressed_path + '.tmp', decompressed_path)"),
])
multi('c19-twin-tmpvar', 'C19', 'neutral', [
    dict(file=DL, func='maybe_download', mode='expr', old="open(path + '.partial', 'wb')", new="open(tmp, 'wb')"),
    dict(file=DL, func='maybe_download', old="os.rename(path + '.partial', path)", new="os.rename(tmp, path)"),
    dict(file=DL, func='maybe_download', old="log(f'Downloading {url!r} to {path!r}')",
         new="log(f'Downloading {url!r} to {path!r}')\ntmp = path + '.partial'"),
])
m('c19-twin-ceil', 'C19', 'neutral', DL, 'maybe_download',
  "(length + block_size - 1) // block_size", "-(-length // block_size)", mode='expr')

# ---------------------------------------------------------------- C09
m('c09-save-inplace', 'C09', 'break', SER, 'save_state',
  "tmp_path = path + '.tmp'", "tmp_path = path", expect='R-ATOMIC')
m('c09-save-no-rename', 'C09', 'break', SER, 'save_state',
  "tf.io.gfile.rename(tmp_path, path, overwrite=True)", "pass", expect='R-ATOMIC')
m('c09-pattern-unanchored', 'C09', 'break', CKPT, '_get_checkpoint_paths',
  "pattern = base_path + '[0-9]{8}$'", "pattern = base_path + '[0-9]{8}'", expect='R-CONST')
m('c09-name-width', 'C09', 'break', CKPT, 'save_checkpoint',
  "checkpoint_path = f'{base_path}{round_num:08d}'", "checkpoint_path = f'{base_path}{round_num:06d}'",
  expect='R-CONST')
multi('c09-delete-before-save', 'C09', 'break', [
    dict(file=CKPT, func='save_checkpoint', old="serialization.save_state(state, checkpoint_path)", new="pass"),
    dict(file=CKPT, func='save_checkpoint', old="for path in remove_checkpoint_paths:\n  tf.io.gfile.remove(path)",
         new="for path in remove_checkpoint_paths:\n  tf.io.gfile.remove(path)\nserialization.save_state(state, checkpoint_path)"),
], expect='R-ORDER')
m('c09-retain-oldest', 'C09', 'break', CKPT, 'save_checkpoint',
  "_get_checkpoint_paths(base_path)[:-keep]", "_get_checkpoint_paths(base_path)[keep:]", mode='expr',
  expect='R-RETAIN')
m('c09-load-oldest', 'C09', 'break', CKPT, 'load_latest_checkpoint',
  "latest_checkpoint_path = all_checkpoint_paths[-1]", "latest_checkpoint_path = all_checkpoint_paths[0]",
  expect='R-PAIR')
m('c09-sort-reversed', 'C09', 'break', CKPT, '_get_checkpoint_paths',
  "sorted(checkpoint_paths, key=sort_key)", "sorted(checkpoint_paths, key=sort_key, reverse=True)", mode='expr',
  expect='R-PAIR')
m('c09-round-unbound', 'C09', 'break', EXP, 'run_federated_experiment',
  "round_num = start_round_num - 1", "pass", expect='R-DEFASSIGN')
m('c09-round-wrong-init', 'C09', 'break', EXP, 'run_federated_experiment',
  "round_num = start_round_num - 1", "round_num = 0", expect='R-ORDER.final-round')
m('c09-no-reseat', 'C09', 'break', EXP, 'run_federated_experiment',
  "client_sampler.set_round_num(start_round_num)", "pass", expect='R-ORDER')
m('c09-reseat-last', 'C09', 'break', EXP, 'run_federated_experiment',
  "client_sampler.set_round_num(start_round_num)", "client_sampler.set_round_num(start_round_num - 1)",
  expect='R-ORDER')
m('c09-resume-off-by-one', 'C09', 'break', EXP, 'run_federated_experiment',
  "start_round_num = last_round_num + 1", "start_round_num = last_round_num", expect='R-ORDER')
m('c09-resume-ignores-state', 'C09', 'break', EXP, 'run_federated_experiment',
  "state, last_round_num = latest", "_, last_round_num = latest\nstate = init_state", expect='R-ORDER')
multi('c09-checkpoint-before-apply', 'C09', 'break', [
    dict(file=EXP, func='run_federated_experiment', old="state, _ = algorithm.apply(state, clients)", new="pass"),
    dict(file=EXP, func='run_federated_experiment',
         old="if should_save_checkpoint:\n  checkpoint.save_checkpoint(config.root_dir, state, round_num, config.num_checkpoints_to_keep)",
         new="if should_save_checkpoint:\n  checkpoint.save_checkpoint(config.root_dir, state, round_num, config.num_checkpoints_to_keep)\nstate, _ = algorithm.apply(state, clients)"),
], expect='R-ORDER')
m('c09-twin-replace', 'C09', 'neutral', SER, 'save_state',
  "tmp_path = path + '.tmp'", "tmp_path = path + '.partial'")
m('c09-twin-fullmatch', 'C09', 'neutral', CKPT, '_get_checkpoint_paths',
  "re.match(pattern, path)", "re.fullmatch(pattern, path)", mode='expr')
m('c09-twin-len-slice', 'C09', 'neutral', CKPT, 'save_checkpoint',
  "remove_checkpoint_paths = _get_checkpoint_paths(base_path)[:-keep]",
  "all_paths = _get_checkpoint_paths(base_path)\nremove_checkpoint_paths = all_paths[:len(all_paths) - keep]")
m('c09-twin-rename-var', 'C09', 'neutral', EXP, 'run_federated_experiment',
  "latest = checkpoint.load_latest_checkpoint(config.root_dir)",
  "latest = checkpoint.load_latest_checkpoint(config.root_dir)\nlogging.info('resume')")

# ---------------------------------------------------------------- C10 (R-PURE etc.)
m('c10-apfl-inplace', ['C10'], 'break', APFL, 'adaptive_personalized_federated_learning.apply',
  "client_states = dict(server_state.client_states)", "client_states = server_state.client_states",
  expect='R-PURE')
m('c10-agnostic-window-append', 'C10', 'break', AGN, 'agnostic_federated_averaging.server_update',
  "domain_window = server_state.domain_window[1:] + [sum_domain_num]",
  "domain_window = server_state.domain_window\ndomain_window.pop(0)\ndomain_window.append(sum_domain_num)",
  expect='R-PURE')
m('c10-hyp-inplace-list', 'C10', 'break', HYP, 'hyp_cluster.apply',
  "cluster_params = []", "cluster_params = server_state.cluster_params\ncluster_params.clear()", expect='R-PURE')
m('c10-builder-cache', 'C10', 'break', FEDAVG, 'federated_averaging',
  "train_for_each_client = create_train_for_each_client(grad_fn, client_optimizer)",
  "train_for_each_client = create_train_for_each_client(grad_fn, client_optimizer)\nseen_clients = {}")
_E.pop()
multi('c10-builder-cache', 'C10', 'break', [
    dict(file=FEDAVG, func='federated_averaging',
         old="train_for_each_client = create_train_for_each_client(grad_fn, client_optimizer)",
         new="train_for_each_client = create_train_for_each_client(grad_fn, client_optimizer)\nseen_clients = {}"),
    dict(file=FEDAVG, func='federated_averaging.apply', old="client_diagnostics = {}",
         new="client_diagnostics = {}\nseen_clients[len(seen_clients)] = len(clients)"),
], expect='R-PURE')
m('c10-global-counter', 'C10', 'break', FEDPROX, 'fed_prox.apply', "client_diagnostics = {}",
  "global _ROUND\n_ROUND = 1\nclient_diagnostics = {}", expect='R-PURE')
m('c10-clients-sort', 'C10', 'break', MIME, 'mime.apply', "client_diagnostics = {}",
  "client_diagnostics = {}\nclients.sort(key=lambda c: c[0])", expect='R-PURE')
m('c10-helper-mutates', 'C10', 'break', HYP, 'expectation_step',
  "cluster_num_examples_sum = [0 for _ in cluster_params]",
  "cluster_num_examples_sum = [0 for _ in cluster_params]\nclient_cluster_ids.clear()", expect='R-PURE')
m('c10-np-random', 'C10', 'break', MIMELITE, 'mime_lite.apply', "client_diagnostics = {}",
  "client_diagnostics = {}\n_ = np.random.rand()", expect='R-NONDET') if False else None
m('c10-time-seed', 'C10', 'break', COMP, 'terngrad_quantizer.apply',
  "rng, use_rng = jax.random.split(aggregator_state.rng)",
  "import time\nrng, use_rng = jax.random.split(jax.random.fold_in(aggregator_state.rng, int(time.time())))",
  expect='R-NONDET')
m('c10-state-not-frozen', 'C10', 'break', DC, 'dataclass',
  "data_clz = dataclasses.dataclass(frozen=True)(clz)", "data_clz = dataclasses.dataclass(clz)", expect='R-FROZEN')
m('c10-comp-old-key', ['C10', 'C11'], 'break', COMP, 'terngrad_quantizer.apply',
  "new_state = CompressionState(aggregator_state.num_bits + new_bits, rng)",
  "new_state = CompressionState(aggregator_state.num_bits + new_bits, aggregator_state.rng)", expect='R-KEY')
m('c10-comp-use-key-stored', ['C10', 'C11'], 'break', COMP, 'uniform_stochastic_quantizer.apply',
  "new_state = CompressionState(aggregator_state.num_bits + new_bits, rng)",
  "new_state = CompressionState(aggregator_state.num_bits + new_bits, use_rng)", expect='R-KEY')
m('c10-private-donor-used', 'C10', 'break', FEDAVG, 'federated_averaging.apply',
  "delta_params_sum = tree_util.tree_add(delta_params_sum, tree_util.tree_weight(delta_params, num_examples))",
  "delta_params_sum = tree_util._tree_add_eq(delta_params_sum, tree_util.tree_weight(delta_params, num_examples))",
  expect='R-DONATE')
m('c10-twin-local-mutation', 'C10', 'neutral', FEDAVG, 'federated_averaging.apply', "client_diagnostics = {}",
  "client_diagnostics = {}\nscratch = []\nscratch.append(1)\nscratch.sort()")
m('c10-twin-copy-then-write', 'C10', 'neutral', HYP, 'hyp_cluster.apply', "cluster_params = []",
  "cluster_params = []\nold = list(server_state.cluster_params)\nold.append(None)")
m('c10-twin-dict-copy', 'C10', 'neutral', APFL, 'adaptive_personalized_federated_learning.apply',
  "client_states = dict(server_state.client_states)", "client_states = {**server_state.client_states}")
m('c10-twin-seeded-rs', 'C10', 'neutral', MIME, 'mime.apply', "client_diagnostics = {}",
  "client_diagnostics = {}\norder = sorted(range(len(clients)))")

# ---------------------------------------------------------------- C01
AP = 'federated_averaging.apply'
ACC = "delta_params_sum = tree_util.tree_add(delta_params_sum, tree_util.tree_weight(delta_params, num_examples))"
m('c01-weight-one', ['C01', 'C12'], 'break', FEDAVG, AP, ACC,
  "delta_params_sum = tree_util.tree_add(delta_params_sum, tree_util.tree_weight(delta_params, 1.0))", expect='R-WMEAN')
m('c01-count-clients', ['C01', 'C12'], 'break', FEDAVG, AP, "num_examples_sum += num_examples", "num_examples_sum += 1",
  expect='R-WMEAN')
m('c01-normalise-len', ['C01', 'C12'], 'break', FEDAVG, AP,
  "tree_util.tree_inverse_weight(delta_params_sum, num_examples_sum)",
  "tree_util.tree_inverse_weight(delta_params_sum, len(clients))", mode='expr', expect='R-WMEAN')
m('c01-other-client-weight', ['C01', 'C12'], 'break', FEDAVG, AP, "num_examples = client_num_examples[client_id]",
  "num_examples = client_num_examples[clients[0][0]]", expect='R-WMEAN')
m('c01-const-table', ['C01', 'C12'], 'break', FEDAVG, AP,
  "client_num_examples = {cid: len(cds) for cid, cds, _ in clients}",
  "client_num_examples = {cid: 1 for cid, cds, _ in clients}", expect='R-WMEAN')
m('c01-unweighted-add', ['C01', 'C12'], 'break', FEDAVG, AP, ACC,
  "delta_params_sum = tree_util.tree_add(delta_params_sum, delta_params)", expect='R-WMEAN')
m('c01-nonzero-init', ['C01', 'C12'], 'break', FEDAVG, AP,
  "delta_params_sum = tree_util.tree_zeros_like(server_state.params)", "delta_params_sum = server_state.params",
  expect='R-WMEAN')
m('c01-skip-big-clients', ['C01', 'C12'], 'break', FEDAVG, AP, "num_examples_sum += num_examples",
  "if num_examples < 1000:\n  num_examples_sum += num_examples", expect='R-WMEAN')
m('c01-drop-small-clients', ['C01', 'C12'], 'break', FEDAVG, AP, "num_examples = client_num_examples[client_id]",
  "num_examples = client_num_examples[client_id]\nif num_examples < 2:\n  continue", expect='R-')
m('c01-zero-guard-dropped', ['C01', 'C07'], 'break', TU, 'tree_inverse_weight',
  "inverse_weight = 1.0 / weight if weight > 0.0 else 0.0", "inverse_weight = 1.0 / weight", expect='R-DIV')
m('c01-delta-swapped', ['C01', 'C12'], 'break', FEDAVG, 'create_train_for_each_client.client_final',
  "jax.tree_util.tree_map(lambda a, b: a - b, server_params, client_step_state['params'])",
  "jax.tree_util.tree_map(lambda a, b: a - b, client_step_state['params'], server_params)", mode='expr',
  expect='R-SIB.delta')
m('c01-delta-lambda-swapped', ['C01', 'C12'], 'break', FEDAVG, 'create_train_for_each_client.client_final',
  "lambda a, b: a - b", "lambda a, b: b - a", mode='expr', expect='R-SIB.delta')
m('c01-stale-params', ['C01', 'C12'], 'break', FEDAVG, 'create_train_for_each_client.client_step',
  "next_client_step_state = {'params': params, 'opt_state': opt_state, 'rng': rng}",
  "next_client_step_state = {'params': client_step_state['params'], 'opt_state': opt_state, 'rng': rng}",
  expect='R-SIB.opt-result-params')
m('c01-stale-opt-state', ['C01', 'C12'], 'break', FEDAVG, 'create_train_for_each_client.client_step',
  "next_client_step_state = {'params': params, 'opt_state': opt_state, 'rng': rng}",
  "next_client_step_state = {'params': params, 'opt_state': client_step_state['opt_state'], 'rng': rng}",
  expect='R-SIB.opt-result-state')
m('c01-key-not-advanced', ['C01', 'C12'], 'break', FEDAVG, 'create_train_for_each_client.client_step',
  "next_client_step_state = {'params': params, 'opt_state': opt_state, 'rng': rng}",
  "next_client_step_state = {'params': params, 'opt_state': opt_state, 'rng': client_step_state['rng']}",
  expect='R-')
m('c01-key-reused', ['C01', 'C12'], 'break', FEDAVG, 'create_train_for_each_client.client_step',
  "next_client_step_state = {'params': params, 'opt_state': opt_state, 'rng': rng}",
  "next_client_step_state = {'params': params, 'opt_state': opt_state, 'rng': use_rng}", expect='R-')
m('c01-grad-at-start', ['C01'], 'break', FEDAVG, 'create_train_for_each_client', "def client_init(server_params, client_rng):\n  opt_state = client_optimizer.init(server_params)\n  client_step_state = {'params': server_params, 'opt_state': opt_state, 'rng': client_rng}\n  return client_step_state",
  "def client_init(server_params, client_rng):\n  opt_state = client_optimizer.init(server_params)\n  client_step_state = {'params': server_params, 'opt_state': opt_state, 'rng': client_rng, 'start': server_params}\n  return client_step_state") if False else None
m('c01-server-state-swapped', ['C01', 'C12'], 'break', FEDAVG, 'federated_averaging.server_update',
  "return ServerState(params, opt_state)", "return ServerState(opt_state, params)", expect='R-SIB.state-ctor')
m('c01-server-args-swapped', ['C01', 'C12'], 'break', FEDAVG, 'federated_averaging.server_update',
  "server_optimizer.apply(mean_delta_params, server_state.opt_state, server_state.params)",
  "server_optimizer.apply(mean_delta_params, server_state.params, server_state.opt_state)", mode='expr',
  expect='R-SIB.server-args')
m('c01-diag-skipped', ['C01'], 'break', FEDAVG, AP,
  "client_diagnostics[client_id] = {'delta_l2_norm': tree_util.tree_l2_norm(delta_params)}",
  "if num_examples > 0:\n  client_diagnostics[client_id] = {'delta_l2_norm': tree_util.tree_l2_norm(delta_params)}",
  expect='R-YIELD1')
m('c01-diag-wrong-key', ['C01'], 'break', FEDAVG, AP,
  "client_diagnostics[client_id] = {'delta_l2_norm': tree_util.tree_l2_norm(delta_params)}",
  "client_diagnostics[len(client_diagnostics)] = {'delta_l2_norm': tree_util.tree_l2_norm(delta_params)}",
  expect='R-YIELD1')
m('c01-same-key-all-clients', ['C01'], 'break', FEDAVG, AP,
  "batch_clients = [(cid, cds.shuffle_repeat_batch(client_batch_hparams), crng) for cid, cds, crng in clients]",
  "batch_clients = [(cid, cds.shuffle_repeat_batch(client_batch_hparams), clients[0][2]) for cid, cds, crng in clients]",
  expect='R-')
m('c01-wrong-dataset', ['C01'], 'break', FEDAVG, AP,
  "batch_clients = [(cid, cds.shuffle_repeat_batch(client_batch_hparams), crng) for cid, cds, crng in clients]",
  "batch_clients = [(cid, clients[0][1].shuffle_repeat_batch(client_batch_hparams), crng) for cid, cds, crng in clients]",
  expect='R-SIB.tuples')
m('c01-opt-init-elsewhere', ['C01', 'C12'], 'break', FEDAVG, 'create_train_for_each_client.client_init',
  "opt_state = client_optimizer.init(server_params)",
  "opt_state = client_optimizer.init(jax.tree_util.tree_map(jnp.zeros_like, server_params))") if False else None
m('c01-twin-add-order', ['C01', 'C12'], 'neutral', FEDAVG, AP, ACC,
  "delta_params_sum = tree_util.tree_add(tree_util.tree_weight(delta_params, num_examples), delta_params_sum)")
m('c01-twin-w-plus', ['C01', 'C12'], 'neutral', FEDAVG, AP, "num_examples_sum += num_examples",
  "num_examples_sum = num_examples_sum + num_examples")
m('c01-twin-skip-zero', ['C01', 'C12'], 'neutral', FEDAVG, AP,
  "client_diagnostics[client_id] = {'delta_l2_norm': tree_util.tree_l2_norm(delta_params)}",
  "client_diagnostics[client_id] = {'delta_l2_norm': tree_util.tree_l2_norm(delta_params)}\nif num_examples == 0:\n  continue")
_E.pop()
multi('c01-twin-skip-zero', ['C01', 'C12'], 'neutral', [
    dict(file=FEDAVG, func=AP, old="num_examples = client_num_examples[client_id]",
         new="num_examples = client_num_examples[client_id]\nclient_diagnostics[client_id] = {'delta_l2_norm': tree_util.tree_l2_norm(delta_params)}\nif num_examples == 0:\n  continue"),
    dict(file=FEDAVG, func=AP, occurrence=1,
         old="client_diagnostics[client_id] = {'delta_l2_norm': tree_util.tree_l2_norm(delta_params)}", new="pass"),
])
m('c01-twin-subtract', ['C01', 'C12'], 'neutral', FEDAVG, 'create_train_for_each_client.client_final',
  "lambda a, b: a - b", "jnp.subtract", mode='expr') if False else None
m('c01-twin-rename', ['C01', 'C12'], 'neutral', FEDAVG, 'create_train_for_each_client.client_step',
  "rng, use_rng = jax.random.split(client_step_state['rng'])",
  "rng, use_rng = jax.random.split(client_step_state['rng'], 2)")
m('c01-twin-extra-diag', ['C01'], 'neutral', FEDAVG, AP,
  "client_diagnostics[client_id] = {'delta_l2_norm': tree_util.tree_l2_norm(delta_params)}",
  "client_diagnostics[client_id] = {'delta_l2_norm': tree_util.tree_l2_norm(delta_params), 'n': num_examples}")

# ---------------------------------------------------------------- C12
for _name, _file, _fn, _a, _b in [
    ('fedprox', FEDPROX, 'create_train_for_each_client.client_final', "server_params", "client_step_state['params']"),
    ('mime', MIME, 'create_train_for_each_client.client_final', "shared_input['params']", "client_step_state['params']"),
    ('mimelite', MIMELITE, 'create_train_for_each_client.client_final', "shared_input['params']", "step_state['params']"),
    ('agnostic', AGN, 'create_train_for_each_client.client_final', "shared_input['params']", "step_state['params']"),
]:
  m(f'c12-delta-swapped-{_name}', 'C12', 'break', _file, _fn,
    f"jax.tree_util.tree_map(lambda a, b: a - b, {_a}, {_b})", f"jax.tree_util.tree_map(lambda a, b: a - b, {_b}, {_a})",
    mode='expr', expect='R-SIB.delta')
m('c12-delta-swapped-hyp', 'C12', 'break', HYP, '_BaseClientTrainer.__init__.client_final',
  "jax.tree_util.tree_map(jnp.subtract, init_params, params)", "jax.tree_util.tree_map(jnp.subtract, params, init_params)",
  mode='expr', expect='R-SIB.delta')
m('c12-delta-swapped-apfl', 'C12', 'break', APFL, 'create_train_for_each_client.client_final',
  "jax.tree_util.tree_map(jnp.subtract, server_params, client_step_state['server_params'])",
  "jax.tree_util.tree_map(jnp.subtract, client_step_state['server_params'], server_params)", mode='expr',
  expect='R-SIB.delta')
m('c12-prox-additive-mu', 'C12', 'break', FEDPROX, 'fed_prox.fed_prox_loss',
  "proximal_loss = 0.5 * proximal_weight * tree_util.tree_l2_squared(jax.tree_util.tree_map(lambda a, b: a - b, server_params, params))",
  "proximal_loss = 0.5 * (proximal_weight + tree_util.tree_l2_squared(jax.tree_util.tree_map(lambda a, b: a - b, server_params, params)))",
  expect='R-PROX.term')
m('c12-prox-no-mu', 'C12', 'break', FEDPROX, 'fed_prox.fed_prox_loss',
  "proximal_loss = 0.5 * proximal_weight * tree_util.tree_l2_squared(jax.tree_util.tree_map(lambda a, b: a - b, server_params, params))",
  "proximal_loss = 0.5 * tree_util.tree_l2_squared(jax.tree_util.tree_map(lambda a, b: a - b, server_params, params))",
  expect='R-PROX.term')
m('c12-prox-grad-wrt-anchor', 'C12', 'break', FEDPROX, 'fed_prox', "grad_fn = jax.grad(fed_prox_loss)",
  "grad_fn = jax.grad(fed_prox_loss, argnums=1)", expect='R-PROX.grad')
m('c12-prox-anchor-drifts', 'C12', 'break', FEDPROX, 'create_train_for_each_client.client_step',
  "next_client_step_state = {'params': params, 'opt_state': opt_state, 'rng': rng, 'server_params': client_step_state['server_params']}",
  "next_client_step_state = {'params': params, 'opt_state': opt_state, 'rng': rng, 'server_params': client_step_state['params']}",
  expect='R-SIB.passthrough')
m('c12-prox-anchor-args-swapped', 'C12', 'break', FEDPROX, 'create_train_for_each_client.client_step',
  "grad_fn(client_step_state['params'], client_step_state['server_params'], batch, use_rng)",
  "grad_fn(client_step_state['server_params'], client_step_state['params'], batch, use_rng)", mode='expr', expect='R-')
m('c12-prox-penalty-outside-mean', 'C12', 'break', FEDPROX, 'fed_prox.fed_prox_loss',
  "return jnp.mean(example_loss + proximal_loss)", "return jnp.sum(example_loss) + proximal_loss", expect='R-PROX.sum')
m('c12-mime-server-sign', 'C12', 'break', MIME, 'mime.server_update',
  "lambda p, q: p - server_learning_rate * q", "lambda p, q: p + server_learning_rate * q", mode='expr',
  expect='R-SIB.server-step')
m('c12-mime-optstate-at-new-params', 'C12', 'break', MIME, 'mime.server_update',
  "base_optimizer.apply(server_grads, server_state.opt_state, server_state.params)",
  "base_optimizer.apply(mean_delta_params, server_state.opt_state, server_state.params)", mode='expr', expect='R-')
m('c12-mime-keeps-opt-params', 'C12', 'break', MIMELITE, 'mime_lite.server_update',
  "return mime.ServerState(params, opt_state)", "return mime.ServerState(_, opt_state)") if False else None
m('c12-mime-grad-at-other-point', 'C12', 'break', MIME, 'mime.apply',
  "grads_for_each_client(server_state.params, grads_batch_clients)",
  "grads_for_each_client(tree_util.tree_zeros_like(server_state.params), grads_batch_clients)", mode='expr', expect='R-MIME.grad-point')
m('c12-mime-count-len', 'C12', 'break', MIME, 'create_grads_for_each_client.client_step',
  "num = jnp.sum(batch[client_datasets.EXAMPLE_MASK_KEY])", "num = len(batch[client_datasets.EXAMPLE_MASK_KEY])",
  expect='R-MASK.count')
m('c12-mime-unpaired-count', 'C12', 'break', MIME, 'create_grads_for_each_client.client_step',
  "next_client_step_state = {'params': client_step_state['params'], 'rng': rng, 'num_sum': client_step_state['num_sum'] + num, 'grads_sum': grads_sum}",
  "next_client_step_state = {'params': client_step_state['params'], 'rng': rng, 'num_sum': client_step_state['num_sum'] + 1.0, 'grads_sum': grads_sum}",
  expect='R-WMEAN.pair-step')
m('c12-mime-local-optstate-updated-twin', 'C12', 'break', MIME, 'create_train_for_each_client.client_step',
  "grads = grad_fn(client_step_state['params'], batch, use_rng)", "grads = grad_fn(client_step_state['init_params'], batch, use_rng)",
  expect='R-SIB.grad-point')
m('c12-hyp-index-mismatch', 'C12', 'break', HYP, 'expectation_step',
  "cluster_num_examples_sum[cluster_id] += num_examples[client_id]", "cluster_num_examples_sum[0] += num_examples[client_id]",
  expect='R-WMEAN')
m('c12-hyp-start-wrong-cluster', 'C12', 'break', HYP, 'expectation_step',
  "cluster_params[client_cluster_ids[client_id]]", "cluster_params[0]", mode='expr', expect='R-HYP.start')
m('c12-hyp-empty-cluster-reset', 'C12', 'break', HYP, 'hyp_cluster.apply',
  "next_opt_state, next_params = (opt_state, params)", "next_opt_state, next_params = (server_optimizer.init(params), params)",
  expect='R-HYP.empty')
m('c12-hyp-zip-misaligned', 'C12', 'break', HYP, 'hyp_cluster.apply',
  "zip(cluster_delta_params, server_state.opt_states, server_state.cluster_params)",
  "zip(cluster_delta_params, server_state.cluster_params, server_state.opt_states)", mode='expr', expect='R-HYP.roles')
m('c12-hyp-argmax', 'C12', 'break', HYP, '_cluster_assignment', "jnp.argmin(jnp.stack(losses))", "jnp.argmax(jnp.stack(losses))",
  mode='expr', expect='R-HYP.argmin')
m('c12-apfl-global-uses-personal-grads', 'C12', 'break', APFL, 'create_train_for_each_client.client_step',
  "client_optimizer.apply(server_grads, client_step_state['server_opt_state'], client_step_state['server_params'])",
  "client_optimizer.apply(client_grads, client_step_state['server_opt_state'], client_step_state['server_params'])",
  mode='expr', expect='R-SIB')
m('c12-apfl-delta-from-personal', 'C12', 'break', APFL, 'create_train_for_each_client.client_final',
  "jax.tree_util.tree_map(jnp.subtract, server_params, client_step_state['server_params'])",
  "jax.tree_util.tree_map(jnp.subtract, server_params, client_step_state['state'].params)", mode='expr', expect='R-SIB')
m('c12-agnostic-weight-other', 'C12', 'break', AGN, 'agnostic_federated_averaging.apply',
  "weight = client_domain_metrics[cid]['beta']", "weight = client_domain_metrics[cid]['domain_num'].sum()", expect='R-WMEAN')
m('c12-twin-sub-fn', 'C12', 'neutral', FEDPROX, 'create_train_for_each_client.client_final', "lambda a, b: a - b",
  "jnp.subtract", mode='expr')
m('c12-twin-prox-order', 'C12', 'neutral', FEDPROX, 'fed_prox.fed_prox_loss',
  "proximal_loss = 0.5 * proximal_weight * tree_util.tree_l2_squared(jax.tree_util.tree_map(lambda a, b: a - b, server_params, params))",
  "proximal_loss = proximal_weight * 0.5 * tree_util.tree_l2_squared(jax.tree_util.tree_map(lambda a, b: a - b, params, server_params))")
m('c12-twin-hyp-is-not-none', 'C12', 'neutral', HYP, 'hyp_cluster.apply',
  "if delta_params is None:\n  next_opt_state, next_params = (opt_state, params)\nelse:\n  next_opt_state, next_params = server_optimizer.apply(delta_params, opt_state, params)",
  "if delta_params is not None:\n  next_opt_state, next_params = server_optimizer.apply(delta_params, opt_state, params)\nelse:\n  next_opt_state, next_params = (opt_state, params)")

# ---------------------------------------------------------------- C07
m('c07-sum-no-copy', 'C07', 'break', TU, 'tree_sum', "pytree_sum = jax.tree_util.tree_map(jnp.array, pytree)",
  "pytree_sum = pytree", expect='R-DONATE')
m('c07-sum-asarray', 'C07', 'break', TU, 'tree_sum', "pytree_sum = jax.tree_util.tree_map(jnp.array, pytree)",
  "pytree_sum = jax.tree_util.tree_map(jnp.asarray, pytree)", expect='R-DONATE')
m('c07-sum-identity-lambda', 'C07', 'break', TU, 'tree_sum', "pytree_sum = jax.tree_util.tree_map(jnp.array, pytree)",
  "pytree_sum = jax.tree_util.tree_map(lambda x: x, pytree)", expect='R-DONATE')
m('c07-add-operands-swapped', 'C07', 'break', TU, 'tree_sum', "pytree_sum = _tree_add_eq(pytree_sum, pytree)",
  "pytree_sum = _tree_add_eq(pytree, pytree_sum)", expect='R-')
m('c07-public-donates', 'C07', 'break', TU, None, "@jax.jit\ndef tree_weight(pytree: PyTree, weight: float) -> PyTree:\n  \"\"\"Weights tree leaves by weight.\"\"\"\n  return jax.tree.map(lambda l: l * weight, pytree)",
  "@functools.partial(jax.jit, donate_argnums=0)\ndef tree_weight(pytree: PyTree, weight: float) -> PyTree:\n  return jax.tree.map(lambda l: l * weight, pytree)\nimport functools") if False else None
m('c07-inverse-public-donates', 'C07', 'break', TU, 'tree_inverse_weight', "return tree_weight(pytree, inverse_weight)",
  "return _tree_weight_eq(pytree, inverse_weight)", expect='R-DONATE')
m('c07-mean-unweighted-first', 'C07', 'break', TU, 'tree_mean', "sum_weighted_pytree = weighted_pytree",
  "sum_weighted_pytree = pytree", expect='R-')
m('c07-mean-read-after-donate', 'C07', 'break', TU, 'tree_mean',
  "return _tree_inverse_weight_eq(sum_weighted_pytree, sum_weight)",
  "mean = _tree_inverse_weight_eq(sum_weighted_pytree, sum_weight)\nreturn tree_add(mean, tree_zeros_like(sum_weighted_pytree))",
  expect='R-DONATE.dead')
m('c07-mean-weight-skipped', 'C07', 'break', TU, 'tree_mean', "sum_weight += weight",
  "if sum_weighted_pytree is not None:\n  sum_weight += weight", expect='R-WMEAN')
m('c07-mean-weight-abs', 'C07', 'break', TU, 'tree_mean', "sum_weight += weight", "sum_weight += 1.0", expect='R-WMEAN')
m('c07-mean-unguarded', 'C07', 'break', TU, '_tree_inverse_weight_eq',
  "inverse_weight = 1.0 / weight if weight > 0.0 else 0.0", "inverse_weight = 1.0 / weight", expect='R-DIV')
m('c07-mean-guard-nan', 'C07', 'break', TU, '_tree_inverse_weight_eq',
  "inverse_weight = 1.0 / weight if weight > 0.0 else 0.0", "inverse_weight = 1.0 / weight if weight > 0.0 else float('nan')",
  expect='R-DIV.inverse')
m('c07-clip-per-leaf', 'C07', 'break', TU, 'tree_clip_by_global_norm',
  "return jax.tree_util.tree_map(lambda t: scale * t, pytree)",
  "return jax.tree_util.tree_map(lambda t: jnp.minimum(1, max_norm / jnp.linalg.norm(t)) * t, pytree)", expect='R-CLIP')
m('c07-clip-no-min', 'C07', 'break', TU, 'tree_clip_by_global_norm', "scale = jnp.minimum(1, max_norm / global_norm)",
  "scale = max_norm / global_norm", expect='R-')
m('c07-norm-no-sqrt', 'C07', 'break', TU, 'tree_l2_norm', "return jnp.sqrt(tree_l2_squared(pytree))",
  "return tree_l2_squared(pytree)", expect='R-CLIP.norm')
m('c07-agg-swapped', 'C07', 'break', AGG, 'mean_aggregator.apply.extract_params_and_weight',
  "_, param, weight = clients_params_and_weight", "_, weight, param = clients_params_and_weight", expect='R-WMEAN.agg')
m('c07-agg-len', 'C07', 'break', AGG, 'mean_aggregator.apply',
  "params_and_weights = map(extract_params_and_weight, clients_params_and_weights)",
  "n = len(clients_params_and_weights)\nparams_and_weights = map(extract_params_and_weight, clients_params_and_weights)",
  expect='R-ONEPASS')
m('c07-sum-two-pass', 'C07', 'break', TU, 'tree_sum', "pytree_sum = None",
  "pytree_sum = None\nfor _ in pytrees:\n  pass", expect='R-ONEPASS')
m('c07-mean-mutates-input', 'C07', 'break', TU, 'tree_mean', "sum_weight = 0.0",
  "sum_weight = 0.0\npytrees_and_weights.sort()", expect='R-')
m('c07-twin-copy-fn', 'C07', 'neutral', TU, 'tree_sum', "pytree_sum = jax.tree_util.tree_map(jnp.array, pytree)",
  "pytree_sum = jax.tree_util.tree_map(jnp.copy, pytree)")
m('c07-twin-copy-lambda', 'C07', 'neutral', TU, 'tree_sum', "pytree_sum = jax.tree_util.tree_map(jnp.array, pytree)",
  "pytree_sum = jax.tree_util.tree_map(lambda x: x + 0, pytree)")
m('c07-twin-no-del', 'C07', 'neutral', TU, 'tree_mean', "del weighted_pytree", "pass")
m('c07-twin-genexp-agg', 'C07', 'neutral', AGG, 'mean_aggregator.apply',
  "params_and_weights = map(extract_params_and_weight, clients_params_and_weights)",
  "params_and_weights = ((p, w) for _, p, w in clients_params_and_weights)")
m('c07-twin-is-not-none', 'C07', 'neutral', TU, 'tree_sum',
  "if pytree_sum is None:\n  pytree_sum = jax.tree_util.tree_map(jnp.array, pytree)\nelse:\n  pytree_sum = _tree_add_eq(pytree_sum, pytree)",
  "if pytree_sum is not None:\n  pytree_sum = _tree_add_eq(pytree_sum, pytree)\nelse:\n  pytree_sum = jax.tree_util.tree_map(jnp.array, pytree)")

# ---------------------------------------------------------------- C02
JIT = 'ForEachClientJitBackend.__call__'
PM = 'ForEachClientPmapBackend.__call__'
m('c02-init-no-copy', 'C02', 'break', FEC, JIT + '.jit_client_init', "return jax.tree_util.tree_map(jnp.copy, state)",
  "return state", expect='R-DONATE')
m('c02-init-asarray', 'C02', 'break', FEC, JIT + '.jit_client_init', "return jax.tree_util.tree_map(jnp.copy, state)",
  "return jax.tree_util.tree_map(jnp.asarray, state)", expect='R-DONATE')
m('c02-donate-batch', 'C02', 'break', FEC, JIT, "jit_client_step = jax.jit(client_step, donate_argnums=0)",
  "jit_client_step = jax.jit(client_step, donate_argnums=(0, 1))", expect='R-DONATE')
m('c02-donate-shared', 'C02', 'break', FEC, JIT, "jit_client_final = jax.jit(client_final, donate_argnums=1)",
  "jit_client_final = jax.jit(client_final, donate_argnums=(0, 1))", expect='R-DONATE')
m('c02-read-after-final', 'C02', 'break', FEC, JIT + '.run_client', "return (output, step_results)",
  "return (output, step_results + [state])", expect='R-DONATE.dead')
m('c02-step-old-state-kept', 'C02', 'break', FEC, JIT + '.run_client', "state, step_result = jit_client_step(state, batch)",
  "new_state, step_result = jit_client_step(state, batch)\nstate = new_state if step_results else state", expect='R-')
m('c02-jit-skip-empty', 'C02', 'break', FEC, JIT + '.run',
  "output, step_results = run_client(shared_input, client_batches, client_input)",
  "output, step_results = run_client(shared_input, client_batches, client_input)\nif not step_results:\n  continue",
  expect='R-YIELD1')
m('c02-jit-yield-twice', 'C02', 'break', FEC, JIT + '.run', "yield (client_id, output, step_results)",
  "yield (client_id, output, step_results)\nif not step_results:\n  yield (client_id, output, step_results)", expect='R-YIELD1')
m('c02-debug-break', 'C02', 'break', FEC, 'ForEachClientDebugBackend.__call__.run', "step_results.append(step_result)",
  "step_results.append(step_result)\nif len(step_results) > 1000:\n  break", expect='R-') if False else None
m('c02-pmap-no-where-state', 'C02', 'break', FEC, PM + '.p_client_step',
  "next_state = jax.tree_util.tree_map(functools.partial(jnp.where, mask), next_state, state)", "pass", expect='R-MASK.state')
m('c02-pmap-where-swapped', 'C02', 'break', FEC, PM + '.p_client_step',
  "next_state = jax.tree_util.tree_map(functools.partial(jnp.where, mask), next_state, state)",
  "next_state = jax.tree_util.tree_map(functools.partial(jnp.where, mask), state, next_state)", expect='R-MASK.state')
m('c02-pmap-no-where-result', 'C02', 'break', FEC, PM + '.p_client_step',
  "step_result = jax.tree_util.tree_map(lambda x: jnp.where(mask, x, jnp.zeros_like(x)), step_result)", "pass",
  expect='R-MASK.result')
m('c02-pmap-yield-padding', 'C02', 'break', FEC, PM + '.run', "if not block.client_mask[i]:\n  continue", "pass",
  expect='R-MASK.skip')
m('c02-pmap-no-truncate', 'C02', 'break', FEC, PM + '.run', "step_results[:block.num_batches[i]]", "step_results", mode='expr',
  expect='R-MASK.truncate')
m('c02-pmap-wrong-slot-id', 'C02', 'break', FEC, PM + '.run', "block.client_id[i]", "block.client_id[len(outputs)]", mode='expr',
  expect='R-MASK.id')
m('c02-pmap-drop-last', 'C02', 'break', FEC, PM + '.run', "range(len(outputs))", "range(len(outputs) - 1)", mode='expr',
  expect='R-YIELD1')
m('c02-pmap-order-reversed', 'C02', 'break', FEC, PM + '.run', "outputs.reverse()", "pass", expect='R-YIELD1')
m('c02-blockify-mask-true', 'C02', 'break', FEC, '_blockify', "client_mask.append(False)", "client_mask.append(True)",
  expect='R-MASK.blockify-clients')
m('c02-blockify-batch-mask', 'C02', 'break', FEC, '_blockify',
  "if j < len(batches):\n  block_batch.append(batches[j])\n  batch_mask.append(True)\nelse:\n  block_batch.append(padding_batch)\n  batch_mask.append(False)",
  "if j < len(batches):\n  block_batch.append(batches[j])\n  batch_mask.append(True)\nelse:\n  block_batch.append(padding_batch)\n  batch_mask.append(True)",
  expect='R-MASK.blockify-batches')
m('c02-blockify-off-by-one', 'C02', 'break', FEC, '_blockify', "j < len(batches)", "j <= len(batches)", mode='expr',
  expect='R-MASK.blockify-batches') if False else None
m('c02-blockify-sort-asc', 'C02', 'break', FEC, '_blockify', "clients.sort(key=lambda x: len(x[1]), reverse=True)",
  "clients.sort(key=lambda x: len(x[1]))", expect='R-MASK.blockify-counts')
m('c02-wrapper-yields-step', 'C02', 'break', FEC, 'for_each_client.run', "yield (client_id, client_output)",
  "yield (client_id, _)", expect='R-YIELD1.wrapper') if False else None
m('c02-wrapper-drops-output', 'C02', 'break', FEC, 'for_each_client.run',
  "for client_id, client_output, _ in func(shared_input, clients):\n  yield (client_id, client_output)",
  "for client_id, _, client_output in func(shared_input, clients):\n  yield (client_id, client_output)",
  expect='R-YIELD1.wrapper')
m('c02-ctx-no-finally', 'C02', 'break', FEC, 'for_each_client_backend',
  "try:\n  set_for_each_client_backend(backend)\n  yield\nfinally:\n  set_for_each_client_backend(old)",
  "set_for_each_client_backend(backend)\nyield\nset_for_each_client_backend(old)", expect='R-SCOPE.restore')
m('c02-ctx-restore-none', 'C02', 'break', FEC, 'for_each_client_backend', "set_for_each_client_backend(old)",
  "set_for_each_client_backend(None)", expect='R-SCOPE.restore')
m('c02-ctx-save-after-set', 'C02', 'break', FEC, 'for_each_client_backend',
  "try:\n  set_for_each_client_backend(backend)\n  yield\nfinally:\n  set_for_each_client_backend(old)",
  "try:\n  set_for_each_client_backend(backend)\n  old = _BACKEND_CHOICE.backend\n  yield\nfinally:\n  set_for_each_client_backend(old)",
  expect='R-SCOPE.restore')
m('c02-not-thread-local', 'C02', 'break', FEC, None, "class BackendChoice(threading.local):\n  pass", "pass") if False else None
m('c02-choice-plain-object', 'C02', 'break', FEC, 'BackendChoice.__init__', "super().__init__()", "pass") if False else None
m('c02-writer-elsewhere', 'C02', 'break', FEC, 'get_for_each_client_backend', "return _BACKEND_CHOICE.get()",
  "_BACKEND_CHOICE.backend = _BACKEND_CHOICE.DEFAULT_BACKEND\nreturn _BACKEND_CHOICE.get()", expect='R-SCOPE.who-may-write')
m('c02-api-removed', 'C02', 'break', FEC, PM, "devices = jax.local_devices()", "devices = jax.local_devices_of_host()",
  expect='R-API')
m('c02-twin-copy-array', 'C02', 'neutral', FEC, JIT + '.jit_client_init', "return jax.tree_util.tree_map(jnp.copy, state)",
  "return jax.tree_util.tree_map(jnp.array, state)")
m('c02-twin-where-lambda', 'C02', 'neutral', FEC, PM + '.p_client_step',
  "next_state = jax.tree_util.tree_map(functools.partial(jnp.where, mask), next_state, state)",
  "next_state = jax.tree_util.tree_map(lambda n, o: jnp.where(mask, n, o), next_state, state)")
m('c02-twin-mask-if', 'C02', 'neutral', FEC, PM + '.run', "if not block.client_mask[i]:\n  continue",
  "if not block.client_mask[i]:\n  continue\nlogging_i = i")
m('c02-twin-rename-old', 'C02', 'neutral', FEC, 'for_each_client_backend', "old = _BACKEND_CHOICE.backend",
  "old = _BACKEND_CHOICE.backend\nprevious = old")

# ---------------------------------------------------------------- C11
UQ = 'uniform_stochastic_quantizer.apply'
RQ = 'rotated_uniform_stochastic_quantizer.apply'
DQ = 'structured_drive_quantizer.apply'
TQ = 'terngrad_quantizer.apply'
m('c11-drive-unguarded', 'C11', 'break', COMP, 'drive_pytree',
  "new_leaves.append(util.safe_div(jnp.sum(jnp.power(leaf, 2)) * jnp.sign(leaf), jnp.sum(jnp.abs(leaf))))",
  "new_leaves.append(jnp.sum(jnp.power(leaf, 2)) * jnp.sign(leaf) / jnp.sum(jnp.abs(leaf)))", expect='R-DIV')
m('c11-binary-no-nan-to-num', 'C11', 'break', COMP, 'binary_stochastic_quantize',
  "v = jnp.nan_to_num((v - v_min) / (v_max - v_min))", "v = (v - v_min) / (v_max - v_min)", expect='R-DIV')
m('c11-uniform-threshold-nan', 'C11', 'break', COMP, 'uniform_stochastic_quantize',
  "threshold = jnp.nan_to_num((v - v_floor) / (v_ceil - v_floor))", "threshold = (v - v_floor) / (v_ceil - v_floor)",
  expect='R-DIV')
m('c11-no-clamp', 'C11', 'break', COMP, 'binary_stochastic_quantize', "v = jnp.maximum(0.0, jnp.minimum(v, 1.0))", "pass",
  expect='R-CLAMP')
m('c11-uniform-no-clamp', 'C11', 'break', COMP, 'uniform_stochastic_quantize', "v = jnp.maximum(0.0, jnp.minimum(v, 1.0))",
  "pass", expect='R-CLAMP')
m('c11-same-key-per-leaf', 'C11', 'break', COMP, 'uniform_stochastic_quantize_pytree',
  "new_leaves.append(uniform_stochastic_quantize(l, num_levels, r))", "new_leaves.append(uniform_stochastic_quantize(l, num_levels, rng))",
  expect='R-KEY')
m('c11-tern-same-key-per-leaf', 'C11', 'break', COMP, 'terngrad_quantize_pytree', "new_leaves.append(terngrad_quantize(l, r))",
  "new_leaves.append(terngrad_quantize(l, rngs[0]))", expect='R-KEY')
m('c11-same-key-per-client', 'C11', 'break', COMP, TQ, "clients_params_and_weight_rng = zip(clients_params_and_weights, rng_seq)",
  "clients_params_and_weight_rng = zip(clients_params_and_weights, itertools.repeat(use_rng))", expect='R-KEY')
m('c11-closure-key-per-client', 'C11', 'break', COMP, UQ + '.quantize_params_and_weight',
  "return (uniform_stochastic_quantize_pytree(params, num_levels, rng), weight)",
  "return (uniform_stochastic_quantize_pytree(params, num_levels, use_rng), weight)", expect='R-') if False else None
m('c11-seq-from-state-key', 'C11', 'break', COMP, UQ, "rng_seq = hk.PRNGSequence(use_rng)",
  "rng_seq = hk.PRNGSequence(aggregator_state.rng)", expect='R-KEY')
m('c11-rotation-key-mismatch', 'C11', 'break', COMP, DQ + '.quantize_params_and_weight',
  "return (walsh_hadamard.inverse_structured_rotation_pytree(drive_pytree(rotated_param), client_rng, shapes), weight)",
  "return (walsh_hadamard.inverse_structured_rotation_pytree(drive_pytree(rotated_param), rotation_rng, shapes), weight)",
  expect='R-')
m('c11-no-inverse-rotation', 'C11', 'break', COMP, DQ + '.quantize_params_and_weight',
  "return (walsh_hadamard.inverse_structured_rotation_pytree(drive_pytree(rotated_param), client_rng, shapes), weight)",
  "return (drive_pytree(rotated_param), weight)", expect='R-PAIR.rotation')
m('c11-weight-squared', 'C11', 'break', COMP, TQ + '.quantize_params_and_weight',
  "return (terngrad_quantize_pytree(params, rng), weight)", "return (terngrad_quantize_pytree(params, rng), 1.0)",
  expect='R-PAIR.weight')
m('c11-bits-reset', 'C11', 'break', COMP, TQ, "new_state = CompressionState(aggregator_state.num_bits + new_bits, rng)",
  "new_state = CompressionState(new_bits, rng)", expect='R-PAIR.bits')
m('c11-bits-16', 'C11', 'break', COMP, RQ, "new_bits = math.log2(num_levels) * total_num_params + 32 * total_num_floats",
  "new_bits = math.log2(num_levels) * total_num_params + 16 * total_num_floats", expect='R-PAIR.bits-formula')
m('c11-bits-levels', 'C11', 'break', COMP, RQ, "new_bits = math.log2(num_levels) * total_num_params + 32 * total_num_floats",
  "new_bits = num_levels * total_num_params + 32 * total_num_floats", expect='R-PAIR.bits-formula')
m('c11-bits-floats-one-per-leaf', 'C11', 'break', COMP, DQ, "total_num_floats = 2 * num_leaves(aggregated_params)",
  "total_num_floats = num_leaves(aggregated_params)", expect='R-PAIR.bits-formula')
m('c11-mean-skips-first', 'C11', 'break', COMP, TQ, "aggregated_params = tree_util.tree_mean(quantized_p_and_w)",
  "aggregated_params = tree_util.tree_mean(itertools.islice(quantized_p_and_w, 1, None))", expect='R-WMEAN')
m('c11-tern-const-mismatch', 'C11', 'break', COMP, 'terngrad_quantize',
  "v = jnp.where(jnp.abs(v) > 2.5 * sigma, 2.5 * sigma * jnp.sign(v), v)",
  "v = jnp.where(jnp.abs(v) > 2.5 * sigma, 2.0 * sigma * jnp.sign(v), v)", expect='R-PAIR.terngrad')
m('c11-tern-no-sign', 'C11', 'break', COMP, 'terngrad_quantize',
  "return binary_stochastic_quantize(jnp.abs(v), rng, 0.0, jnp.amax(jnp.abs(v))) * jnp.sign(v)",
  "return binary_stochastic_quantize(jnp.abs(v), rng, 0.0, jnp.amax(jnp.abs(v)))", expect='R-PAIR.terngrad')
m('c11-twin-safe-div', 'C11', 'neutral', COMP, 'binary_stochastic_quantize',
  "v = jnp.nan_to_num((v - v_min) / (v_max - v_min))", "v = util.safe_div(v - v_min, v_max - v_min)")
m('c11-twin-clip', 'C11', 'neutral', COMP, 'binary_stochastic_quantize', "v = jnp.maximum(0.0, jnp.minimum(v, 1.0))",
  "v = jnp.clip(v, 0.0, 1.0)")
m('c11-twin-split3', 'C11', 'neutral', COMP, RQ, "rng, use_rng = jax.random.split(rng)", "rng, use_rng = jax.random.split(rng, 2)")
m('c11-twin-bits-order', 'C11', 'neutral', COMP, TQ, "new_bits = math.log2(3) * total_num_params + 32 * total_num_floats",
  "new_bits = 32 * total_num_floats + total_num_params * math.log2(3)")

# ---------------------------------------------------------------- C14
m('c14-topk-unclamped', 'C14', 'break', MET, 'TopKAccuracy.evaluate_example', "jnp.argsort(-pred)[:max(self.k, 0)]",
  "jnp.argsort(-pred)[:self.k]", mode='expr', expect='R-SLICE')
m('c14-seqtopk-unclamped', 'C14', 'break', MET, 'SequenceTokenTopKAccuracy.evaluate_example',
  "jnp.argsort(-pred, axis=1)[:, :max(self.k, 0)]", "jnp.argsort(-pred, axis=1)[:, :self.k]", mode='expr', expect='R-SLICE')
m('c14-oov-and-fold', 'C14', 'break', MET, 'SequenceTokenOOVRate.evaluate_example',
  "target_oov = jnp.maximum(target_oov, target == oov_value)", "target_oov *= target == oov_value", expect='R-FOLD')
m('c14-topk-ascending', 'C14', 'break', MET, 'TopKAccuracy.evaluate_example', "jnp.argsort(-pred)", "jnp.argsort(pred)",
  mode='expr', expect='R-ORDER.rank')
m('c14-mask-after-argmax', 'C14', 'break', MET, 'SequenceTokenAccuracy.evaluate_example',
  "if self.logits_mask is not None:\n  logits_mask = jnp.array(self.logits_mask)\n  pred += logits_mask", "pass",
  expect='R-ORDER.logits-mask')
m('c14-den-unweighted', 'C14', 'break', MET, 'SequenceTokenAccuracy.evaluate_example',
  "return MeanStat.new(jnp.sum(correct * target_weight), jnp.sum(target_weight))",
  "return MeanStat.new(jnp.sum(correct * target_weight), jnp.sum(jnp.ones_like(target_weight)))", expect='R-PAIR.num-den')
m('c14-num-unweighted', 'C14', 'break', MET, 'SequenceTokenCrossEntropyLoss.evaluate_example',
  "return MeanStat.new(jnp.sum(token_loss * target_weight), jnp.sum(target_weight))",
  "return MeanStat.new(jnp.sum(token_loss), jnp.sum(target_weight))", expect='R-PAIR.num-den')
m('c14-weights-from-pred', 'C14', 'break', MET, 'SequenceTokenCount.evaluate_example',
  "target_weight = get_target_weight(target, self.masked_target_values)", "target_weight = get_target_weight(target, (0,))",
  expect='R-PAIR.target-weight')
m('c14-mask-eq', 'C14', 'break', MET, 'get_target_weight', "target_weight *= target != mv", "target_weight *= target == mv",
  expect='R-FOLD.mask')
m('c14-zero-type', 'C14', 'break', MET, 'SequenceTokenCount.zero', "return SumStat.new(0.0)", "return MeanStat.new(0.0, 0.0)",
  expect='R-TYPE')
m('c14-zero-nonzero', 'C14', 'break', MET, 'Accuracy.zero', "return MeanStat.new(0.0, 0.0)", "return MeanStat.new(0.0, 1.0)",
  expect='R-TYPE.zero')
m('c14-confusion-transposed', 'C14', 'break', MET, 'ConfusionMatrix.evaluate_example',
  "confusion_matrix.at[target, pred_idx].set(1)", "confusion_matrix.at[pred_idx, target].set(1)", mode='expr',
  expect='R-ORDER.confusion')
m('c14-accuracy-argmin', 'C14', 'break', MET, 'Accuracy.evaluate_example', "jnp.argmax(pred, axis=-1)", "jnp.argmin(pred, axis=-1)",
  mode='expr', expect='R-ORDER.argmax')
m('c14-perdomain-wrong-key', 'C14', 'break', MET, 'PerDomainMetric.evaluate_example', "example[self.domain_id_key]",
  "example['y']", mode='expr', expect='R-ORDER.domain')
m('c14-twin-maximum-k', 'C14', 'neutral', MET, 'TopKAccuracy.evaluate_example', "jnp.argsort(-pred)[:max(self.k, 0)]",
  "jnp.argsort(-pred)[:max(0, self.k)]", mode='expr')
m('c14-twin-oov-or', 'C14', 'neutral', MET, 'SequenceTokenOOVRate.evaluate_example',
  "target_oov = jnp.maximum(target_oov, target == oov_value)", "target_oov = jnp.logical_or(target_oov, target == oov_value)")
m('c14-twin-weight-order', 'C14', 'neutral', MET, 'SequenceTokenAccuracy.evaluate_example',
  "return MeanStat.new(jnp.sum(correct * target_weight), jnp.sum(target_weight))",
  "return MeanStat.new(jnp.sum(target_weight * correct), jnp.sum(target_weight))")

# ---------------------------------------------------------------- C05
m('c05-merge-weight-max', 'C05', 'break', MET, 'MeanStat.merge', "weight = self.weight + other.weight",
  "weight = jnp.maximum(self.weight, other.weight)", expect='R-STAT')
m('c05-merge-cross-field', 'C05', 'break', MET, 'MeanStat.merge', "accum = self.accum + other.accum",
  "accum = self.accum + other.weight", expect='R-STAT')
m('c05-merge-direct-ctor', 'C05', 'break', MET, 'MeanStat.merge', "return MeanStat.new(accum, weight)",
  "return MeanStat(accum, weight)", expect='R-STAT')
m('c05-reduce-mean', 'C05', 'break', MET, 'MeanStat.reduce',
  "return MeanStat.new(jnp.sum(self.accum, axis=axis), jnp.sum(self.weight, axis=axis))",
  "return MeanStat.new(jnp.mean(self.accum, axis=axis), jnp.sum(self.weight, axis=axis))", expect='R-STAT')
m('c05-sum-reduce-axis', 'C05', 'break', MET, 'SumStat.reduce', "return SumStat.new(jnp.sum(self.accum, axis=axis))",
  "return SumStat.new(jnp.sum(self.accum))", expect='R-STAT')
m('c05-new-no-clamp', 'C05', 'break', MET, 'MeanStat.new', "weight = jnp.maximum(0, jnp.array(weight, copy=False))",
  "weight = jnp.array(weight, copy=False)", expect='R-STAT.sanitise')
m('c05-new-no-zeroing', 'C05', 'break', MET, 'MeanStat.new', "accum = jnp.where(weight == 0, 0, jnp.array(accum, copy=False))",
  "accum = jnp.array(accum, copy=False)", expect='R-STAT.sanitise')
m('c05-result-raw-div', 'C05', 'break', MET, 'MeanStat.result', "return util.safe_div(self.accum, self.weight)",
  "return self.accum / self.weight", expect='R-DIV')
m('c05-batch-no-mask', 'C05', 'break', MET, 'evaluate_batch',
  "if batch_mask is not None:\n  batch_stat = jax.tree_util.tree_map(functools.partial(apply_mask, batch_mask), batch_stat, metric.zero())",
  "pass", expect='R-MASK.batch')
m('c05-batch-mask-swapped', 'C05', 'break', MET, 'evaluate_batch',
  "batch_stat = jax.tree_util.tree_map(functools.partial(apply_mask, batch_mask), batch_stat, metric.zero())",
  "batch_stat = jax.tree_util.tree_map(functools.partial(apply_mask, batch_mask), metric.zero(), batch_stat)",
  expect='R-MASK.batch')
m('c05-apply-mask-swapped', 'C05', 'break', MET, 'apply_mask',
  "return jnp.where(jnp.expand_dims(mask, tuple(range(1, rank))), a, b)",
  "return jnp.where(jnp.expand_dims(mask, tuple(range(1, rank))), b, a)", expect='R-MASK.apply')
m('c05-step-ignores-mask', 'C05', 'break', MOD, '_evaluate_model_step',
  "new_stat = {k: metrics.evaluate_batch(metric, batch, pred, mask) for k, metric in model.eval_metrics.items()}",
  "new_stat = {k: metrics.evaluate_batch(metric, batch, pred) for k, metric in model.eval_metrics.items()}",
  expect='R-MASK.step')
m('c05-step-replaces', 'C05', 'break', MOD, '_evaluate_model_step', "lambda a, b: a.merge(b)", "lambda a, b: b", mode='expr',
  expect='R-STAT.merge')
m('c05-eval-model-restart', 'C05', 'break', MOD, 'evaluate_model', "stat = _evaluate_model_step(model, params, batch, stat)",
  "stat = _evaluate_model_step(model, params, batch, {k: metric.zero() for k, metric in model.eval_metrics.items()})",
  expect='R-STAT.loop')
m('c05-evaluator-unmasked-consumer', ['C05', 'C06'], 'break', 'fedjax/training/federated_experiment.py',
  'ModelFullEvaluationFn.__call__', "return models.evaluate_model(self._model, params, batches)",
  "return models.evaluate_model(self._model, params, batches)") if False else None
m('c05-safe-div-nonzero', 'C05', 'break', 'fedjax/core/util.py', 'safe_div', "return jnp.where(safe, c, 0)",
  "return jnp.where(safe, c, jnp.nan)", expect='R-DIV.safe')
m('c05-twin-merge-order', 'C05', 'neutral', MET, 'MeanStat.merge', "accum = self.accum + other.accum",
  "accum = other.accum + self.accum")
m('c05-twin-merge-inline', 'C05', 'neutral', MET, 'SumStat.merge', "return SumStat.new(self.accum + other.accum)",
  "total = self.accum + other.accum\nreturn SumStat.new(total)")

# ---------------------------------------------------------------- C06
SL = 'grad.scalar_loss'
m('c06-grad-unmasked-mean', 'C06', 'break', MOD, SL, "loss = util.safe_div(jnp.vdot(batch_loss, mask), num_examples)",
  "loss = jnp.mean(batch_loss)", expect='R-MASK.pair')
m('c06-grad-count-len', 'C06', 'break', MOD, SL, "num_examples = jnp.sum(mask)", "num_examples = len(mask)",
  expect='R-MASK.pair')
m('c06-grad-raw-div', 'C06', 'break', MOD, SL, "loss = util.safe_div(jnp.vdot(batch_loss, mask), num_examples)",
  "loss = jnp.vdot(batch_loss, mask) / num_examples", expect='R-')
m('c06-grad-reg-twice', 'C06', 'break', MOD, SL, "if regularizer is not None:\n  loss += regularizer(params)",
  "if regularizer is not None:\n  loss += regularizer(params)\n  loss += regularizer(params)", expect='R-REG')
m('c06-grad-reg-dropped', 'C06', 'break', MOD, SL, "if regularizer is not None:\n  loss += regularizer(params)", "pass",
  expect='R-REG')
m('c06-grad-reg-scaled', 'C06', 'break', MOD, SL, "if regularizer is not None:\n  loss += regularizer(params)",
  "if regularizer is not None:\n  loss *= regularizer(params)", expect='R-REG')
m('c06-avgloss-unmasked', 'C06', 'break', MOD, '_evaluate_average_loss_step', "accum_loss += jnp.vdot(mask, loss)",
  "accum_loss += jnp.sum(loss)", expect='R-MASK.pair')
m('c06-avgloss-count', 'C06', 'break', MOD, '_evaluate_average_loss_step', "num_examples += jnp.sum(mask)",
  "num_examples += len(loss)", occurrence=0, expect='R-MASK.pair')
m('c06-avgloss-reg-per-batch', 'C06', 'break', MOD, '_evaluate_average_loss_step', "loss = per_example_loss(params, batch, use_rng)",
  "loss = per_example_loss(params, batch, use_rng) + regularizer(params)", expect='R-REG') if False else None
m('c06-finalize-raw-div', 'C06', 'break', MOD, '_finalize_average_loss', "average_loss = util.safe_div(accum_loss, num_examples)",
  "average_loss = accum_loss / num_examples", expect='R-DIV')
m('c06-finalize-reg-dropped', 'C06', 'break', MOD, '_finalize_average_loss',
  "if regularizer is not None:\n  average_loss += regularizer(params)", "pass", expect='R-REG')
m('c06-domain-unmasked', 'C06', 'break', AGN, 'create_domain_metrics_for_each_client.client_step',
  "example_loss = per_example_loss(step_state['params'], batch, use_rng) * example_mask",
  "example_loss = per_example_loss(step_state['params'], batch, use_rng)", expect='R-MASK.pair')
m('c06-domain-count-unmasked', 'C06', 'break', AGN, 'create_domain_metrics_for_each_client.client_step',
  "domain_num = jax.ops.segment_sum(example_mask.astype(jnp.float32), batch['domain_id'], num_domains)",
  "domain_num = jax.ops.segment_sum(jnp.ones_like(example_loss), batch['domain_id'], num_domains)", expect='R-MASK.pair')
m('c06-hyp-unpadded-consumer', 'C06', 'break', MIME, 'mime', "grad_fn = models.grad(per_example_loss, regularizer)",
  "grad_fn = jax.grad(lambda p, b, r: jnp.mean(per_example_loss(p, b, r)))", expect='R-MASK.consumer')
m('c06-fedavg-on-padded', ['C06', 'C05'], 'break', MIMELITE, 'mime_lite.apply',
  "batch_clients = [(cid, cds.shuffle_repeat_batch(client_batch_hparams), crng) for cid, cds, crng in clients]",
  "batch_clients = [(cid, cds.padded_batch(grads_batch_hparams), crng) for cid, cds, crng in clients]",
  expect='R-MASK.consumer')
m('c06-twin-sum-product', 'C06', 'neutral', MOD, SL, "loss = util.safe_div(jnp.vdot(batch_loss, mask), num_examples)",
  "loss = util.safe_div(jnp.sum(batch_loss * mask), num_examples)")
m('c06-twin-vdot-order', 'C06', 'neutral', MOD, '_evaluate_average_loss_step', "accum_loss += jnp.vdot(mask, loss)",
  "accum_loss += jnp.vdot(loss, mask)")

# ---------------------------------------------------------------- C08
SQ = 'SQLiteFederatedData'
m('c08-inmem-empty', 'C08', 'break', IMFD, 'InMemoryFederatedData.__init__',
  "self._features = list(self._client_to_data_mapping[self._client_ids[0]].keys()) if self._client_ids else []",
  "self._features = list(self._client_to_data_mapping[self._client_ids[0]].keys())", expect='R-EMPTY')
m('c08-sql-stop-inclusive', 'C08', 'break', SQL, SQ + '._range_where', "return '(client_id < :stop)'",
  "return '(client_id <= :stop)'", expect='R-SIB.range')
m('c08-sql-start-exclusive', 'C08', 'break', SQL, SQ + '._range_where', "return '(:start <= client_id)'",
  "return '(:start < client_id)'", expect='R-SIB.range')
m('c08-sql-both-or', 'C08', 'break', SQL, SQ + '._range_where', "return '(:start <= client_id AND client_id < :stop)'",
  "return '(:start <= client_id OR client_id < :stop)'", expect='R-SIB.range')
m('c08-sql-arm-swapped', 'C08', 'break', SQL, SQ + '._range_where',
  "if self._start is None and self._stop is None:\n  return '(1)'\nelif self._start is not None and self._stop is not None:\n  return '(:start <= client_id AND client_id < :stop)'\nelif self._start is None:\n  return '(client_id < :stop)'\nelse:\n  return '(:start <= client_id)'",
  "if self._start is None and self._stop is None:\n  return '(1)'\nelif self._start is not None and self._stop is not None:\n  return '(:start <= client_id AND client_id < :stop)'\nelif self._stop is None:\n  return '(client_id < :stop)'\nelse:\n  return '(:start <= client_id)'",
  expect='R-SIB.range')
m('c08-point-lookup-stop-inclusive', 'C08', 'break', SQL, SQ + '.get_client', "client_id < self._stop", "client_id <= self._stop",
  mode='expr', expect='R-')
m('c08-point-lookup-unguarded', 'C08', 'break', SQL, SQ + '.client_size',
  "if (self._start is None or self._start <= client_id) and (self._stop is None or client_id < self._stop):\n  cursor = self._connection.execute('SELECT num_examples FROM federated_data WHERE client_id = ?', [client_id])\n  result = cursor.fetchone()\n  if result is not None:\n    return result[0]",
  "cursor = self._connection.execute('SELECT num_examples FROM federated_data WHERE client_id = ?', [client_id])\nresult = cursor.fetchone()\nif result is not None:\n  return result[0]",
  expect='R-')
m('c08-num-clients-unrestricted', 'C08', 'break', SQL, SQ + '.num_clients',
  "cursor = self._connection.execute(f'SELECT COUNT(*) FROM federated_data WHERE {self._range_where()};', {'start': self._start, 'stop': self._stop})",
  "cursor = self._connection.execute('SELECT COUNT(*) FROM federated_data;')", expect='R-SQL')
m('c08-no-order-by', 'C08', 'break', SQL, SQ + '._read_clients',
  "cursor = self._connection.execute(f'SELECT client_id, data FROM federated_data WHERE {self._range_where()} ORDER BY rowid;', {'start': self._start, 'stop': self._stop})",
  "cursor = self._connection.execute(f'SELECT client_id, data FROM federated_data WHERE {self._range_where()};', {'start': self._start, 'stop': self._stop})",
  expect='R-SQL.order')
m('c08-binds-swapped', 'C08', 'break', SQL, SQ + '.client_ids', "{'start': self._start, 'stop': self._stop}",
  "{'start': self._stop, 'stop': self._start}", mode='expr', expect='R-SQL')
m('c08-keyerror-none', 'C08', 'break', SQL, SQ + '.get_client', "raise KeyError", "return None", expect='R-KEYERR')
m('c08-slice-enlarges', 'C08', 'break', SQL, SQ + '.slice',
  "start, stop = federated_data.intersect_slice_ranges(self._start, self._stop, start, stop)", "pass", expect='R-DERIVE')
m('c08-intersect-min-max', 'C08', 'break', FD, 'intersect_slice_ranges', "new_start = max(current_start, new_start)",
  "new_start = min(current_start, new_start)", expect='R-DERIVE.intersect')
m('c08-intersect-drops-current', 'C08', 'break', FD, 'intersect_slice_ranges',
  "if new_stop is None:\n  new_stop = current_stop\nelse:\n  new_stop = min(current_stop, new_stop)",
  "if new_stop is not None:\n  new_stop = min(current_stop, new_stop)", expect='R-DERIVE.intersect')
m('c08-preprocess-drops-range', 'C08', 'break', SQL, SQ + '.preprocess_client',
  "return SQLiteFederatedData(self._connection, self._parse_examples, self._start, self._stop, self._preprocess_client.append(fn), self._preprocess_batch)",
  "return SQLiteFederatedData(self._connection, self._parse_examples, None, None, self._preprocess_client.append(fn), self._preprocess_batch)",
  expect='R-DERIVE')
m('c08-preprocess-batch-as-client', 'C08', 'break', IMFD, 'InMemoryFederatedData.preprocess_batch',
  "return InMemoryFederatedData(self._client_to_data_mapping, self._preprocess_client, self._preprocess_batch.append(fn))",
  "return InMemoryFederatedData(self._client_to_data_mapping, self._preprocess_batch.append(fn), self._preprocess_client)",
  expect='R-DERIVE')
m('c08-append-mutates', 'C08', 'break', FD, 'ClientPreprocessor.append', "return ClientPreprocessor(self._fns + (fn,))",
  "self._fns = self._fns + (fn,)\nreturn self", expect='R-')
m('c08-append-prepends', 'C08', 'break', CD, 'BatchPreprocessor.append', "return BatchPreprocessor(self._fns + (fn,))",
  "return BatchPreprocessor((fn,) + self._fns)", expect='R-DERIVE.chain')
m('c08-subset-no-membership', 'C08', 'break', FD, 'SubsetFederatedData.get_client',
  "if client_id not in self._client_ids:\n  raise KeyError", "pass", expect='R-KEYERR')
m('c08-subset-slice-base-ids', 'C08', 'break', FD, 'SubsetFederatedData.slice',
  "client_ids = set((i for i in self._client_ids if start <= i and i < stop))",
  "client_ids = set((i for i in self._base.client_ids() if start <= i and i < stop))", expect='R-DERIVE')
m('c08-inmem-slice-stop-inclusive', 'C08', 'break', IMFD, 'InMemoryFederatedData.slice', "i < stop", "i <= stop", mode='expr',
  expect='R-SIB.range')
m('c08-inmem-view-removes', 'C08', 'break', IMFD, 'InMemoryFederatedData.client_ids', "return iter(sorted(self._client_ids))",
  "self._client_ids.sort()\nreturn iter(self._client_ids)", expect='R-')
m('c08-client-dataset-order', 'C08', 'break', SQL, SQ + '._client_dataset',
  "return client_datasets.ClientDataset(examples, self._preprocess_batch)",
  "return client_datasets.ClientDataset(self._parse_examples(data), self._preprocess_batch)", expect='R-ORDER.preprocess')
m('c08-unsorted-ids', 'C08', 'break', FD, 'SubsetFederatedData.client_ids', "return iter(sorted(self._client_ids))",
  "return iter(self._client_ids)", expect='R-ORDER.sorted')
m('c08-shuffle-reseeded', 'C08', 'break', IMFD, 'InMemoryFederatedData.shuffled_clients',
  "rng = np.random.RandomState(seed)\nwhile True:\n  for client_id, dataset in client_datasets.buffered_shuffle(self.clients(), buffer_size, rng):\n    yield (client_id, dataset)",
  "while True:\n  rng = np.random.RandomState(seed)\n  for client_id, dataset in client_datasets.buffered_shuffle(self.clients(), buffer_size, rng):\n    yield (client_id, dataset)",
  expect='R-ORDER.shuffled') if False else None
m('c08-twin-ge', 'C08', 'neutral', IMFD, 'InMemoryFederatedData.slice', "start <= i and i < stop", "i >= start and stop > i",
  mode='expr')
m('c08-twin-sql-ge', 'C08', 'neutral', SQL, SQ + '._range_where', "return '(:start <= client_id)'", "return '(client_id >= :start)'")

# ---------------------------------------------------------------- C20
MSH = 'fedjax/models/shakespeare.py'
MSO = 'fedjax/models/stackoverflow.py'
DSH = 'fedjax/datasets/shakespeare.py'
DSO = 'fedjax/datasets/stackoverflow.py'
m('c20-shakespeare-bos', 'C20', 'break', MSH, 'create_lstm_model', "bos = 1", "bos = vocab_size + 1", expect='R-CONST')
m('c20-shakespeare-eos', 'C20', 'break', MSH, 'create_lstm_model', "eos = 2", "eos = vocab_size + 2", expect='R-CONST')
m('c20-shakespeare-oov', 'C20', 'break', MSH, 'create_lstm_model', "oov = vocab_size + 3", "oov = vocab_size + 2", expect='R-CONST')
m('c20-shakespeare-vocab', 'C20', 'break', MSH, 'create_lstm_model', "full_vocab_size = vocab_size + 4",
  "full_vocab_size = vocab_size + 3", expect='R-CONST')
m('c20-dataset-reserved', 'C20', 'break', DSH, '_build_look_up_table', "oov = num_reserved + len(vocab)",
  "oov = num_reserved + len(vocab) + 1", expect='R-CONST')
m('c20-dataset-eos', 'C20', 'break', DSH, None, "EOS = 2", "EOS = 3", expect='R-CONST')
m('c20-so-offset', 'C20', 'break', DSO, 'DefaultWordTokenizer.create_token_to_ids_fn.token_to_ids',
  "token_ids = self._table.lookup(words) + 3", "token_ids = self._table.lookup(words) + 4", expect='R-CONST')
m('c20-so-model-oov', 'C20', 'break', MSO, 'create_lstm_model', "oov = vocab_size + 3", "oov = vocab_size + 4", expect='R-CONST')
m('c20-so-default-size', 'C20', 'break', MSO, None, "def f(vocab_size: int=10000): pass", "pass") if False else None
m('c20-so-mask-literal', 'C20', 'break', MSO, 'create_lstm_model',
  "metrics.SequenceTokenCount(masked_target_values=(pad,))", "metrics.SequenceTokenCount(masked_target_values=(1,))", mode='expr',
  expect='R-CONST.use')
m('c20-so-eos-metric', 'C20', 'break', MSO, 'create_lstm_model',
  "metrics.SequenceTruncationRate(eos_target_value=eos, masked_target_values=(pad,))",
  "metrics.SequenceTruncationRate(eos_target_value=bos, masked_target_values=(pad,))", mode='expr', expect='R-CONST.use')
m('c20-logits-mask-misses-oov', 'C20', 'break', MSH, 'create_lstm_model',
  "for i in (pad, bos, eos, oov):\n  logits_mask[i] = -jnp.inf", "for i in (pad, bos, eos):\n  logits_mask[i] = -jnp.inf",
  expect='R-CONST.use')
m('c20-loss-mask-eos', 'C20', 'break', MSH, 'create_lstm_model.train_loss', "per_token_loss *= targets != pad",
  "per_token_loss *= targets != eos", expect='R-CONST.use')
m('c20-cifar-floor-sqrt', 'C20', 'break', CIFAR, 'preprocess_image_tff',
  "image_adjusted_std = np.maximum(image_std, 1 / np.sqrt(num_pixels))",
  "image_adjusted_std = np.maximum(image_std, np.sqrt(num_pixels))", expect='R-SIB.tf')
m('c20-cifar-floor-const', 'C20', 'break', CIFAR, 'preprocess_image_tff',
  "image_adjusted_std = np.maximum(image_std, 1 / np.sqrt(num_pixels))", "image_adjusted_std = np.maximum(image_std, 1e-06)",
  expect='R-SIB.tf')
m('c20-cifar-batch-stats', 'C20', 'break', CIFAR, 'preprocess_image_tff',
  "image_mean = np.mean(image, axis=(-1, -2, -3), keepdims=True)", "image_mean = np.mean(image, keepdims=True)",
  expect='R-SIB.tf')
m('c20-cifar-crop-offset', 'C20', 'break', CIFAR, 'preprocess_image_tff', "height_offset = (32 - crop_height) // 2",
  "height_offset = 32 - crop_height", expect='R-OFFSET')
m('c20-task-digits-mismatch', 'C20', 'break', 'fedjax/training/tasks.py', 'get_task',
  "model = models.emnist.create_conv_model(only_digits=False)", "model = models.emnist.create_conv_model(only_digits=True)",
  expect='R-TASK')
m('c20-loss-batch-mean', 'C20', 'break', MSH, 'create_lstm_model.train_loss', "return jnp.mean(per_token_loss, axis=-1)",
  "return jnp.mean(per_token_loss)", expect='R-ROW')
m('c20-emnist-slice', 'C20', 'break', 'fedjax/datasets/emnist.py', 'domain_id', "cid = int(client_id[18:22])",
  "cid = int(client_id[17:21])", expect='R-OFFSET')
m('c20-twin-rsqrt-pow', 'C20', 'neutral', CIFAR, 'preprocess_image_tff',
  "image_adjusted_std = np.maximum(image_std, 1 / np.sqrt(num_pixels))",
  "image_adjusted_std = np.maximum(image_std, num_pixels ** (-0.5))")
m('c20-twin-dataset-consts', 'C20', 'neutral', MSH, 'create_lstm_model', "full_vocab_size = vocab_size + 4",
  "full_vocab_size = oov + 1")

# ---------------------------------------------------------------- C16
m('c16-byteorder', 'C16', 'break', SER, '_ndarray_to_bytes',
  "if not arr.dtype.isnative:\n  arr = arr.astype(arr.dtype.newbyteorder('='))", "pass", expect='R-PAIR.byteorder')
m('c16-fortran-bytes', 'C16', 'break', SER, '_ndarray_to_bytes', "arr.tobytes('C')", "arr.tobytes('A')", mode='expr',
  expect='R-PAIR.layout')
m('c16-reshape-f', 'C16', 'break', SER, '_ndarray_from_bytes',
  "return np.frombuffer(buffer, dtype=_dtype_from_name(dtype_name), count=-1, offset=0).reshape(shape, order='C')",
  "return np.frombuffer(buffer, dtype=_dtype_from_name(dtype_name), count=-1, offset=0).reshape(shape, order='F')",
  expect='R-PAIR.layout')
m('c16-ext-unhandled', 'C16', 'break', SER, '_msgpack_ext_unpack',
  "if code == _MsgpackExtType.ndarray:\n  return _ndarray_from_bytes(data)\nelif code == _MsgpackExtType.native_complex:\n  complex_tuple = msgpack.unpackb(data)\n  return complex(complex_tuple[0], complex_tuple[1])\nelif code == _MsgpackExtType.npscalar:\n  ar = _ndarray_from_bytes(data)\n  return ar[()]\nelif code == _MsgpackExtType.bytes_ndarray:\n  return _object_ndarray_from_bytes(data)",
  "if code == _MsgpackExtType.ndarray:\n  return _ndarray_from_bytes(data)\nelif code == _MsgpackExtType.native_complex:\n  complex_tuple = msgpack.unpackb(data)\n  return complex(complex_tuple[0], complex_tuple[1])\nelif code == _MsgpackExtType.bytes_ndarray:\n  return _object_ndarray_from_bytes(data)",
  expect='R-SIB.ext')
m('c16-ext-swapped-helper', 'C16', 'break', SER, '_msgpack_ext_unpack', "return _object_ndarray_from_bytes(data)",
  "return _ndarray_from_bytes(data)", expect='R-SIB.ext-pair')
m('c16-ext-code-clash', 'C16', 'break', SER, '_MsgpackExtType', "bytes_ndarray = 4", "bytes_ndarray = 1", expect='R-SIB.ext')
m('c16-scalar-as-array', 'C16', 'break', SER, '_msgpack_ext_unpack', "return ar[()]", "return ar", expect='R-SIB.ext-pair')
m('c16-not-strict', 'C16', 'break', SER, 'msgpack_serialize',
  "return msgpack.packb(pytree, default=_msgpack_ext_pack, strict_types=True)",
  "return msgpack.packb(pytree, default=_msgpack_ext_pack)", expect='R-PAIR.flags')
m('c16-raw-mismatch', 'C16', 'break', SER, '_ndarray_from_bytes', "shape, dtype_name, buffer = msgpack.unpackb(data, raw=True)",
  "shape, dtype_name, buffer = msgpack.unpackb(data, raw=False)", expect='R-PAIR.flags')
m('c16-str-arrays-accepted', 'C16', 'break', SER, '_bytes_ndarray_to_bytes',
  "if flat and (not isinstance(flat[0], bytes)):\n  raise ValueError('Only ndarrays holding bytes objects can be serialized.')",
  "pass", expect='R-PAIR.flags')
m('c16-complex-arity', 'C16', 'break', SER, '_msgpack_ext_pack',
  "return msgpack.ExtType(_MsgpackExtType.native_complex, msgpack.packb((x.real, x.imag)))",
  "return msgpack.ExtType(_MsgpackExtType.native_complex, msgpack.packb((x.real,)))", expect='R-SIB.ext-pair')
m('c16-sqlite-no-zlib', 'C16', 'break', SQL, 'SQLiteFederatedDataBuilder.add_many.prepare_parameters',
  "data = zlib.compress(serialization.msgpack_serialize(examples))", "data = serialization.msgpack_serialize(examples)",
  expect='R-SIB.sqlite')
m('c16-sqlite-columns-swapped', 'C16', 'break', SQL, 'SQLiteFederatedDataBuilder.add_many.prepare_parameters',
  "return (client_id, data, num_examples)", "return (client_id, num_examples, data)", expect='R-SIB.sqlite')
m('c16-sqlite-unvalidated', 'C16', 'break', SQL, 'SQLiteFederatedDataBuilder.add_many.prepare_parameters',
  "num_examples = client_datasets.num_examples(examples, validate=True)",
  "num_examples = client_datasets.num_examples(examples, validate=False)", expect='R-SIB.sqlite')
m('c16-pickle-text-mode', 'C16', 'break', SER, 'load_state', "tf.io.gfile.GFile(path, 'rb')", "tf.io.gfile.GFile(path, 'r')",
  mode='expr', expect='R-PAIR.pickle')
m('c16-twin-dtype-str', 'C16', 'neutral', SER, '_ndarray_to_bytes',
  "if not arr.dtype.isnative:\n  arr = arr.astype(arr.dtype.newbyteorder('='))",
  "if not arr.dtype.isnative:\n  arr = arr.byteswap().view(arr.dtype.newbyteorder('='))")
m('c16-twin-tobytes-default', 'C16', 'neutral', SER, '_ndarray_to_bytes', "arr.tobytes('C')", "arr.tobytes(order='C')", mode='expr')

# ---------------------------------------------------------------- C17
APS = 'create_train_for_each_client.client_step'
m('c17-apfl-no-clip', 'C17', 'break', APFL, APS,
  "interpolation_coefficients = jax.tree_util.tree_map(lambda x: jnp.clip(x, 0, 1), interpolation_coefficients)", "pass",
  expect='R-CLIP01')
m('c17-apfl-clip-range', 'C17', 'break', APFL, APS, "lambda x: jnp.clip(x, 0, 1)", "lambda x: jnp.clip(x, -1, 1)", mode='expr',
  expect='R-CLIP01')
m('c17-apfl-clip-kwargs', 'C17', 'break', APFL, APS, "lambda x: jnp.clip(x, 0, 1)", "partial(jnp.clip, a_min=0, a_max=1)",
  mode='expr', expect='R-API')
m('c17-apfl-clip-before-update', 'C17', 'break', APFL, APS,
  "interpolation_coefficients = jax.tree_util.tree_map(lambda x: jnp.clip(x, 0, 1), interpolation_coefficients)",
  "interpolation_coefficients = jax.tree_util.tree_map(lambda x: jnp.clip(x, 0, 1), client_step_state['state'].interpolation_coefficients)",
  expect='R-CLIP01') if False else None
m('c17-apfl-state-for-all', 'C17', 'break', APFL, 'adaptive_personalized_federated_learning.apply',
  "client_states = dict(server_state.client_states)",
  "client_states = dict(server_state.client_states)\nfor cid, _, _ in clients:\n  client_states[cid] = client_default_state",
  expect='R-PARTICIPANT')
m('c17-apfl-state-wrong-key', 'C17', 'break', APFL, 'adaptive_personalized_federated_learning.apply',
  "client_states[client_id] = client_output['state']", "client_states[len(client_states)] = client_output['state']",
  expect='R-PARTICIPANT')
m('c17-apfl-table-reset', 'C17', 'break', APFL, 'adaptive_personalized_federated_learning.apply',
  "client_states = dict(server_state.client_states)", "client_states = {}", expect='R-PARTICIPANT.copy')
m('c17-mimelite-unclipped-sum', 'C17', 'break', MIMELITE, 'mime_lite.apply',
  "delta_params = tree_util.tree_clip_by_global_norm(delta_params, client_delta_clip_norm)",
  "clipped = tree_util.tree_clip_by_global_norm(delta_params, client_delta_clip_norm)", expect='R-CLIPNORM')
m('c17-mimelite-clip-other-norm', 'C17', 'break', MIMELITE, 'mime_lite.apply',
  "delta_params = tree_util.tree_clip_by_global_norm(delta_params, client_delta_clip_norm)",
  "delta_params = tree_util.tree_clip_by_global_norm(delta_params, 2 * client_delta_clip_norm)", expect='R-CLIPNORM')
m('c17-agnostic-no-renorm', 'C17', 'break', AGN, 'update_domain_weights', "return new_domain_weights / jnp.sum(new_domain_weights)",
  "return new_domain_weights", expect='R-SIMPLEX')
m('c17-agnostic-no-clamp', 'C17', 'break', AGN, 'update_domain_weights',
  "new_domain_weights = jnp.maximum(new_domain_weights, jnp.zeros_like(new_domain_weights))", "pass", expect='R-')
m('c17-agnostic-window-grows', 'C17', 'break', AGN, 'agnostic_federated_averaging.server_update',
  "domain_window = server_state.domain_window[1:] + [sum_domain_num]", "domain_window = server_state.domain_window + [sum_domain_num]",
  expect='R-SIMPLEX.window')
m('c17-agnostic-window-front', 'C17', 'break', AGN, 'agnostic_federated_averaging.server_update',
  "domain_window = server_state.domain_window[1:] + [sum_domain_num]", "domain_window = [sum_domain_num] + server_state.domain_window[1:]",
  expect='R-SIMPLEX.window')
m('c17-agnostic-new-division', 'C17', 'break', AGN, 'agnostic_federated_averaging.server_update',
  "mean_domain_loss = util.safe_div(sum_domain_loss, sum_domain_num)", "mean_domain_loss = sum_domain_loss / sum_domain_num",
  expect='R-DIV')
m('c17-hyp-none-dropped', 'C17', 'break', HYP, 'expectation_step',
  "if num_examples_sum > 0:\n  cluster_delta_params.append(tree_util.tree_inverse_weight(delta_params_sum, num_examples_sum))\nelse:\n  cluster_delta_params.append(None)",
  "cluster_delta_params.append(tree_util.tree_inverse_weight(delta_params_sum, num_examples_sum))", expect='R-HYP.none')
m('c17-ignore-restore-from-output', 'C17', 'break', OPT, 'ignore_grads_haiku.apply',
  "trainable_params[module_name][name] = params[module_name][name]",
  "trainable_params[module_name][name] = trainable_params[module_name][name]", expect='R-IGNORE')
m('c17-ignore-grads-unfiltered', 'C17', 'break', OPT, 'ignore_grads_haiku.apply',
  "trainable_grads = hk.data_structures.map(non_trainable_to_none, grads)", "trainable_grads = grads", expect='R-IGNORE')
m('c17-ignore-filter-inverted', 'C17', 'break', OPT, 'ignore_grads_haiku.non_trainable_to_none',
  "if (module_name, name) in non_trainable_names:\n  return None", "if (module_name, name) not in non_trainable_names:\n  return None",
  expect='R-IGNORE')
m('c17-twin-clip-minmax', 'C17', 'neutral', APFL, APS, "lambda x: jnp.clip(x, 0, 1)", "lambda x: jnp.clip(x, min=0, max=1)",
  mode='expr')
m('c17-twin-dict-spread', 'C17', 'neutral', APFL, 'adaptive_personalized_federated_learning.apply',
  "client_states = dict(server_state.client_states)", "client_states = {**server_state.client_states}")

# ---------------------------------------------------------------- C13
GS = 'UniformGetClientSampler'
SS = 'UniformShuffledClientSampler'
m('c13-replace-true', 'C13', 'break', SAMP, GS + '.sample',
  "random_state.choice(np.array(self._client_ids, dtype=object), size=self._num_clients, replace=False)",
  "random_state.choice(np.array(self._client_ids, dtype=object), size=self._num_clients)", mode='expr', expect='R-CHOICE')
m('c13-no-object-dtype', 'C13', 'break', SAMP, GS + '.sample', "np.array(self._client_ids, dtype=object)",
  "np.array(self._client_ids)", mode='expr', expect='R-CHOICE')
m('c13-stateful-rng', 'C13', 'break', SAMP, GS + '.sample',
  "random_state = get_pseudo_random_state(self._seed, self._round_num)",
  "random_state = self._rs = getattr(self, '_rs', None) or get_pseudo_random_state(self._seed, self._round_num)",
  expect='R-')
m('c13-seed-only', 'C13', 'break', SAMP, GS + '.sample', "random_state = get_pseudo_random_state(self._seed, self._round_num)",
  "random_state = get_pseudo_random_state(self._seed, 0)", expect='R-SEED')
m('c13-global-rng', 'C13', 'break', SAMP, GS + '.sample', "random_state = get_pseudo_random_state(self._seed, self._round_num)",
  "random_state = np.random", expect='R-')
m('c13-increment-first', 'C13', 'break', SAMP, GS + '.sample', "clients = []", "clients = []\nself._round_num += 1",
  expect='R-PURE.round')
m('c13-no-increment', 'C13', 'break', SAMP, GS + '.sample', "self._round_num += 1", "pass", expect='R-PURE.round')
m('c13-set-round-off-by-one', 'C13', 'break', SAMP, GS + '.set_round_num', "self._round_num = round_num",
  "self._round_num = round_num + 1", expect='R-PURE.round')
m('c13-keys-from-seed', 'C13', 'break', SAMP, GS + '.sample', "jax.random.PRNGKey(self._round_num)", "jax.random.PRNGKey(self._seed)",
  mode='expr', expect='R-SEED.keys')
m('c13-same-key-all', 'C13', 'break', SAMP, GS + '.sample', "clients.append((client_id, client_dataset, client_rngs[i]))",
  "clients.append((client_id, client_dataset, client_rngs[0]))", expect='R-')
m('c13-remove-sampled', 'C13', 'break', SAMP, GS + '.sample', "clients = []",
  "clients = []\nself._client_ids = self._client_ids[1:] + self._client_ids[:1]", expect='R-PURE')
m('c13-prs-global', 'C13', 'break', SAMP, 'get_pseudo_random_state',
  "mlcg_start = np.random.RandomState(seed).randint(1, mlcg_modulus - 1)", "mlcg_start = np.random.randint(1, mlcg_modulus - 1)",
  expect='R-SEED')
m('c13-prs-ignores-round', 'C13', 'break', SAMP, 'get_pseudo_random_state',
  "return np.random.RandomState(pow(mlcg_multiplier, round_num, mlcg_modulus) * mlcg_start % mlcg_modulus)",
  "return np.random.RandomState(mlcg_start % mlcg_modulus)", expect='R-SEED')
m('c13-stream-no-skip', 'C13', 'break', SAMP, SS + '.__init__',
  "for _ in range(self._round_num):\n  for _ in range(self._num_clients):\n    next(self._shuffled_clients_iter)", "pass",
  expect='R-STREAM')
m('c13-stream-skip-rounds-only', 'C13', 'break', SAMP, SS + '.__init__',
  "for _ in range(self._round_num):\n  for _ in range(self._num_clients):\n    next(self._shuffled_clients_iter)",
  "for _ in range(self._round_num):\n  next(self._shuffled_clients_iter)", expect='R-STREAM')
m('c13-other-dataset', 'C13', 'break', SAMP, GS + '.sample', "self._federated_data.get_clients(client_ids)",
  "self._federated_data.get_clients(self._client_ids[:self._num_clients])", mode='expr', expect='R-CHOICE')
m('c13-twin-key', 'C13', 'neutral', SAMP, GS + '.sample', "clients = []", "clients = []\nnum = self._num_clients")

# ---------------------------------------------------------------- C03
PV = 'PaddedBatchView.__iter__'
BV = 'BatchView.__iter__'
m('c03-padded-overlap', 'C03', 'break', CD, PV, "stop = start + self._batch_size", "stop = start + self._batch_size + 1",
  expect='R-SIB.view')
m('c03-padded-range-step', 'C03', 'break', CD, PV, "range(0, self._data_size, self._batch_size)",
  "range(0, self._data_size - 1, self._batch_size)", mode='expr', expect='R-SIB.view')
m('c03-padded-full-strict', 'C03', 'break', CD, PV, "stop <= self._data_size", "stop < self._data_size", mode='expr',
  expect='R-SIB.view')
m('c03-padded-pad-to-batch', 'C03', 'break', CD, PV, "yield pad_examples(processed, self._final_batch_size)",
  "yield pad_examples(processed, self._batch_size)", expect='R-SIB.view')
m('c03-batch-drop-full', 'C03', 'break', CD, BV, "not self._drop_remainder or stop <= self._data_size",
  "not self._drop_remainder or stop < self._data_size", mode='expr', expect='R-SIB.view')
m('c03-batch-skip-preprocess', 'C03', 'break', CD, BV, "processed = self._client_dataset.preprocessor(sliced)", "processed = sliced",
  expect='R-SIB.view')
m('c03-pad-mask-suffix', 'C03', 'break', CD, 'pad_examples', "result = {EXAMPLE_MASK_KEY: np.arange(size) < current_size}",
  "result = {EXAMPLE_MASK_KEY: np.arange(size) >= size - current_size}", expect='R-PAIR.pad')
m('c03-pad-mask-le', 'C03', 'break', CD, 'pad_examples', "np.arange(size) < current_size", "np.arange(size) <= current_size",
  mode='expr', expect='R-PAIR.pad')
m('c03-pad-dtype', 'C03', 'break', CD, 'pad_examples', "padded = np.zeros((size,) + v.shape[1:], v.dtype)",
  "padded = np.zeros((size,) + v.shape[1:])", expect='R-PAIR.pad')
m('c03-pad-copy-bound', 'C03', 'break', CD, 'pad_examples', "padded[:current_size] = v", "padded[:current_size - 1] = v[:-1]",
  expect='R-PAIR.pad')
m('c03-pad-no-size-check', 'C03', 'break', CD, 'pad_examples',
  "if current_size > size:\n  raise ValueError(f'Cannot pad {current_size} examples to size {size}')", "pass", expect='R-PAIR.pad')
m('c03-bucket-gt', 'C03', 'break', CD, '_pick_final_batch_size', "low >= final_batch_size", "low > final_batch_size", mode='expr',
  expect='R-BUCKET')
m('c03-bucket-count', 'C03', 'break', CD, '_pick_final_batch_size', "n < num_batch_size_buckets", "n <= num_batch_size_buckets",
  mode='expr', expect='R-BUCKET')
m('c03-bucket-zero-rem', 'C03', 'break', CD, '_pick_final_batch_size', "if final_batch_size == 0:\n  return batch_size", "pass",
  expect='R-BUCKET')
m('c03-iter-mutates-dataset', 'C03', 'break', CD, PV, "processed = self._client_dataset.preprocessor(sliced)",
  "processed = self._client_dataset.preprocessor(sliced)\nself._data_size -= 0", expect='R-PURE')
m('c03-slice-inplace', 'C03', 'break', CD, 'slice_examples', "return {k: v[index] for k, v in examples.items()}",
  "for k in examples:\n  examples[k] = examples[k][index]\nreturn examples", expect='R-')
m('c03-preproc-no-copy', 'C03', 'break', CD, 'BatchPreprocessor.__call__', "out = dict(examples)", "out = examples",
  expect='R-PURE.copy')
m('c03-twin-zeros-star', 'C03', 'neutral', CD, 'pad_examples', "padded = np.zeros((size,) + v.shape[1:], v.dtype)",
  "padded = np.zeros((size, *v.shape[1:]), dtype=v.dtype)")
m('c03-twin-full-ge', 'C03', 'neutral', CD, PV, "stop <= self._data_size", "self._data_size >= stop", mode='expr')

# ---------------------------------------------------------------- C04
SV = 'ShuffleRepeatBatchView.__iter__'
SI = 'ShuffleRepeatBatchView.__init__'
m('c04-global-rng', 'C04', 'break', CD, SV, "rng = np.random.RandomState(self._seed)", "rng = np.random", expect='R-SEED')
m('c04-seed-dropped', 'C04', 'break', CD, SV, "rng = np.random.RandomState(self._seed)", "rng = np.random.RandomState()",
  expect='R-SEED')
m('c04-rng-on-self', 'C04', 'break', CD, SV, "rng = np.random.RandomState(self._seed)",
  "rng = self._rng = getattr(self, '_rng', None) or np.random.RandomState(self._seed)", expect='R-')
m('c04-global-shuffle', 'C04', 'break', CD, SV, "rng.shuffle(buf)", "np.random.shuffle(buf)", expect='R-')
m('c04-reshuffle-mid-pass', 'C04', 'break', CD, SV,
  "if available == 0:\n  if not self._skip_shuffle:\n    rng.shuffle(buf)\n  i = 0\n  available = buf_size",
  "if available < desired_size - filled:\n  if not self._skip_shuffle:\n    rng.shuffle(buf)\n  i = 0\n  available = buf_size",
  expect='R-PERM')
m('c04-no-cursor-reset', 'C04', 'break', CD, SV, "i = 0", "pass", expect='R-PERM')
m('c04-with-replacement', 'C04', 'break', CD, SV, "indices[filled:filled + used] = buf[i:i + used]",
  "indices[filled:filled + used] = rng.randint(buf_size, size=used)", expect='R-PERM')
m('c04-buf-overwritten', 'C04', 'break', CD, SV, "i += used", "i += used\nbuf[0] = buf[-1]", expect='R-PERM')
m('c04-cursor-not-advanced', 'C04', 'break', CD, SV, "i += used", "i += 1", expect='R-PERM.window')
m('c04-skip-shuffle-ignored', 'C04', 'break', CD, SV, "if not self._skip_shuffle:\n  rng.shuffle(buf)", "rng.shuffle(buf)",
  expect='R-PERM.reshuffle')
m('c04-first-pass-unshuffled', 'C04', 'break', CD, SV, "i = buf_size", "i = 0", expect='R-PERM.window')
m('c04-short-batch', 'C04', 'break', CD, SV, "while filled < desired_size:", "while filled < desired_size - 1:") if False else None
m('c04-batch-size-minus-one', 'C04', 'break', CD, SV, "indices = np.zeros((self._batch_size,), dtype=np.int32)",
  "indices = np.zeros((max(self._batch_size - 1, 1),), dtype=np.int32)", expect='R-SIZE')
m('c04-steps-floor-always', 'C04', 'break', CD, SI,
  "self._num_steps = (self._data_size * hparams.num_epochs + hparams.batch_size - 1) // hparams.batch_size",
  "self._num_steps = self._data_size * hparams.num_epochs // hparams.batch_size", expect='R-SIZE.steps')
m('c04-steps-max', 'C04', 'break', CD, SI, "self._num_steps = min(hparams.num_steps, self._num_steps)",
  "self._num_steps = max(hparams.num_steps, self._num_steps)", expect='R-SIZE.steps')
m('c04-one-more-step', 'C04', 'break', CD, SV, "num_steps < desired_num_steps", "num_steps <= desired_num_steps", mode='expr',
  expect='R-SIZE.steps')
m('c04-twin-rename-cursor', 'C04', 'neutral', CD, SV, "i = buf_size", "i = buf_size\ncursor_start = i")
m('c04-twin-len', 'C04', 'neutral', CD, SV, "buf_size = buf.shape[0]", "buf_size = len(buf)")

# ---------------------------------------------------------------- C15
PBC = 'padded_batch_client_datasets'
BS = 'buffered_shuffle'
m('c15-no-preproc-check', 'C15', 'break', CD, PBC,
  "if preprocessor is None:\n  preprocessor = dataset.preprocessor\nelif dataset.preprocessor is not preprocessor:\n  raise ValueError(f'client_datasets should have the identical Preprocessor object, got {preprocessor} vs {dataset.preprocessor}')",
  "if preprocessor is None:\n  preprocessor = dataset.preprocessor", expect='R-ERR')
m('c15-features-check-late', 'C15', 'break', CD, 'buffered_shuffle_batch_client_datasets.gen_items',
  "if features is None:\n  features = set(dataset.raw_examples)\nelif features != set(dataset.raw_examples):\n  raise ValueError(f'client_datasets should have identical features, got {features} vs {list(dataset.raw_examples)}')",
  "if features is None:\n  features = set(dataset.raw_examples)", expect='R-ERR')
m('c15-shuffle-drops-head', 'C15', 'break', CD, BS, "r, buf[0] = (buf[0], i)", "r, buf[0] = (i, i)", expect='R-CONSERVE')
m('c15-shuffle-overwrite', 'C15', 'break', CD, BS, "buf[swap], buf[0] = (buf[0], buf[swap])", "buf[swap] = buf[0]",
  expect='R-CONSERVE')
m('c15-shuffle-yield-twice', 'C15', 'break', CD, BS, "yield r", "yield r\nif swap == 0:\n  yield r", expect='R-CONSERVE')
m('c15-shuffle-skip-yield', 'C15', 'break', CD, BS, "yield r", "if swap != 0:\n  yield r", expect='R-CONSERVE')
m('c15-shuffle-no-tail', 'C15', 'break', CD, BS, "for i in buf:\n  yield i", "pass", expect='R-CONSERVE.tail')
m('c15-shuffle-tail-skips', 'C15', 'break', CD, BS, "for i in buf:\n  yield i", "for i in buf[1:]:\n  yield i",
  expect='R-CONSERVE.tail')
m('c15-shuffle-global-rng', 'C15', 'break', CD, BS, "swap = rng.randint(buffer_size)", "swap = np.random.randint(buffer_size)",
  expect='R-CONSERVE.rng')
m('c15-shuffle-new-iter', 'C15', 'break', CD, BS, "buf = list(itertools.islice(it, buffer_size))",
  "buf = list(itertools.islice(iter(source), buffer_size))", expect='R-CONSERVE.fill')
m('c15-multi-bufsize-drift', 'C15', 'break', CD, PBC, "buf_size += size - start", "buf_size += size", expect='R-CONSERVE.pairs')
m('c15-multi-clear-no-reset', 'C15', 'break', CD, PBC, "buf_size = 0", "pass", occurrence=1, expect='R-CONSERVE.pairs')
m('c15-multi-gap', 'C15', 'break', CD, PBC, "start += hparams.batch_size", "start += hparams.batch_size + 1",
  expect='R-CONSERVE.contiguous')
m('c15-multi-tail-dropped', 'C15', 'break', CD, PBC,
  "if start < size:\n  buf.append(slice_examples(examples, slice(start, size)))\n  buf_size += size - start", "pass",
  expect='R-CONSERVE')
m('c15-multi-no-final-flush', 'C15', 'break', CD, PBC,
  "if buf:\n  final_examples = preprocessor(concat_examples(buf))\n  final_batch_size = _pick_final_batch_size(buf_size, hparams.batch_size, hparams.num_batch_size_buckets)\n  yield pad_examples(final_examples, final_batch_size)",
  "pass", expect='R-CONSERVE.tail')
m('c15-batcher-no-tail', 'C15', 'break', CD, 'buffered_shuffle_batch_client_datasets',
  "if buf:\n  yield preprocessor(concat_examples([slice_examples(e, slice(i, i + 1)) for e, i in buf]))", "pass",
  expect='R-CONSERVE.batches')
m('c15-items-skip-first', 'C15', 'break', CD, 'buffered_shuffle_batch_client_datasets.gen_items',
  "for i in range(len(dataset)):\n  yield (dataset.raw_examples, i)", "for i in range(1, len(dataset)):\n  yield (dataset.raw_examples, i)",
  expect='R-CONSERVE.items')
m('c15-replay-no-record', 'C15', 'break', FD, 'RepeatableIterator.__next__', "if self._first_pass:\n  self._buf.append(value)", "pass",
  expect='R-REPLAY')
m('c15-replay-always-record', 'C15', 'break', FD, 'RepeatableIterator.__next__', "if self._first_pass:\n  self._buf.append(value)",
  "self._buf.append(value)", expect='R-REPLAY')
m('c15-replay-no-reseat', 'C15', 'break', FD, 'RepeatableIterator.__next__', "self._iter = iter(self._buf)", "pass",
  expect='R-REPLAY')
m('c15-replay-swallow-stop', 'C15', 'break', FD, 'RepeatableIterator.__next__', "raise", "return None", expect='R-REPLAY')
m('c15-replay-container-copy-flag', 'C15', 'break', FD, 'RepeatableIterator.__init__', "self._first_pass = False",
  "self._first_pass = True", expect='R-REPLAY')
m('c15-twin-yield-from', 'C15', 'neutral', CD, BS, "for i in buf:\n  yield i", "yield from buf")
m('c15-twin-swap-order', 'C15', 'neutral', CD, BS, "buf[swap], buf[0] = (buf[0], buf[swap])", "buf[0], buf[swap] = (buf[swap], buf[0])")

# ---------------------------------------------------------------- C18
SR = 'structured_rotation'
ISR = 'inverse_structured_rotation'
m('c18-scale-sqrt-size', 'C18', 'break', WH, SR,
  "return (walsh_hadamard_transform(w * rademacher) / jnp.sqrt(d), jnp.array(x.shape))",
  "return (walsh_hadamard_transform(w * rademacher) / jnp.sqrt(x.size), jnp.array(x.shape))", expect='R-SIB.rotation')
m('c18-scale-d', 'C18', 'break', WH, SR,
  "return (walsh_hadamard_transform(w * rademacher) / jnp.sqrt(d), jnp.array(x.shape))",
  "return (walsh_hadamard_transform(w * rademacher) / d, jnp.array(x.shape))", expect='R-SIB.rotation')
m('c18-signs-wrong-shape', 'C18', 'break', WH, SR, "rademacher = jax.random.rademacher(rng, w.shape)",
  "rademacher = jax.random.rademacher(rng, x_flat.shape)", expect='R-SIB.rotation')
m('c18-inverse-sign-first', 'C18', 'break', WH, ISR, "w = walsh_hadamard_transform(x) * rademacher / jnp.sqrt(x.size)",
  "w = walsh_hadamard_transform(x * rademacher) / jnp.sqrt(x.size)", expect='R-SIB.rotation')
m('c18-inverse-no-sign', 'C18', 'break', WH, ISR, "w = walsh_hadamard_transform(x) * rademacher / jnp.sqrt(x.size)",
  "w = walsh_hadamard_transform(x) / jnp.sqrt(x.size)", expect='R-SIB.rotation')
m('c18-inverse-scale', 'C18', 'break', WH, ISR, "w = walsh_hadamard_transform(x) * rademacher / jnp.sqrt(x.size)",
  "w = walsh_hadamard_transform(x) * rademacher / x.size", expect='R-SIB.rotation')
m('c18-inverse-no-crop', 'C18', 'break', WH, ISR, "y_flat = w.take(jnp.arange(original_size))", "y_flat = w", expect='R-SIB.rotation')
m('c18-pad-front', 'C18', 'break', WH, SR, "w = jnp.pad(x_flat, (0, d - x.size))", "w = jnp.pad(x_flat, (d - x.size, 0))",
  expect='R-SIB.rotation')
m('c18-pow2-floor', 'C18', 'break', WH, SR, "d = 2 ** math.ceil(math.log2(x_flat.size))", "d = 2 ** math.floor(math.log2(x_flat.size))",
  expect='R-SIB.rotation')
m('c18-tree-keys-reversed', 'C18', 'break', WH, 'inverse_structured_rotation_pytree',
  "rngs = jax.random.split(rng, len(leaves))", "rngs = jax.random.split(rng, len(leaves))[::-1]", expect='R-SIB.rotation')
m('c18-tree-same-key', 'C18', 'break', WH, 'structured_rotation_pytree', "leaf, shape = structured_rotation(l, r)",
  "leaf, shape = structured_rotation(l, rng)", expect='R-')
m('c18-tree-split-extra', 'C18', 'break', WH, 'inverse_structured_rotation_pytree', "rngs = jax.random.split(rng, len(leaves))",
  "rngs = jax.random.split(rng, len(leaves) + 1)", expect='R-SIB.rotation')
m('c18-twin-mul-rsqrt', 'C18', 'neutral', WH, SR,
  "return (walsh_hadamard_transform(w * rademacher) / jnp.sqrt(d), jnp.array(x.shape))",
  "return (walsh_hadamard_transform(w * rademacher) * (1 / jnp.sqrt(d)), jnp.array(x.shape))")
m('c18-twin-sign-order', 'C18', 'neutral', WH, ISR, "w = walsh_hadamard_transform(x) * rademacher / jnp.sqrt(x.size)",
  "w = rademacher * walsh_hadamard_transform(x) / jnp.sqrt(x.size)")

# ---------------------------------------------------------------- from seeded changes (see /verif/seeded)
m('seed-c07-skip-zero-weights', 'C07', 'break', AGG, 'mean_aggregator.apply',
  "params_and_weights = map(extract_params_and_weight, clients_params_and_weights)",
  "params_and_weights = ((param, weight) for _, param, weight in clients_params_and_weights if weight > 0)", expect='R-WMEAN.agg')
m('seed-c19-retry-swallows', 'C19', 'break', DL, 'maybe_download', "fo.write(r.raw.read(block_size))",
  "for _ in range(3):\n  try:\n    fo.write(r.raw.read(block_size))\n    break\n  except IOError as e:\n    log(f'retry {e!r}')",
  expect='R-ATOMIC.swallow')
m('seed-c19-retry-reraises-twin', 'C19', 'neutral', DL, 'maybe_download', "fo.write(r.raw.read(block_size))",
  "for _ in range(3):\n  try:\n    fo.write(r.raw.read(block_size))\n    break\n  except IOError as e:\n    log(f'retry {e!r}')\nelse:\n  raise IOError('download failed')")
m('seed-c19-stream-decompress-no-eof', 'C19', 'break', DL, 'maybe_lzma_decompress',
  "with lzma.open(path, 'rb') as fi:\n  with open(decompressed_path + '.partial', 'wb') as fo:\n    shutil.copyfileobj(fi, fo)",
  "decompressor = lzma.LZMADecompressor()\nwith open(path, 'rb') as fi:\n  with open(decompressed_path + '.partial', 'wb') as fo:\n    for block in iter(lambda: fi.read(1 << 20), b''):\n      fo.write(decompressor.decompress(block))",
  expect='R-ATOMIC.eof')
m('seed-c19-stream-decompress-eof-twin', 'C19', 'neutral', DL, 'maybe_lzma_decompress',
  "with lzma.open(path, 'rb') as fi:\n  with open(decompressed_path + '.partial', 'wb') as fo:\n    shutil.copyfileobj(fi, fo)",
  "decompressor = lzma.LZMADecompressor()\nwith open(path, 'rb') as fi:\n  with open(decompressed_path + '.partial', 'wb') as fo:\n    for block in iter(lambda: fi.read(1 << 20), b''):\n      fo.write(decompressor.decompress(block))\nif not decompressor.eof:\n  raise EOFError('truncated')")
m('seed-c07-twin-iter-first', 'C07', 'neutral', TU, 'tree_sum',
  "for pytree in pytrees:\n  if pytree_sum is None:\n    pytree_sum = jax.tree_util.tree_map(jnp.array, pytree)\n  else:\n    pytree_sum = _tree_add_eq(pytree_sum, pytree)",
  "for pytree in iter(pytrees):\n  if pytree_sum is None:\n    pytree_sum = jax.tree_util.tree_map(jnp.array, pytree)\n  else:\n    pytree_sum = _tree_add_eq(pytree_sum, pytree)")

m('seed-c01-replace-drops-opt-state', ['C01', 'C12'], 'break', FEDAVG, 'federated_averaging.server_update',
  "return ServerState(params, opt_state)", "return server_state.replace(params=params)", expect='R-SIB.state-carries')
m('seed-c01-replace-both-twin', ['C01', 'C12'], 'neutral', FEDAVG, 'federated_averaging.server_update',
  "return ServerState(params, opt_state)", "return server_state.replace(params=params, opt_state=opt_state)")
m('seed-c12-hyp-stale-opt-state', ['C12', 'C17'], 'break', HYP, 'hyp_cluster.apply', "opt_states.append(next_opt_state)",
  "opt_states.append(opt_state)", expect='R-HYP.carry')
m('seed-c12-mime-separate-key', 'C12', 'break', MIME, 'create_train_for_each_client.client_step',
  "client_control_variate = grad_fn(client_step_state['init_params'], batch, use_rng)",
  "client_control_variate = grad_fn(client_step_state['init_params'], batch, rng)", expect='R-')
m('seed-c08-truthy-bound', 'C08', 'break', FD, 'intersect_slice_ranges', "current_stop is not None", "current_stop", mode='expr',
  expect='R-SIB.none-test')
multi('seed-c08-shared-cursor', 'C08', 'break', [
    dict(file=SQL, func='SQLiteFederatedData.__init__', old="self._connection = connection",
         new="self._connection = connection\nself._read_cursor = connection.cursor()"),
    dict(file=SQL, func='SQLiteFederatedData._read_clients', mode='expr', old="self._connection.execute", new="self._read_cursor.execute"),
], expect='R-ORDER.cursor')
m('seed-c09-rename-inside-with', 'C09', 'break', SER, 'save_state',
  "with tf.io.gfile.GFile(tmp_path, 'wb') as f:\n  pickle.dump(state, f)",
  "with tf.io.gfile.GFile(tmp_path, 'wb') as f:\n  pickle.dump(state, f)\n  tf.io.gfile.rename(tmp_path, path, overwrite=True)",
  expect='R-ATOMIC') if False else None
multi('seed-c09-rename-inside-with', 'C09', 'break', [
    dict(file=SER, func='save_state', old="tf.io.gfile.rename(tmp_path, path, overwrite=True)", new="pass"),
    dict(file=SER, func='save_state', old="pickle.dump(state, f)", new="pickle.dump(state, f)\ntf.io.gfile.rename(tmp_path, path, overwrite=True)"),
], expect='R-ATOMIC', anywhere=True)
m('seed-c09-remove-only-oldest', 'C09', 'break', CKPT, 'save_checkpoint',
  "for path in remove_checkpoint_paths:\n  tf.io.gfile.remove(path)",
  "if len(remove_checkpoint_paths) > 0:\n  tf.io.gfile.remove(remove_checkpoint_paths[0])", expect='R-RETAIN')
m('seed-c11-replace-keeps-key', ['C11', 'C10'], 'break', COMP, 'uniform_stochastic_quantizer.apply',
  "new_state = CompressionState(aggregator_state.num_bits + new_bits, rng)",
  "new_state = aggregator_state.replace(num_bits=aggregator_state.num_bits + new_bits)", expect='R-KEY.K3')
m('seed-c11-replace-fresh-key-twin', ['C11', 'C10'], 'neutral', COMP, 'uniform_stochastic_quantizer.apply',
  "new_state = CompressionState(aggregator_state.num_bits + new_bits, rng)",
  "new_state = aggregator_state.replace(num_bits=aggregator_state.num_bits + new_bits, rng=rng)")
m('seed-c06-domain-mean-raw-div', ['C06', 'C17'], 'break', AGN, 'agnostic_federated_averaging.server_update',
  "mean_domain_loss = util.safe_div(sum_domain_loss, sum_domain_num)", "mean_domain_loss = sum_domain_loss / sum_domain_num",
  expect='R-DIV')
m('seed-c06-reg-grad-into-sum', ['C06', 'C12'], 'break', MIME, 'mime.apply',
  "server_grads = tree_util.tree_inverse_weight(grads_sum_total, num_sum_total)",
  "grads_sum_total = tree_util.tree_add(grads_sum_total, jax.grad(regularizer)(server_state.params))\nserver_grads = tree_util.tree_inverse_weight(grads_sum_total, num_sum_total)",
  expect='R-WMEAN.pair-sum')

_E[:] = [e for e in _E if e is not None]

# ---- second batch of seed-derived entries ----
TASKS = 'fedjax/training/tasks.py'
m('seed-c05-break-on-empty-batch', 'C05', 'break', MOD, 'evaluate_model',
  "stat = _evaluate_model_step(model, params, batch, stat)",
  "if not batch[next(iter(batch))].any():\n  break\nstat = _evaluate_model_step(model, params, batch, stat)", expect='R-STAT.loop')
m('seed-c05-skip-batch', 'C05', 'break', MOD, 'evaluate_model',
  "stat = _evaluate_model_step(model, params, batch, stat)",
  "if len(batch) > 1:\n  stat = _evaluate_model_step(model, params, batch, stat)", expect='R-STAT.loop')
m('seed-c20-table-fill-vocab-size', 'C20', 'break', DSH, '_build_look_up_table',
  "table = np.full([256], oov, dtype=np.int32)", "table = np.full([256], vocab_size, dtype=np.int32)", expect='R-CONST.table')
m('seed-c20-table-fill-twin', 'C20', 'neutral', DSH, '_build_look_up_table',
  "table = np.full([256], oov, dtype=np.int32)", "table = np.full([256], vocab_size - 1, dtype=np.int32)")
m('seed-c20-task-passes-dataset-vocab', 'C20', 'break', TASKS, 'get_task',
  "model = models.shakespeare.create_lstm_model()", "model = models.shakespeare.create_lstm_model(vocab_size=datasets.shakespeare.VOCAB_SIZE)",
  expect='R-CONST.task')
m('seed-c20-task-explicit-default-twin', 'C20', 'neutral', TASKS, 'get_task',
  "model = models.shakespeare.create_lstm_model()", "model = models.shakespeare.create_lstm_model(vocab_size=86)")
m('seed-c15-nocopy-any-non-iterator', 'C15', 'break', FD, 'RepeatableIterator.__init__',
  "any(isinstance(base, container) for container in (list, tuple, dict, str, bytes))", "not isinstance(base, Iterator)", mode='expr',
  expect='R-REPLAY.nocopy')
m('seed-c15-nocopy-collections-abc', 'C15', 'break', FD, 'RepeatableIterator.__init__',
  "any(isinstance(base, container) for container in (list, tuple, dict, str, bytes))", "isinstance(base, (list, tuple, dict, str, bytes, Iterable))",
  mode='expr', expect='R-REPLAY.nocopy')
m('seed-c15-nocopy-tuple-twin', 'C15', 'neutral', FD, 'RepeatableIterator.__init__',
  "any(isinstance(base, container) for container in (list, tuple, dict, str, bytes))", "isinstance(base, (list, tuple, dict, str, bytes, range))",
  mode='expr')
m('seed-c13-seed-truthiness', ['C13', 'C08'], 'break', FD, 'SubsetFederatedData.shuffled_clients',
  "rng = np.random.RandomState(seed)", "rng = np.random.RandomState(seed) if seed else np.random.RandomState()",
  expect={'C13': 'R-STREAM.seeded', 'C08': 'R-ORDER.shuffled'})
m('seed-c13-seed-or-default', ['C13', 'C08'], 'break', IMFD, 'InMemoryFederatedData.shuffled_clients',
  "rng = np.random.RandomState(seed)", "rng = np.random.RandomState(seed or None)", expect={'C13': 'R-STREAM.seeded', 'C08': 'R-ORDER.shuffled'})
multi('seed-c16-shared-cursor', ['C16', 'C08'], 'break', [
    dict(file=SQL, func='SQLiteFederatedData.__init__', old="self._connection = connection",
         new="self._connection = connection\nself._read_cursor = connection.cursor()"),
    dict(file=SQL, func='SQLiteFederatedData._read_clients', mode='expr', old="self._connection.execute", new="self._read_cursor.execute"),
], expect={'C16': 'R-PAIR.cursor', 'C08': 'R-ORDER.cursor'})
m('seed-c18-inverse-shortcut', 'C18', 'break', WH, 'inverse_structured_rotation',
  "rademacher = jax.random.rademacher(rng, x.shape)",
  "if x.size == 1:\n  return jnp.reshape(x, original_shape)\nrademacher = jax.random.rademacher(rng, x.shape)", expect='R-SIB.rotation.paths')
m('seed-c18-einsum-out-keeps-axis', 'C18', 'break', WH, 'walsh_hadamard_transform',
  "out_dims = y_dims.replace(str(i), str(num_dims + 1), 1)", "out_dims = y_dims", expect='R-SCHEDULE')
m('seed-c18-einsum-label-guard', 'C18', 'break', WH, 'walsh_hadamard_transform',
  "num_dims + 1 >= 10", "num_dims + 1 > 10", mode='expr', expect='R-SCHEDULE')
m('seed-c18-einsum-label-collides', 'C18', 'break', WH, 'walsh_hadamard_transform',
  "h_dims = f'{i}{num_dims + 1}'", "h_dims = f'{i}{num_dims - 1}'", expect='R-SCHEDULE')
m('seed-c18-einsum-h-transposed-twin', 'C18', 'neutral', WH, 'walsh_hadamard_transform',
  "h_dims = f'{i}{num_dims + 1}'", "h_dims = f'{num_dims + 1}{i}'")
m('seed-c18-tensordot-swapaxes', 'C18', 'break', WH, 'walsh_hadamard_transform',
  "y = jnp.einsum(operands, y, hadamards[d], precision=precision)",
  "y = jnp.tensordot(y, hadamards[d], axes=[[i], [0]], precision=precision)\ny = jnp.swapaxes(y, i, -1)", expect='R-SCHEDULE')
m('seed-c18-tensordot-moveaxis-twin', 'C18', 'neutral', WH, 'walsh_hadamard_transform',
  "y = jnp.einsum(operands, y, hadamards[d], precision=precision)",
  "y = jnp.tensordot(y, hadamards[d], axes=[[i], [0]], precision=precision)\ny = jnp.moveaxis(y, -1, i)")
m('c18-scale-pow-twin', 'C18', 'neutral', WH, SR,
  "return (walsh_hadamard_transform(w * rademacher) / jnp.sqrt(d), jnp.array(x.shape))",
  "return (walsh_hadamard_transform(w * rademacher) * d ** -0.5, jnp.array(x.shape))")
m('c18-scale-reciprocal-twin', 'C18', 'neutral', WH, ISR, "w = walsh_hadamard_transform(x) * rademacher / jnp.sqrt(x.size)",
  "w = rademacher * walsh_hadamard_transform(x) * (1 / jnp.sqrt(x.size))")
m('c18-forward-unscaled', 'C18', 'break', WH, SR,
  "return (walsh_hadamard_transform(w * rademacher) / jnp.sqrt(d), jnp.array(x.shape))",
  "return (walsh_hadamard_transform(w * rademacher), jnp.array(x.shape))", expect='R-SIB.rotation')

# ---- third batch: entries derived from round-2 seeded changes ----
SFL = 'fedjax/training/structured_flags.py'
m('seed2-c01-sgd-drops-nesterov', 'C01', 'break', OPT, 'sgd',
  "optax.sgd(learning_rate=learning_rate, momentum=momentum, nesterov=nesterov)", "optax.sgd(learning_rate=learning_rate, momentum=momentum)",
  mode='expr', expect='R-FORWARD.unused')
m('seed2-c01-del-param-twin', 'C09', 'neutral', EXP, 'ModelFullEvaluationFn.__call__', "del round_num", "del round_num\npass")
m('seed2-c02-padding-loses-dtype', 'C02', 'break', FEC, '_blockify',
  "padding_batch = jax.tree_util.tree_map(jnp.zeros_like, batch_template)",
  "padding_batch = jax.tree_util.tree_map(lambda x: jnp.zeros(jnp.shape(x)), batch_template)", expect='R-MASK.pad-dtype')
m('seed2-c02-padding-dtype-twin', 'C02', 'neutral', FEC, '_blockify',
  "padding_batch = jax.tree_util.tree_map(jnp.zeros_like, batch_template)",
  "padding_batch = jax.tree_util.tree_map(lambda x: jnp.zeros(jnp.shape(x), dtype=x.dtype), batch_template)")
multi('seed2-c02-template-hoisted', 'C02', 'break', [
    dict(file=FEC, func='_blockify', old="clients.sort(key=lambda x: len(x[1]), reverse=True)",
         new="clients.sort(key=lambda x: len(x[1]), reverse=True)\n_, _, client_input_template = clients[0]"),
], expect='R-EMPTY')
m('seed2-c15-stale-cursor', 'C15', 'break', CD, 'padded_batch_client_datasets',
  "if buf:\n  start = hparams.batch_size - buf_size\n  buf.append(slice_examples(examples, slice(start)))\n  yield attach_mask(preprocessor(concat_examples(buf)), full_mask)\n  buf.clear()\n  buf_size = 0\nelse:\n  start = 0",
  "if buf:\n  start = hparams.batch_size - buf_size\n  buf.append(slice_examples(examples, slice(start)))\n  yield attach_mask(preprocessor(concat_examples(buf)), full_mask)\n  buf.clear()\n  buf_size = 0",
  expect='R-CONSERVE.cursor')
m('seed2-c15-concat-skips-empty', 'C15', 'break', CD, 'concat_examples', "combined[k].append(v)", "if len(v):\n  combined[k].append(v)",
  expect='R-CONSERVE.concat')
m('seed2-c04-index-int16', 'C04', 'break', CD, 'ShuffleRepeatBatchView.__iter__',
  "indices = np.zeros((self._batch_size,), dtype=np.int32)", "indices = np.zeros((self._batch_size,), dtype=np.int16)", expect='R-PERM.dtype')
m('seed2-c04-index-int64-twin', 'C04', 'neutral', CD, 'ShuffleRepeatBatchView.__iter__',
  "indices = np.zeros((self._batch_size,), dtype=np.int32)", "indices = np.zeros((self._batch_size,), dtype=np.int64)")
m('seed2-c04-flag-or-none', 'C04', 'break', SFL, 'ShuffleRepeatBatchHParamsFlags.get',
  "self._get_flag('num_steps')", "self._get_flag('num_steps') or None", mode='expr', expect='R-FORWARD.flags')
m('seed2-c04-replace-filters-none', ['C04', 'C10'], 'break', DC, 'dataclass.replace',
  "return dataclasses.replace(self, **updates)",
  "updates = {k: v for k, v in updates.items() if v is not None}\nreturn dataclasses.replace(self, **updates)", expect='R-FORWARD.kwargs')
m('seed2-c06-agnostic-wires-regularizer', 'C06', 'break', AGN, 'agnostic_federated_averaging',
  "create_domain_metrics_for_each_client(per_example_loss, num_domains)", "create_domain_metrics_for_each_client(per_example_loss, num_domains, regularizer)",
  mode='expr', expect='R-REG.wire')
multi('seed2-c06-regularizer-before-mean', 'C06', 'break', [
    dict(file=MOD, func='grad.scalar_loss', old="if regularizer is not None:\n  loss += regularizer(params)", new="pass"),
    dict(file=MOD, func='grad.scalar_loss', old="batch_loss = per_example_loss(params, batch_example, rng)",
         new="batch_loss = per_example_loss(params, batch_example, rng)\nif regularizer is not None:\n  batch_loss += regularizer(params)"),
], expect='R-REG.reduce')
m('seed2-c06-evaluator-without-regularizer', 'C06', 'break', HYP, 'hyp_cluster',
  "models.AverageLossEvaluator(per_example_loss, regularizer)", "models.AverageLossEvaluator(per_example_loss)", mode='expr',
  expect='R-FORWARD.same-name')
m('seed2-c09-load-device-get', ['C09', 'C16'], 'break', SER, 'load_state', "return pickle.load(f)", "return jax.device_get(pickle.load(f))",
  expect={'C09': 'R-RESUME.pickle-raw', 'C16': 'R-PAIR.pickle-raw'})
m('seed2-c09-load-temp-twin', ['C09', 'C16'], 'neutral', SER, 'load_state', "return pickle.load(f)", "state = pickle.load(f)\nreturn state")
m('seed2-c09-final-eval-append', 'C09', 'break', EXP, 'run_federated_experiment', "tf.io.gfile.GFile(metrics_path, 'w')",
  "tf.io.gfile.GFile(metrics_path, 'a')", mode='expr', expect='R-RESUME.mode')
m('seed2-c09-sampler-keeps-state', ['C09', 'C13'], 'break', SAMP, 'UniformGetClientSampler.sample',
  "random_state = get_pseudo_random_state(self._seed, self._round_num)",
  "if getattr(self, '_rs', None) is None:\n  self._rs = get_pseudo_random_state(self._seed, self._round_num)\nrandom_state = self._rs", expect='R-')
m('seed2-c10-state-generator', 'C10', 'break', APFL, 'adaptive_personalized_federated_learning.server_update',
  "return ServerState(params, opt_state, client_states)", "return ServerState(params, opt_state, iter(client_states.items()))",
  expect='R-STATE.plain')
m('seed2-c05-finalize-raw-div', ['C05', 'C06'], 'break', MOD, '_finalize_average_loss',
  "util.safe_div(accum_loss, num_examples)", "accum_loss / num_examples", mode='expr', expect='R-DIV')
m('seed2-c01-steps-per-epoch', ['C01', 'C04'], 'break', CD, 'ShuffleRepeatBatchView.__init__',
  "self._data_size * hparams.num_epochs // hparams.batch_size", "self._data_size // hparams.batch_size * hparams.num_epochs", mode='expr',
  expect='R-SIZE.steps')

# ---- fourth batch: rules added for the second half of round 2 ----
FDM = 'fedjax/core/federated_data.py'
m('seed2-c15-seed-truthiness', 'C15', 'break', FDM, 'shuffle_repeat_batch_federated_data',
  "rng.randint(1 << 32)", "rng.randint(1 << 32) if seed else None", mode='expr', expect='R-FORWARD.none-test')
m('seed2-c15-kwargs-dropped', 'C15', 'break', FDM, 'padded_batch_federated_data',
  "client_datasets.padded_batch_client_datasets(datasets, hparams, **kwargs)", "client_datasets.padded_batch_client_datasets(datasets, hparams)",
  mode='expr', expect='R-FORWARD')
m('seed2-c17-clipnorm-truthiness', 'C17', 'break', MIMELITE, 'mime_lite.apply', "client_delta_clip_norm is not None", "client_delta_clip_norm",
  mode='expr', expect='R-')
m('seed2-c20-crop-swapped', 'C20', 'break', CIFAR, 'preprocess_batch_tff',
  "preprocess_image_tff(examples['x'], crop_height, crop_width, distort)", "preprocess_image_tff(examples['x'], crop_width, crop_height, distort)",
  mode='expr', expect='R-FORWARD.swapped')
m('seed2-c20-crop-keywords-twin', 'C20', 'neutral', CIFAR, 'preprocess_batch_tff',
  "preprocess_image_tff(examples['x'], crop_height, crop_width, distort)",
  "preprocess_image_tff(examples['x'], crop_width=crop_width, crop_height=crop_height, distort=distort)", mode='expr')
m('seed2-c20-reshape-not-transpose', 'C20', 'break', MSH, 'create_lstm_model.forward_pass',
  "output = jnp.transpose(output, axes=(1, 0, 2))", "output = jnp.reshape(output, (x.shape[1], x.shape[0], full_vocab_size))", expect='R-ROW.layout')
m('seed2-c20-swapaxes-twin', 'C20', 'neutral', MSH, 'create_lstm_model.forward_pass',
  "output = jnp.transpose(output, axes=(1, 0, 2))", "output = jnp.swapaxes(output, 0, 1)")
m('seed2-c20-vocab-one-short', 'C20', 'break', DSO, 'StackoverflowTokenizer.__init__',
  "vocab = default_vocab(default_vocab_size)", "vocab = default_vocab(default_vocab_size - num_oov_buckets)", expect='R-CONST.vocab')
m('seed2-c14-log-of-softmax', 'C14', 'break', MET, 'unreduced_cross_entropy_loss',
  "log_preds = jax.nn.log_softmax(preds)", "log_preds = jnp.log(jax.nn.softmax(preds))", expect='R-XENT.stable')
m('seed2-c14-logsumexp-twin', 'C14', 'neutral', MET, 'unreduced_cross_entropy_loss',
  "log_preds = jax.nn.log_softmax(preds)", "log_preds = preds - jax.scipy.special.logsumexp(preds, axis=-1, keepdims=True)")
multi('seed2-c16-commit-in-exit', 'C16', 'break', [
    dict(file=SQL, func='SQLiteFederatedDataBuilder.add_many', old="self._connection.commit()", new="pass"),
    dict(file=SQL, func='SQLiteFederatedDataBuilder.__exit__', old="self._connection.close()", new="self._connection.commit()\nself._connection.close()"),
], expect='R-PAIR.commit')
m('seed2-c17-eval-setdefault', ['C17', 'C10'], 'break', APFL, 'eval_adaptive_personalized_federated_learning.__fn',
  "server_state.client_states.get(cid, client_default_state)", "server_state.client_states.setdefault(cid, client_default_state)", mode='expr',
  expect={'C17': 'R-PARTICIPANT.table', 'C10': 'R-PURE'})
multi('seed2-c18-shape-cache', ['C18', 'C10'], 'break', [
    dict(file=WH, func='structured_rotation_pytree', old="rngs = jax.random.split(rng, len(leaves))",
         new="global _SHAPE_CACHE\nrngs = jax.random.split(rng, len(leaves))\n_SHAPE_CACHE = len(leaves)"),
], expect={'C18': 'R-PURE', 'C10': 'R-PURE'})
m('seed2-c11-mean-clamped-weight', ['C11', 'C07'], 'break', TU, '_tree_inverse_weight_eq',
  "1.0 / weight if weight > 0.0 else 0.0", "1.0 / max(weight, 1.0)", mode='expr', expect='R-DIV')
m('seed2-c13-unsorted-ids', ['C13', 'C08'], 'break', IMFD, 'InMemoryFederatedData.__init__',
  "sorted(self._client_to_data_mapping.keys())", "list(self._client_to_data_mapping.keys())", mode='expr',
  expect={'C13': 'R-STREAM.sorted', 'C08': 'R-ORDER.sorted'})

# ---- fifth batch: rules added for round 3 ----
DL_ = 'fedjax/datasets/downloads.py'
m('seed3-c01-adam-eps-swapped', 'C01', 'break', OPT, 'adam',
  "optax.adam(learning_rate=learning_rate, b1=b1, b2=b2, eps=eps, eps_root=eps_root)", "optax.adam(learning_rate, b1, b2, eps_root, eps)",
  mode='expr', expect='R-FORWARD.swapped')
m('seed3-c01-adam-positional-twin', 'C01', 'neutral', OPT, 'adam',
  "optax.adam(learning_rate=learning_rate, b1=b1, b2=b2, eps=eps, eps_root=eps_root)", "optax.adam(learning_rate, b1, b2, eps, eps_root)",
  mode='expr')
m('seed3-c02-sort-conditional', 'C02', 'break', FEC, '_blockify',
  "clients.sort(key=lambda x: len(x[1]), reverse=True)", "if len(clients) > block_size:\n  clients.sort(key=lambda x: len(x[1]), reverse=True)",
  expect='R-MASK.blockify-max')
m('seed3-c02-set-none-returns', 'C02', 'break', FEC, 'set_for_each_client_backend',
  "if backend is None or isinstance(backend, ForEachClientBackend):\n  _BACKEND_CHOICE.backend = backend",
  "if backend is None:\n  return\nif isinstance(backend, ForEachClientBackend):\n  _BACKEND_CHOICE.backend = backend", expect='R-SCOPE.set',
  anywhere=True) if False else None
m('seed3-c02-copy-by-add', 'C02', 'break', FEC, JIT + '.jit_client_init',
  "jax.tree_util.tree_map(jnp.copy, state)", "jax.tree_util.tree_map(lambda x: x + 0, state)",
  mode='expr', expect='R-COPY')
m('seed3-c03-size-cached', 'C03', 'break', CD, 'ClientDataset.__len__', "return num_examples(self.raw_examples, validate=False)", "return self._size",
  expect='R-SIB.size')
m('seed3-c03-batch-size-clamped', 'C03', 'break', CD, 'PaddedBatchView.__init__',
  "self._batch_size = hparams.batch_size", "self._batch_size = hparams.batch_size\nif 0 < self._data_size < self._batch_size:\n  self._batch_size = self._data_size",
  expect='R-SIB.fields')
m('seed3-c04-replace-discarded', 'C04', 'break', CD, 'ClientDataset.shuffle_repeat_batch',
  "hparams = hparams.replace(**kwargs)", "hparams.replace(**kwargs)", expect='R-DISCARD')
m('seed3-c05-sumstat-axis-none', 'C05', 'break', MET, 'SumStat.reduce', "return SumStat.new(jnp.sum(self.accum, axis=axis))",
  "return SumStat.new(jnp.sum(self.accum, axis=axis))", expect='R-OVERRIDE') if False else None
m('seed3-c06-count-clamped', ['C06', 'C12'], 'break', MIME, 'create_grads_for_each_client.client_final',
  "client_output = (client_step_state['grads_sum'], client_step_state['num_sum'])",
  "client_output = (client_step_state['grads_sum'], jnp.maximum(client_step_state['num_sum'], 1.))", expect={'C06': 'R-WMEAN.pair-final', 'C12': 'R-'})
m('seed3-c07-int-weight-total', 'C07', 'break', TU, 'tree_mean', "sum_weight = 0.", "sum_weight = 0", expect='R-WMEAN.init')
m('seed3-c07-validate-consumes', 'C07', 'break', AGG, 'mean_aggregator.apply',
  "def extract_params_and_weight(client_params_and_weight):",
  "def extract_params_and_weight(client_params_and_weight):", expect='R-ONEPASS') if False else None
m('seed3-c08-validate-before-set', ['C08', 'C13'], 'break', FD, 'SubsetFederatedData.__init__',
  "if not isinstance(client_ids, set):\n  client_ids = set(client_ids)",
  "if validate and not isinstance(client_ids, set):\n  client_ids = set(client_ids)", expect='R-')
m('seed3-c09-loader-raw-glob', 'C09', 'break', CKPT, 'load_latest_checkpoint',
  "all_checkpoint_paths = _get_checkpoint_paths(base_path)", "all_checkpoint_paths = sorted(tf.io.gfile.glob(base_path + '*'))", expect='R-PAIR.listing')
m('seed3-c09-early-return', 'C09', 'break', EXP, 'run_federated_experiment',
  "client_sampler.set_round_num(start_round_num)", "client_sampler.set_round_num(start_round_num)\nif start_round_num > config.num_rounds:\n  return state",
  expect='R-ORDER.final-eval')
m('seed3-c09-conditional-temp', 'C09', 'break', SER, 'save_state', "tmp_path = path + '.tmp'",
  "tmp_path = path + '.tmp' if tf.io.gfile.exists(path) else path", expect='R-ATOMIC')
m('seed3-c10-hash-keyed', 'C10', 'break', COMP, 'rotated_uniform_stochastic_quantizer.apply', "rng, use_rng = jax.random.split(rng)",
  "rng, use_rng = jax.random.split(rng)\nuse_rng = jax.random.fold_in(use_rng, hash(bytes(1)) % 7)", expect='R-NONDET')
m('seed3-c11-num-leaves-toplevel', 'C11', 'break', COMP, 'num_leaves', "return len(jax.tree_util.tree_leaves(pytree))", "return len(pytree)",
  expect='R-PAIR.leaves')
m('seed3-c14-truncation-last-token', 'C14', 'break', MET, 'SequenceTruncationRate.evaluate_example',
  "target_is_truncated = jnp.all(target != self.eos_target_value)", "target_is_truncated = target[-1] != self.eos_target_value",
  expect='R-FOLD.truncated')
m('seed3-c15-skip-empty-before-checks', 'C15', 'break', CD, 'buffered_shuffle_batch_client_datasets.gen_items',
  "if preprocessor is None:\n  preprocessor = dataset.preprocessor\n  yield preprocessor\nelif dataset.preprocessor is not preprocessor:\n  raise ValueError(f'client_datasets should have the identical Preprocessor object, got {preprocessor} vs {dataset.preprocessor}')",
  "pass", expect='R-ERR') if False else None
m('seed3-c16-loader-device-put', ['C16', 'C09'], 'break', CKPT, 'load_latest_checkpoint',
  "latest_state = serialization.load_state(latest_checkpoint_path)", "latest_state = list(serialization.load_state(latest_checkpoint_path))",
  expect={'C16': 'R-PAIR.checkpoint-raw', 'C09': 'R-RESUME.state-raw'})
m('seed3-c17-one-sided-validation', 'C17', 'break', AGN, 'agnostic_federated_averaging',
  "abs(sum(init_domain_weights) - 1) > 1e-06", "sum(init_domain_weights) > 1 + 1e-06", mode='expr', expect='R-SIMPLEX.init')
m('seed3-c18-transform-donates', 'C18', 'break', WH, 'structured_rotation',
  "rademacher = jax.random.rademacher(rng, w.shape)", "rademacher = jax.jit(lambda k: jax.random.rademacher(k, w.shape), donate_argnums=0)(rng)",
  expect='R-DONATE')
m('seed3-c18-shape-index', 'C18', 'break', WH, 'walsh_hadamard_transform',
  "hadamards = dict(((d, hadamard_matrix(d, x.dtype)) for d in set(shape)))", "hadamards = dict(((d, hadamard_matrix(d, x.dtype)) for d in (shape[0], shape[-1])))",
  expect='R-EMPTY')
m('seed3-c19-length-default', 'C19', 'break', DL_, 'maybe_download', "r.headers['content-length']", "r.headers.get('content-length', 0)", mode='expr',
  expect='R-ATOMIC.length')
m('seed3-c19-no-status-check', 'C19', 'break', DL_, 'maybe_download', "r.raise_for_status()", "pass", expect='R-ATOMIC.status')
m('seed3-c19-status-explicit-twin', 'C19', 'neutral', DL_, 'maybe_download', "r.raise_for_status()",
  "if r.status_code != 200:\n  raise IOError(f'HTTP {r.status_code}')")
m('seed3-c19-reuse-nonempty-only', 'C19', 'break', DL_, 'maybe_lzma_decompress', "os.path.exists(decompressed_path)",
  "os.path.exists(decompressed_path) and os.path.getsize(decompressed_path)", mode='expr', expect='R-ATOMIC.reuse')
m('seed3-c20-num-tokens-masks-eos', 'C20', 'break', MSO, 'create_lstm_model',
  "metrics.SequenceTokenCount(masked_target_values=(pad,))", "metrics.SequenceTokenCount(masked_target_values=(pad, eos))", mode='expr',
  expect='R-SIB.metrics')
m('seed3-c20-pixels-before-crop', 'C20', 'break', CIFAR, 'preprocess_image_tff',
  "num_pixels = np.prod(image.shape[-3:], dtype=np.float32)", "num_pixels = np.float32(32 * 32 * 3)", expect='R-SIB.tf')
