"""Whole-repo neutral transformations: behaviour preserving rewrites of every unit.

  reformat      every module is rewritten by ast.unparse (formatting, comments and docstring layout change)
  rename-locals every local variable (not parameters, not names shared with nested scopes through global/nonlocal)
                of every function is renamed consistently (scope aware), including its uses in nested closures
  reorder-defs  (not implemented)

usage: python -m fjsa.selftest.neutral [reformat|rename-locals] [C01 ...]
Each check must stay silent (exit 0) on the transformed copy.
"""
from __future__ import annotations

import ast
import os
import shutil
import subprocess
import sys
import tempfile
from typing import Dict, List, Set

from fjsa.model import Module, Repo, Scope
from fjsa.selftest.harness import copy_tree, _scratch_base

VERIF = os.path.dirname(os.path.dirname(os.path.dirname(os.path.abspath(__file__))))


def reformat(src: str) -> str:
  return ast.unparse(ast.parse(src)) + '\n'


def rename_locals(module: Module, suffix: str = '_rn') -> str:
  """Scope-aware renaming of function-local variables."""
  ren: Dict[int, str] = {}  # id(Name node) -> new name
  arg_ren: Dict[int, str] = {}

  def visit_scope(sc: Scope):
    for c in sc.children:
      visit_scope(c)
    if sc.kind != 'function':
      return
    for name, bs in sc.bindings.items():
      kinds = {b.kind for b in bs}
      if 'param' in kinds or kinds & {'import-module', 'import-symbol', 'def', 'class', 'global', 'nonlocal'}:
        continue
      if name in sc.globals_declared or name in sc.nonlocals_declared or name.startswith('__'):
        continue
      if name == '_':
        continue
      targets[(id(sc), name)] = name + suffix

  targets: Dict = {}
  visit_scope(module.scope)
  if not targets:
    return ast.unparse(module.tree) + '\n'

  # resolve every Name node to its binding scope
  class R(ast.NodeTransformer):

    def __init__(self):
      self.stack: List[Scope] = [module.scope]

    def _scope_for(self, node):
      return module.scope_of_node.get(node)

    def generic_visit(self, node):
      sc = module.scope_of_node.get(node)
      pushed = False
      if sc is not None and sc is not self.stack[-1] and node is not module.tree:
        # decorators / defaults / first comprehension iterable are evaluated outside: handled approximately by
        # resolving names through lookup from the *inner* scope, which finds outer bindings anyway
        self.stack.append(sc)
        pushed = True
      out = super().generic_visit(node)
      if pushed:
        self.stack.pop()
      return out

    def visit_Name(self, node):
      cur = self.stack[-1]
      b = cur.lookup_scope(node.id)
      if b is not None and (id(b), node.id) in targets:
        return ast.copy_location(ast.Name(id=targets[(id(b), node.id)], ctx=node.ctx), node)
      return node

    def visit_ExceptHandler(self, node):
      cur = self.stack[-1]
      if node.name:
        b = cur.lookup_scope(node.name)
        if b is not None and (id(b), node.name) in targets:
          node.name = targets[(id(b), node.name)]
      return self.generic_visit(node)

    def visit_Global(self, node):
      return node

  tree = ast.parse(module.src)
  # rebuild the model on a fresh tree so that node identities match
  fresh = Module(module.name, module.path, module.relpath, module.src)
  module = fresh
  targets.clear()
  visit_scope(module.scope)
  tr = R()
  new = tr.visit(module.tree)
  ast.fix_missing_locations(new)
  return ast.unparse(new) + '\n'


class _AugExpand(ast.NodeTransformer):
  """x += e  ->  x = x + e  for plain names and numeric-looking right-hand sides (never list displays: list += mutates in place)."""
  OPS = (ast.Add, ast.Sub, ast.Mult)

  def visit_AugAssign(self, node):
    if isinstance(node.target, ast.Name) and isinstance(node.op, self.OPS) and not isinstance(node.value, (ast.List, ast.ListComp, ast.Tuple, ast.Call)):
      load = ast.Name(id=node.target.id, ctx=ast.Load())
      return ast.copy_location(ast.Assign(targets=[node.target], value=ast.BinOp(left=load, op=node.op, right=node.value)), node)
    return node


class _Noise(ast.NodeTransformer):
  """A no-op statement at the start of every function body and of every loop body."""

  def _fn(self, node):
    self.generic_visit(node)
    i = 1 if (node.body and isinstance(node.body[0], ast.Expr) and isinstance(node.body[0].value, ast.Constant) and isinstance(node.body[0].value.value, str)) else 0
    node.body.insert(i, ast.parse('_fjsa_noise = None').body[0])
    return node
  visit_FunctionDef = _fn

  def visit_For(self, node):
    self.generic_visit(node)
    node.body.insert(0, ast.Pass())
    return node
  visit_While = visit_For


class _TempReturn(ast.NodeTransformer):
  """return <call>  ->  _fjsa_ret = <call>; return _fjsa_ret  (not inside lambdas / generators' bare returns)."""

  def visit_Lambda(self, node):
    return node

  def _body(self, stmts):
    out = []
    for st in stmts:
      if isinstance(st, ast.Return) and isinstance(st.value, ast.Call):
        out.append(ast.copy_location(ast.Assign(targets=[ast.Name(id='_fjsa_ret', ctx=ast.Store())], value=st.value), st))
        out.append(ast.copy_location(ast.Return(value=ast.Name(id='_fjsa_ret', ctx=ast.Load())), st))
      else:
        out.append(st)
    return out

  def generic_visit(self, node):
    super().generic_visit(node)
    for f in ('body', 'orelse', 'finalbody'):
      v = getattr(node, f, None)
      if isinstance(v, list) and v and isinstance(v[0], ast.stmt):
        setattr(node, f, self._body(v))
    return node


class _KwReverse(ast.NodeTransformer):

  def visit_Call(self, node):
    self.generic_visit(node)
    if len(node.keywords) > 1 and all(k.arg for k in node.keywords):
      node.keywords = list(reversed(node.keywords))
    return node


class _IfNot(ast.NodeTransformer):
  """if c: A else: B  ->  if not c: B else: A  (plain else only, no elif chains)."""

  def visit_If(self, node):
    self.generic_visit(node)
    if node.orelse and not (len(node.orelse) == 1 and isinstance(node.orelse[0], ast.If)):
      node.test = ast.UnaryOp(op=ast.Not(), operand=node.test)
      node.body, node.orelse = node.orelse, node.body
    return node

  def visit_IfExp(self, node):
    self.generic_visit(node)
    node.test = ast.UnaryOp(op=ast.Not(), operand=node.test)
    node.body, node.orelse = node.orelse, node.body
    return node


class _CmpFlip(ast.NodeTransformer):
  FLIP = {ast.Lt: ast.Gt, ast.Gt: ast.Lt, ast.LtE: ast.GtE, ast.GtE: ast.LtE}

  def visit_Compare(self, node):
    self.generic_visit(node)
    if len(node.ops) == 1 and type(node.ops[0]) in self.FLIP:
      return ast.copy_location(ast.Compare(left=node.comparators[0], ops=[self.FLIP[type(node.ops[0])]()], comparators=[node.left]), node)
    return node


class _MulSwap(ast.NodeTransformer):
  """a * b -> b * a (numeric products; never string / sequence repetition)."""

  def visit_BinOp(self, node):
    self.generic_visit(node)
    seq = (ast.List, ast.Tuple, ast.JoinedStr, ast.ListComp)
    def strish(e):
      return isinstance(e, seq) or (isinstance(e, ast.Constant) and isinstance(e.value, (str, bytes)))
    if isinstance(node.op, ast.Mult) and not strish(node.left) and not strish(node.right):
      node.left, node.right = node.right, node.left
    return node


class _ElseReturn(ast.NodeTransformer):
  """if c: ...return/raise/continue   rest...   ->   if c: ... else: rest...   (last if of a block, no else yet)."""

  def generic_visit(self, node):
    super().generic_visit(node)
    for f in ('body', 'orelse', 'finalbody'):
      v = getattr(node, f, None)
      if isinstance(v, list) and v and isinstance(v[0], ast.stmt):
        for i, st in enumerate(v[:-1]):
          if isinstance(st, ast.If) and not st.orelse and isinstance(st.body[-1], (ast.Return, ast.Raise, ast.Continue)) and not any(
              isinstance(x, (ast.FunctionDef, ast.ClassDef)) for x in v[i + 1:]):
            if isinstance(st.body[-1], ast.Continue) and not isinstance(node, (ast.For, ast.While)):
              continue
            st.orelse = v[i + 1:]
            del v[i + 1:]
            break
    return node


def kwify(module: Module, repo: Repo) -> str:
  """Positional arguments of calls that resolve to repository functions become keyword arguments."""
  from fjsa.flow import FuncFlow
  edits = []
  for fi in module.functions():
    try:
      ff = FuncFlow.of(repo, fi)
    except Exception:  # pylint: disable=broad-except
      continue
    for _, c in ff.calls():
      if not c.args or any(isinstance(a, ast.Starred) for a in c.args):
        continue
      r = ff.callee(c)
      if r.kind != 'func' or r.bound_args or r.wrappers:
        continue
      g = r.func
      if not isinstance(g.node, (ast.FunctionDef, ast.AsyncFunctionDef)) or g.node.args.posonlyargs or g.node.args.vararg:
        continue
      pos = list(g.positional_params)
      if pos and pos[0] in ('self', 'cls'):
        continue
      if len(c.args) > len(pos):
        continue
      edits.append((c, pos))
  for c, pos in edits:
    if not c.args:
      continue
    new_kw = [ast.keyword(arg=p, value=a) for p, a in zip(pos, c.args)]
    c.keywords = new_kw + c.keywords
    c.args = []
  ast.fix_missing_locations(module.tree)
  return ast.unparse(module.tree) + '\n'


def alias_rename(module: Module, suffix: str = '_m') -> str:
  """Module-level import aliases are renamed (from a import b -> from a import b as b_m) with all their uses."""
  if module.relpath.endswith('__init__.py'):
    return module.src
  fresh = Module(module.name, module.path, module.relpath, module.src)
  names = {}
  for name, bs in fresh.scope.bindings.items():
    if all(b.kind in ('import-module', 'import-symbol') for b in bs) and '.' not in name and not name.startswith('_'):
      names[name] = name + suffix
  # `import a.b.c` binds `a`: leave those alone
  for st in fresh.tree.body:
    if isinstance(st, ast.Import):
      for al in st.names:
        if al.asname is None:
          names.pop(al.name.split('.')[0], None)
  if not names:
    return module.src

  class R(ast.NodeTransformer):

    def __init__(self):
      self.stack = [fresh.scope]

    def generic_visit(self, node):
      sc = fresh.scope_of_node.get(node)
      pushed = False
      if sc is not None and sc is not self.stack[-1] and node is not fresh.tree:
        self.stack.append(sc)
        pushed = True
      out = super().generic_visit(node)
      if pushed:
        self.stack.pop()
      return out

    def visit_Name(self, node):
      if node.id in names and self.stack[-1].lookup_scope(node.id) is fresh.scope:
        return ast.copy_location(ast.Name(id=names[node.id], ctx=node.ctx), node)
      return node

    def visit_ImportFrom(self, node):
      if fresh.scope_of_node.get(node) in (None, fresh.scope) and self.stack[-1] is fresh.scope:
        for al in node.names:
          bound = al.asname or al.name
          if bound in names:
            al.asname = names[bound]
      return node

    def visit_Import(self, node):
      if self.stack[-1] is fresh.scope:
        for al in node.names:
          bound = al.asname or al.name
          if al.asname and bound in names:
            al.asname = names[bound]
      return node

  new = R().visit(fresh.tree)
  ast.fix_missing_locations(new)
  return ast.unparse(new) + '\n'


SIMPLE = {'mul-swap': _MulSwap, 'else-return': _ElseReturn, 'aug-expand': _AugExpand, 'noise': _Noise, 'temp-return': _TempReturn, 'kw-reverse': _KwReverse, 'if-not': _IfNot,
          'cmp-flip': _CmpFlip}
KINDS = ['reformat', 'rename-locals', 'alias-rename', 'kwify'] + sorted(SIMPLE)


def transform_repo(kind: str, repo_root: str, dst: str):
  copy_tree(repo_root, dst)
  from fjsa import canon
  canon.LEVEL = 0   # the transformations work on the program as written, not on its canonical form
  repo = Repo(dst)
  for m in repo.modules.values():
    if kind == 'reformat':
      new = reformat(m.src)
    elif kind == 'rename-locals':
      new = rename_locals(m)
    elif kind == 'alias-rename':
      new = alias_rename(m)
    elif kind == 'kwify':
      new = kwify(m, repo)
    elif kind in SIMPLE:
      tree = SIMPLE[kind]().visit(ast.parse(m.src))
      ast.fix_missing_locations(tree)
      new = ast.unparse(tree) + '\n'
    else:
      raise ValueError(kind)
    compile(new, m.path, 'exec')
    with open(m.path, 'w', encoding='utf-8') as f:
      f.write(new)


def _one_kind(args):
  kind, prop, repo_root = args
  from fjsa import canon
  from fjsa.cli import run_property
  from fjsa import report
  scratch = tempfile.mkdtemp(prefix='fjsa-neutral-', dir=_scratch_base())
  try:
    lvl = canon.LEVEL
    try:
      transform_repo(kind, repo_root, scratch)
    finally:
      canon.LEVEL = lvl
    check, _ = run_property(prop, 'quick', scratch)
    known = report.load_known_findings()
    viol = [o for o in check.obs if o.status == 'violation' and not o.advisory and not any(report.finding_matches(e, prop, o) for e in known)]
    inc = [o for o in check.obs if o.status == 'inconclusive']
    if viol:
      return kind, 'false-alarm', viol[0].brief()[:200]
    if inc or check.errors:
      return kind, 'false-inconclusive', (check.errors + [o.brief() for o in inc])[0][:200]
    return kind, 'silent', ''
  except Exception as e:  # pylint: disable=broad-except
    return kind, 'error', f'{type(e).__name__}: {e}'[:200]
  finally:
    shutil.rmtree(scratch, ignore_errors=True)


def run_for_property(prop: str, repo_root: str, jobs: int = 16):
  """All whole-repo neutral transformations against one property (used by the thorough tier)."""
  import concurrent.futures
  tasks = [(k, prop, repo_root) for k in KINDS]
  try:
    with concurrent.futures.ProcessPoolExecutor(max_workers=min(jobs, len(tasks))) as ex:
      res = list(ex.map(_one_kind, tasks))
  except Exception:  # pylint: disable=broad-except
    res = [_one_kind(t) for t in tasks]
  return res


def main():
  kind = sys.argv[1] if len(sys.argv) > 1 else 'reformat'
  props = sys.argv[2:] or [f'C{i:02d}' for i in range(1, 21)]
  if kind == 'all':
    rc = 0
    for k in KINDS:
      rc |= subprocess.run([sys.executable, '-W', 'ignore', '-m', 'fjsa.selftest.neutral', k] + sys.argv[2:], cwd=VERIF).returncode
    sys.exit(rc)
  scratch = tempfile.mkdtemp(prefix='fjsa-neutral-', dir=_scratch_base())
  bad = 0
  try:
    transform_repo(kind, os.environ.get('FJSA_BASE_REPO', '/repo'), scratch)
    ev = os.path.join(scratch, '_ev')
    for p in props:
      c = subprocess.run([os.path.join(VERIF, 'check'), p, '--repo', scratch, '--evidence-dir', ev], capture_output=True, text=True)
      status = 'silent' if c.returncode == 0 else f'EXIT {c.returncode}'
      print(f'{kind:14s} {p}: {status}')
      if c.returncode != 0:
        bad += 1
        for l in c.stdout.splitlines():
          if l.startswith(('VIOLATION', 'ANALYSIS', '  R-')):
            print('    ' + l[:260])
  finally:
    if os.environ.get('FJSA_KEEP'):
      print('kept', scratch)
    else:
      shutil.rmtree(scratch, ignore_errors=True)
  sys.exit(1 if bad else 0)


if __name__ == '__main__':
  main()
