"""Whole-repo neutral transformations: behaviour preserving rewrites of every unit.

  reformat      every module is rewritten by ast.unparse (formatting, comments and docstring layout change)
  rename-locals every local variable (not parameters, not names shared with nested scopes through global/nonlocal)
                of every function is renamed consistently (scope aware), including its uses in nested closures
  reorder-defs  (not implemented)

usage: python -m fjsa.selftest.neutral [reformat|rename-locals] [C01 ...]
Each check must stay silent (exit 0) on the transformed copy.
"""
from __future__ import annotations

import ast
import os
import shutil
import subprocess
import sys
import tempfile
from typing import Dict, List, Set

from fjsa.model import Module, Repo, Scope
from fjsa.selftest.harness import copy_tree, _scratch_base

VERIF = os.path.dirname(os.path.dirname(os.path.dirname(os.path.abspath(__file__))))


def reformat(src: str) -> str:
  return ast.unparse(ast.parse(src)) + '\n'


def rename_locals(module: Module, suffix: str = '_rn') -> str:
  """Scope-aware renaming of function-local variables."""
  ren: Dict[int, str] = {}  # id(Name node) -> new name
  arg_ren: Dict[int, str] = {}

  def visit_scope(sc: Scope):
    for c in sc.children:
      visit_scope(c)
    if sc.kind != 'function':
      return
    for name, bs in sc.bindings.items():
      kinds = {b.kind for b in bs}
      if 'param' in kinds or kinds & {'import-module', 'import-symbol', 'def', 'class', 'global', 'nonlocal'}:
        continue
      if name in sc.globals_declared or name in sc.nonlocals_declared or name.startswith('__'):
        continue
      if name == '_':
        continue
      targets[(id(sc), name)] = name + suffix

  targets: Dict = {}
  visit_scope(module.scope)
  if not targets:
    return ast.unparse(module.tree) + '\n'

  # resolve every Name node to its binding scope
  class R(ast.NodeTransformer):

    def __init__(self):
      self.stack: List[Scope] = [module.scope]

    def _scope_for(self, node):
      return module.scope_of_node.get(node)

    def generic_visit(self, node):
      sc = module.scope_of_node.get(node)
      pushed = False
      if sc is not None and sc is not self.stack[-1] and node is not module.tree:
        # decorators / defaults / first comprehension iterable are evaluated outside: handled approximately by
        # resolving names through lookup from the *inner* scope, which finds outer bindings anyway
        self.stack.append(sc)
        pushed = True
      out = super().generic_visit(node)
      if pushed:
        self.stack.pop()
      return out

    def visit_Name(self, node):
      cur = self.stack[-1]
      b = cur.lookup_scope(node.id)
      if b is not None and (id(b), node.id) in targets:
        return ast.copy_location(ast.Name(id=targets[(id(b), node.id)], ctx=node.ctx), node)
      return node

    def visit_ExceptHandler(self, node):
      cur = self.stack[-1]
      if node.name:
        b = cur.lookup_scope(node.name)
        if b is not None and (id(b), node.name) in targets:
          node.name = targets[(id(b), node.name)]
      return self.generic_visit(node)

    def visit_Global(self, node):
      return node

  tree = ast.parse(module.src)
  # rebuild the model on a fresh tree so that node identities match
  fresh = Module(module.name, module.path, module.relpath, module.src)
  module = fresh
  targets.clear()
  visit_scope(module.scope)
  tr = R()
  new = tr.visit(module.tree)
  ast.fix_missing_locations(new)
  return ast.unparse(new) + '\n'


def transform_repo(kind: str, repo_root: str, dst: str):
  copy_tree(repo_root, dst)
  repo = Repo(dst)
  for m in repo.modules.values():
    if kind == 'reformat':
      new = reformat(m.src)
    elif kind == 'rename-locals':
      new = rename_locals(m)
    else:
      raise ValueError(kind)
    compile(new, m.path, 'exec')
    with open(m.path, 'w', encoding='utf-8') as f:
      f.write(new)


def main():
  kind = sys.argv[1] if len(sys.argv) > 1 else 'reformat'
  props = sys.argv[2:] or [f'C{i:02d}' for i in range(1, 21)]
  scratch = tempfile.mkdtemp(prefix='fjsa-neutral-', dir=_scratch_base())
  bad = 0
  try:
    transform_repo(kind, os.environ.get('FJSA_BASE_REPO', '/repo'), scratch)
    ev = os.path.join(scratch, '_ev')
    for p in props:
      c = subprocess.run([os.path.join(VERIF, 'check'), p, '--repo', scratch, '--evidence-dir', ev], capture_output=True, text=True)
      status = 'silent' if c.returncode == 0 else f'EXIT {c.returncode}'
      print(f'{kind:14s} {p}: {status}')
      if c.returncode != 0:
        bad += 1
        for l in c.stdout.splitlines():
          if l.startswith(('VIOLATION', 'ANALYSIS', '  R-')):
            print('    ' + l[:260])
  finally:
    if os.environ.get('FJSA_KEEP'):
      print('kept', scratch)
    else:
      shutil.rmtree(scratch, ignore_errors=True)
  sys.exit(1 if bad else 0)


if __name__ == '__main__':
  main()
