"""C9 of the canonical form: helper functions the rules do not know are inlined at their call sites.

A maintainer who moves a few statements into a new private helper (or a local closure) does not change behaviour; the rules
are written against the functions of the pinned tree (table fjsa/known_defs.json = the def names per module the rules may
refer to), so any *other* function defined in the same module - module level, method of the same class or local closure -
that is called directly by name is substituted back into its caller before anything else looks at the tree:

    t = _helper(a, b)       ->   p__i1 = a ; q__i1 = b ; <body with locals renamed ...__i1> ; t = <returned expression>

Supported bodies: straight-line code whose returns are a final `return e` and/or guard clauses `if c: ...; return e` (turned
into if/else); loops without `return` inside; `raise` anywhere. Not inlined: generators, decorated functions, recursive
functions, functions with nested defs that capture renamed locals in ways we do not track, varargs calls, functions defined
in other modules. The helper definition itself stays where it is.
"""
from __future__ import annotations

import ast
import copy
import json
import os
from typing import Dict, List, Optional, Set

_KNOWN: Optional[Dict[str, Set[str]]] = None


def known_defs(relpath: str) -> Optional[Set[str]]:
  global _KNOWN
  if _KNOWN is None:
    p = os.path.join(os.path.dirname(os.path.abspath(__file__)), 'known_defs.json')
    try:
      _KNOWN = {k: set(v) for k, v in json.load(open(p)).items()}
    except Exception:  # pylint: disable=broad-except
      _KNOWN = {}
  return _KNOWN.get(relpath)


class _Rename(ast.NodeTransformer):

  def __init__(self, mapping: Dict[str, str]):
    self.mapping = mapping

  def visit_Name(self, node):
    if node.id in self.mapping:
      return ast.copy_location(ast.Name(id=self.mapping[node.id], ctx=node.ctx), node)
    return node

  def visit_arg(self, node):
    return node

  def visit_Lambda(self, node):
    # lambda parameters shadow
    shadow = {a.arg for a in node.args.args + node.args.kwonlyargs}
    saved = self.mapping
    self.mapping = {k: v for k, v in saved.items() if k not in shadow}
    node.body = self.visit(node.body)
    self.mapping = saved
    return node


def _locals_of(fn: ast.FunctionDef) -> Set[str]:
  out = set()
  for x in ast.walk(fn):
    if isinstance(x, ast.Name) and isinstance(x.ctx, (ast.Store, ast.Del)):
      out.add(x.id)
    elif isinstance(x, ast.ExceptHandler) and x.name:
      out.add(x.name)
    elif isinstance(x, (ast.comprehension,)):
      for y in ast.walk(x.target):
        if isinstance(y, ast.Name):
          out.add(y.id)
  return out


def _all_paths_return(stmts: List[ast.stmt]) -> bool:
  if not stmts:
    return False
  last = stmts[-1]
  if isinstance(last, (ast.Return, ast.Raise)):
    return True
  if isinstance(last, ast.If) and last.orelse:
    return _all_paths_return(last.body) and _all_paths_return(last.orelse)
  return False


def _has_return(stmts: List[ast.stmt]) -> bool:
  for st in stmts:
    for x in ast.walk(st):
      if isinstance(x, ast.Return):
        return True
  return False


def _to_assign(stmts: List[ast.stmt], ret: str) -> Optional[List[ast.stmt]]:
  """Rewrites `return e` into `ret = e`, guard clauses into if/else. None when the shape is not supported."""
  out: List[ast.stmt] = []
  for i, st in enumerate(stmts):
    if isinstance(st, ast.Return):
      val = st.value if st.value is not None else ast.Constant(value=None)
      out.append(ast.copy_location(ast.Assign(targets=[ast.Name(id=ret, ctx=ast.Store())], value=val), st))
      return out   # anything after a return is dead
    if isinstance(st, ast.If) and (_has_return(st.body) or _has_return(st.orelse)):
      rest = stmts[i + 1:]
      body_ret, else_ret = _all_paths_return(st.body), _all_paths_return(st.orelse)
      if body_ret and else_ret:
        b, o = _to_assign(st.body, ret), _to_assign(st.orelse, ret)
        if b is None or o is None:
          return None
        out.append(ast.copy_location(ast.If(test=st.test, body=b, orelse=o), st))
        return out
      if body_ret and not _has_return(st.orelse):
        b = _to_assign(st.body, ret)
        o = _to_assign(list(st.orelse) + rest, ret)
        if b is None or o is None:
          return None
        out.append(ast.copy_location(ast.If(test=st.test, body=b, orelse=o or [ast.Pass()]), st))
        return out
      if else_ret and not _has_return(st.body):
        o = _to_assign(st.orelse, ret)
        b = _to_assign(list(st.body) + rest, ret)
        if b is None or o is None:
          return None
        out.append(ast.copy_location(ast.If(test=st.test, body=b or [ast.Pass()], orelse=o), st))
        return out
      return None
    if isinstance(st, (ast.For, ast.While, ast.With, ast.Try)) and _has_return([st]):
      return None
    out.append(st)
  return out


def _inlinable(fn: ast.FunctionDef) -> bool:
  if fn.decorator_list or fn.args.vararg or fn.args.kwarg or fn.args.posonlyargs:
    return False
  for x in ast.walk(fn):
    if isinstance(x, (ast.Yield, ast.YieldFrom, ast.Await, ast.Global, ast.Nonlocal)):
      return False
    if x is not fn and isinstance(x, (ast.FunctionDef, ast.AsyncFunctionDef, ast.ClassDef)):
      return False
    if isinstance(x, ast.Call) and isinstance(x.func, ast.Name) and x.func.id == fn.name:
      return False
  return True


class _Counter:
  n = 0


def _inline_call(call: ast.Call, fn: ast.FunctionDef, is_method: bool) -> Optional[tuple]:
  """(statements to put before, expression replacing the call)."""
  params = [a.arg for a in fn.args.args]
  kwonly = [a.arg for a in fn.args.kwonlyargs]
  defaults = dict(zip(params[len(params) - len(fn.args.defaults):], fn.args.defaults))
  kwdefaults = {a: d for a, d in zip(kwonly, fn.args.kw_defaults) if d is not None}
  if any(isinstance(a, ast.Starred) for a in call.args) or any(k.arg is None for k in call.keywords):
    return None
  args = list(call.args)
  binding: Dict[str, ast.AST] = {}
  pos_params = params[1:] if is_method else params
  if is_method:
    binding[params[0]] = call.func.value   # self
  if len(args) > len(pos_params):
    return None
  for p, a in zip(pos_params, args):
    binding[p] = a
  for k in call.keywords:
    if k.arg in binding or k.arg not in params + kwonly:
      return None
    binding[k.arg] = k.value
  for p in params + kwonly:
    if p not in binding:
      d = defaults.get(p, kwdefaults.get(p))
      if d is None:
        return None
      binding[p] = copy.deepcopy(d)
  _Counter.n += 1
  tag = f'__i{_Counter.n}'
  body = [copy.deepcopy(st) for st in fn.body]
  if body and isinstance(body[0], ast.Expr) and isinstance(body[0].value, ast.Constant) and isinstance(body[0].value.value, str):
    body = body[1:]
  ret = f'ret{tag}'
  conv = _to_assign(body, ret)
  if conv is None:
    return None
  names = _locals_of(fn) | set(params) | set(kwonly)
  mapping = {n: n + tag for n in names}
  # parameters that are plain names / attributes / constants and never reassigned in the helper are substituted directly
  reassigned = {x.id for st in body for x in ast.walk(st) if isinstance(x, ast.Name) and isinstance(x.ctx, (ast.Store, ast.Del))}
  pre: List[ast.stmt] = []
  direct: Dict[str, ast.AST] = {}
  for p, a in binding.items():
    if p not in reassigned and isinstance(a, (ast.Name, ast.Constant)) or (p not in reassigned and isinstance(a, ast.Attribute) and isinstance(a.value, ast.Name)):
      direct[p] = a
    else:
      pre.append(ast.copy_location(ast.Assign(targets=[ast.Name(id=mapping[p], ctx=ast.Store())], value=a), call))

  class _Sub(_Rename):

    def visit_Name(self, node):
      if node.id in direct and isinstance(node.ctx, ast.Load):
        return copy.deepcopy(direct[node.id])
      return super().visit_Name(node)

  sub = _Sub({k: v for k, v in mapping.items() if k not in direct})
  new_body = [sub.visit(st) for st in conv]
  produces = any(isinstance(x, ast.Name) and x.id == ret and isinstance(x.ctx, ast.Store) for st in new_body for x in ast.walk(st))
  if not produces:
    new_body.append(ast.copy_location(ast.Assign(targets=[ast.Name(id=ret, ctx=ast.Store())], value=ast.Constant(value=None)), call))
  for st in pre + new_body:
    ast.fix_missing_locations(st)
  return pre + new_body, ast.copy_location(ast.Name(id=ret, ctx=ast.Load()), call)


def _calls_in_stmt_header(st: ast.stmt) -> List[ast.Call]:
  """Calls evaluated by the statement itself (not inside nested statement bodies, lambdas or comprehensions)."""
  exprs: List[ast.AST] = []
  if isinstance(st, (ast.Expr, ast.Return)):
    exprs = [st.value] if st.value is not None else []
  elif isinstance(st, ast.Assign):
    exprs = [st.value]
  elif isinstance(st, (ast.AugAssign, ast.AnnAssign)):
    exprs = [st.value] if st.value is not None else []
  elif isinstance(st, (ast.If, ast.While)):
    exprs = [st.test] if isinstance(st, ast.If) else []
  elif isinstance(st, ast.For):
    exprs = [st.iter]
  elif isinstance(st, ast.Raise):
    exprs = [st.exc] if st.exc is not None else []
  out = []
  stack = list(exprs)
  while stack:
    e = stack.pop()
    if isinstance(e, (ast.Lambda, ast.ListComp, ast.SetComp, ast.DictComp, ast.GeneratorExp, ast.IfExp, ast.BoolOp)):
      continue   # conditional / repeated evaluation: hoisting the helper's statements would not be the same program
    if isinstance(e, ast.Call):
      out.append(e)
    stack.extend(ast.iter_child_nodes(e))
  return out


def inline_unknown_helpers(tree: ast.Module, relpath: str) -> ast.Module:
  known = known_defs(relpath)
  if known is None:
    return tree
  module_fns = {n.name: n for n in tree.body if isinstance(n, ast.FunctionDef)}

  def candidates_for(owner_stack: List[ast.AST]) -> Dict[str, tuple]:
    c: Dict[str, tuple] = {}
    for name, fn in module_fns.items():
      if name not in known and _inlinable(fn):
        c[name] = (fn, False)
    for o in owner_stack:
      if isinstance(o, (ast.FunctionDef, ast.AsyncFunctionDef)):
        for st in o.body:
          if isinstance(st, ast.FunctionDef) and st.name not in known and _inlinable_closure(st):
            c[st.name] = (st, False)
    return c

  def methods_for(owner_stack: List[ast.AST]) -> Dict[str, ast.FunctionDef]:
    for o in reversed(owner_stack):
      if isinstance(o, ast.ClassDef):
        return {st.name: st for st in o.body if isinstance(st, ast.FunctionDef) and st.name not in known and _inlinable(st) and st.args.args and
                st.args.args[0].arg == 'self' and not any(isinstance(d, ast.Name) and d.id in ('staticmethod', 'classmethod') for d in st.decorator_list)}
    return {}

  def process_block(stmts: List[ast.stmt], owners: List[ast.AST], depth: int = 0):
    i = 0
    guard = 0
    while i < len(stmts):
      st = stmts[i]
      if isinstance(st, (ast.FunctionDef, ast.AsyncFunctionDef, ast.ClassDef)):
        process_block(st.body, owners + [st])
        i += 1
        continue
      done = False
      if guard < 200:
        cands, meths = candidates_for(owners), methods_for(owners)
        for call in _calls_in_stmt_header(st):
          target = None
          is_m = False
          if isinstance(call.func, ast.Name) and call.func.id in cands:
            target = cands[call.func.id][0]
          elif isinstance(call.func, ast.Attribute) and isinstance(call.func.value, ast.Name) and call.func.value.id == 'self' and call.func.attr in meths:
            target, is_m = meths[call.func.attr], True
          if target is None or any(target is o for o in owners):
            continue
          r = _inline_call(call, target, is_m)
          if r is None:
            continue
          pre, repl = r
          # replace the call node inside st
          class _Repl(ast.NodeTransformer):
            def visit_Call(self, node):
              if node is call:
                return repl
              return self.generic_visit(node)
          if isinstance(st, ast.Expr) and st.value is call:
            stmts[i:i + 1] = pre
          else:
            _Repl().visit(st)
            stmts[i:i] = pre
          guard += 1
          done = True
          break
      if done:
        continue   # re-examine from the same index (the inlined body may itself call helpers)
      for f in ('body', 'orelse', 'finalbody'):
        v = getattr(st, f, None)
        if isinstance(v, list) and v and isinstance(v[0], ast.stmt):
          process_block(v, owners, depth + 1)
      for h in getattr(st, 'handlers', []) or []:
        process_block(h.body, owners, depth + 1)
      i += 1

  process_block(tree.body, [])
  return tree


def _inlinable_closure(fn: ast.FunctionDef) -> bool:
  return _inlinable(fn)
