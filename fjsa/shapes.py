"""Reference shapes: how far a function is from the form the rules were written against.

For every function of the pinned tree, fjsa/known_shapes.json holds the multiset of hashes of its canonical statements
(compound statements contribute their header only; nested function bodies belong to the nested function). The distance of
a function in the tree under analysis is the size of the symmetric difference of the two multisets.

Use (report.py): a rule whose expected construct is not found in a function that has been restructured far beyond a local
edit (distance > THRESHOLD) does not claim a VIOLATION - its pattern simply does not describe the new code - and reports
INCONCLUSIVE instead. The table is never used to *create* a report, only to withhold one.
"""
from __future__ import annotations

import ast
import hashlib
import json
import os
from collections import Counter
from typing import Dict, List, Optional

THRESHOLD = int(os.environ.get("FJSA_SHAPE_THRESHOLD", "6"))
_TABLE: Optional[Dict[str, List[str]]] = None


def _header_dump(st: ast.stmt) -> str:
  if isinstance(st, (ast.FunctionDef, ast.AsyncFunctionDef)):
    return 'def ' + st.name
  if isinstance(st, ast.ClassDef):
    return 'class ' + st.name
  if isinstance(st, ast.If):
    return 'if ' + ast.dump(st.test)
  if isinstance(st, ast.While):
    return 'while ' + ast.dump(st.test)
  if isinstance(st, ast.For):
    return 'for ' + ast.dump(st.target) + ' in ' + ast.dump(st.iter)
  if isinstance(st, ast.With):
    return 'with ' + ' '.join(ast.dump(i) for i in st.items)
  if isinstance(st, ast.Try):
    return 'try'
  return ast.dump(st)


def _alpha(fn: ast.AST) -> ast.AST:
  """A copy of fn with its local names (parameters and assigned names) erased: renaming a local, or adding one, does not change
  the hash of the statements that merely mention it."""
  import copy
  fn = copy.deepcopy(fn)
  bound = set()
  for x in ast.walk(fn):
    if isinstance(x, ast.arg):
      bound.add(x.arg)
    elif isinstance(x, ast.Name) and isinstance(x.ctx, (ast.Store, ast.Del)):
      bound.add(x.id)
    elif isinstance(x, ast.ExceptHandler) and x.name:
      bound.add(x.name)
  bound -= {'self', 'cls'}
  for x in ast.walk(fn):
    if isinstance(x, ast.arg) and x.arg in bound:
      x.arg = '_'
    elif isinstance(x, ast.Name) and x.id in bound:
      x.id = '_'
    elif isinstance(x, ast.ExceptHandler) and x.name in bound:
      x.name = '_'
  return fn


def statement_hashes(fn: ast.AST) -> List[str]:
  fn = _alpha(fn)
  out = []

  def rec(stmts):
    for st in stmts:
      if isinstance(st, ast.Expr) and isinstance(st.value, ast.Constant) and isinstance(st.value.value, str):
        continue   # docstrings / string statements
      if isinstance(st, ast.Pass):
        continue
      out.append(hashlib.sha1(_header_dump(st).encode()).hexdigest()[:10])
      if isinstance(st, (ast.FunctionDef, ast.AsyncFunctionDef, ast.ClassDef)):
        continue
      for f in ('body', 'orelse', 'finalbody'):
        v = getattr(st, f, None)
        if isinstance(v, list) and v and isinstance(v[0], ast.stmt):
          rec(v)
      for h in getattr(st, 'handlers', []) or []:
        out.append('except')
        rec(h.body)
  rec(fn.body)
  return out


def table() -> Dict[str, List[str]]:
  global _TABLE
  if _TABLE is None:
    p = os.path.join(os.path.dirname(os.path.abspath(__file__)), 'known_shapes.json')
    try:
      _TABLE = json.load(open(p))
    except Exception:  # pylint: disable=broad-except
      _TABLE = {}
  return _TABLE


def raw_functions(src: str) -> Dict[str, ast.AST]:
  """qualified name -> function node of the source as written (no canonical form: a local edit stays local)."""
  out: Dict[str, ast.AST] = {}

  def rec(node, prefix):
    for ch in ast.iter_child_nodes(node):
      if isinstance(ch, (ast.FunctionDef, ast.AsyncFunctionDef)):
        q = prefix + ch.name
        out.setdefault(q, ch)
        rec(ch, q + '.')
      elif isinstance(ch, ast.ClassDef):
        rec(ch, prefix + ch.name + '.')
      else:
        rec(ch, prefix)
  try:
    rec(ast.parse(src), '')
  except SyntaxError:
    pass
  return out


def distance(relpath: str, qualname: str, fn_node: ast.AST) -> Optional[int]:
  """None when the function is not in the reference table (a new function)."""
  ref = table().get(f'{relpath}:{qualname}')
  if ref is None:
    return None
  a, b = Counter(ref), Counter(statement_hashes(fn_node))
  return sum(((a - b) + (b - a)).values())
