"""Rules over fedjax/core/metrics.py shared by C05 and C14."""
from __future__ import annotations

import ast
from typing import Dict, List, Optional, Tuple

from fjsa.flow import FuncFlow, call_args, guards_of, same, txt
from fjsa.model import ClassInfo, FuncInfo, Repo

MOD = 'fedjax.core.metrics'


def metric_classes(repo: Repo) -> List[ClassInfo]:
  base = repo.cls(MOD, 'Metric')
  return [c for c in repo.subclasses_of(base) if c.module.name == MOD]


def stat_classes(repo: Repo) -> List[ClassInfo]:
  base = repo.cls(MOD, 'Stat')
  return [c for c in repo.subclasses_of(base) if c.module.name == MOD]


def stat_ctor_calls(repo: Repo, ff: FuncFlow, stat_names: List[str]) -> List[Tuple[ast.Call, str, str]]:
  """Calls of `<Stat>.new(...)` / `<Stat>(...)` / `cls(...)` in a function: (call, class name, how)."""
  out = []
  seen = set()
  for _, c in ff.calls():
    if id(c) in seen:
      continue
    seen.add(id(c))
    f = c.func
    if isinstance(f, ast.Attribute) and f.attr == 'new' and isinstance(f.value, ast.Name) and f.value.id in stat_names:
      out.append((c, f.value.id, 'new'))
    elif isinstance(f, ast.Name) and f.id in stat_names:
      out.append((c, f.id, 'ctor'))
    elif isinstance(f, ast.Name) and f.id == 'cls':
      out.append((c, 'cls', 'ctor'))
  return out


def return_stat_classes(repo: Repo, fi: FuncInfo, stat_names: List[str]) -> List[Tuple[Optional[str], ast.AST]]:
  """Stat class produced by each return statement of a metric method."""
  ff = FuncFlow.of(repo, fi)
  out = []
  for _, rv in ff.returns():
    if rv is None:
      out.append((None, rv))
      continue
    name = None
    for x in ff.expand(rv):
      if isinstance(x, ast.Call):
        f = x.func
        if isinstance(f, ast.Attribute) and f.attr == 'new' and isinstance(f.value, ast.Name) and f.value.id in stat_names:
          name = f.value.id
        elif isinstance(f, ast.Name) and f.id in stat_names:
          name = f.id + '(direct)'
    out.append((name, rv))
  return out


def is_zero_literal(ff: FuncFlow, e: ast.AST) -> bool:
  if isinstance(e, ast.Constant) and isinstance(e.value, (int, float)) and e.value == 0:
    return True
  if isinstance(e, ast.Call) and ff.ext(e.func) in ('jax.numpy.zeros', 'numpy.zeros', 'jax.numpy.zeros_like'):
    return True
  return False
