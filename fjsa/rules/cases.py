"""Case tables: the value a straight-line / branching piece of code gives a variable in each case of a finite case split.

`evaluate(stmts, env, decide)` follows a statement list once per case. `decide(test_ast)` says which way a test goes in the case at
hand (True / False) or None when the case does not determine it; assignments substitute what is known so far, so the result is an
expression over the inputs only, whatever temporaries, aliases, nesting of branches, early returns or (inlined) helpers the code
uses. Nothing of the repository is executed: the walk only pushes expressions through assignments and picks branches.

Supported: plain / annotated / augmented assignments to names and attributes, tuple unpacking of tuples, if / elif / else,
conditional expressions, return, pass, docstrings, assert (ignored). Anything else ends the walk with UNKNOWN.
"""
from __future__ import annotations

import ast
import copy
from typing import Callable, Dict, List, Optional

from fjsa.flow import txt

UNKNOWN = object()


class _Subst(ast.NodeTransformer):
  def __init__(self, env: Dict[str, ast.AST]):
    self.env = env

  def visit(self, node):
    if isinstance(node, (ast.Name, ast.Attribute)) and isinstance(getattr(node, 'ctx', None), ast.Load):
      k = txt(node)
      if k in self.env and self.env[k] is not UNKNOWN:
        return copy.deepcopy(self.env[k])
    if isinstance(node, ast.IfExp):
      return self.generic_visit(node)
    return self.generic_visit(node)


def subst(e: ast.AST, env: Dict[str, ast.AST]) -> ast.AST:
  return _Subst(env).visit(copy.deepcopy(e))


def evaluate(stmts: List[ast.stmt], env: Dict[str, ast.AST], decide: Callable[[ast.AST], Optional[bool]], want_return: bool = False):
  """Returns (env, returned expression or None); env values are expressions over the initial names. UNKNOWN (as env) when a
  statement or an undecidable test is met."""
  env = dict(env)

  def value(e):
    e = subst(e, env)
    return resolve_ifexp(e)

  def resolve_ifexp(e):
    class R(ast.NodeTransformer):
      def visit_IfExp(self, node):
        d = decide(node.test)
        if d is None:
          return self.generic_visit(node)
        return self.visit(node.body if d else node.orelse)
    return R().visit(e)

  def run(block):
    for st in block:
      if isinstance(st, ast.Expr) and isinstance(st.value, ast.Constant):
        continue
      if isinstance(st, (ast.Pass, ast.Assert)):
        continue
      if isinstance(st, ast.Expr):
        continue   # a call for its effect (logging): does not bind anything
      if isinstance(st, ast.AnnAssign):
        if st.value is None:
          continue
        env[txt(st.target)] = value(st.value)
        continue
      if isinstance(st, ast.Assign) and len(st.targets) == 1:
        tg = st.targets[0]
        v = value(st.value)
        if isinstance(tg, (ast.Name, ast.Attribute)):
          env[txt(tg)] = v
        elif isinstance(tg, ast.Tuple) and isinstance(v, ast.Tuple) and len(tg.elts) == len(v.elts):
          for a, b in zip(tg.elts, v.elts):
            env[txt(a)] = b
        else:
          return UNKNOWN
        continue
      if isinstance(st, ast.AugAssign) and isinstance(st.target, (ast.Name, ast.Attribute)):
        k = txt(st.target)
        cur = env.get(k, ast.Name(k, ast.Load()))
        env[k] = ast.BinOp(left=copy.deepcopy(cur), op=st.op, right=value(st.value))
        continue
      if isinstance(st, ast.If):
        d = decide(subst(st.test, env))
        if d is None:
          return UNKNOWN
        r = run(st.body if d else st.orelse)
        if r is not None:
          return r
        continue
      if isinstance(st, ast.Return):
        return ('return', value(st.value) if st.value is not None else ast.Constant(None))
      return UNKNOWN
    return None

  r = run(stmts)
  if r is UNKNOWN:
    return UNKNOWN, None
  return env, (r[1] if r is not None else None)


def canon_text(e: ast.AST, rename: Optional[Dict[str, str]] = None) -> str:
  """Canonical text of an arithmetic expression: sums and products flattened and sorted, min / max arguments sorted, names renamed
  through `rename` (longest match on the unparsed text of names / attributes / calls such as len(x))."""
  rename = rename or {}

  def atom(x):
    t = txt(x)
    return rename.get(t, t)

  def flat(x, op):
    if isinstance(x, ast.BinOp) and isinstance(x.op, op):
      return flat(x.left, op) + flat(x.right, op)
    return [x]

  def go(x):
    if txt(x) in rename:
      return rename[txt(x)]
    if isinstance(x, ast.BinOp) and isinstance(x.op, (ast.Add, ast.Mult)):
      parts = sorted(go(y) for y in flat(x, type(x.op)))
      return '(' + (' + ' if isinstance(x.op, ast.Add) else ' * ').join(parts) + ')'
    if isinstance(x, ast.BinOp) and isinstance(x.op, ast.Sub):
      # a - b  ==  a + (-b): fold into the sum so that (n + b) - 1 and n + (b - 1) agree
      pos, neg = [], []
      def collect(y, sign):
        if isinstance(y, ast.BinOp) and isinstance(y.op, ast.Add):
          collect(y.left, sign); collect(y.right, sign)
        elif isinstance(y, ast.BinOp) and isinstance(y.op, ast.Sub):
          collect(y.left, sign); collect(y.right, -sign)
        else:
          (pos if sign > 0 else neg).append(go(y))
      collect(x, 1)
      return '(' + ' + '.join(sorted(pos)) + ''.join(' - ' + n for n in sorted(neg)) + ')'
    if isinstance(x, ast.BinOp):
      sym = {ast.FloorDiv: '//', ast.Div: '/', ast.Mod: '%', ast.Pow: '**', ast.RShift: '>>', ast.LShift: '<<'}.get(type(x.op), type(x.op).__name__)
      return f'({go(x.left)} {sym} {go(x.right)})'
    if isinstance(x, ast.UnaryOp) and isinstance(x.op, ast.USub):
      return f'(-{go(x.operand)})'
    if isinstance(x, ast.Call) and txt(x.func) in ('min', 'max') and not x.keywords:
      return f'{txt(x.func)}(' + ', '.join(sorted(go(a) for a in x.args)) + ')'
    if isinstance(x, ast.Call) and not x.keywords:
      return f'{txt(x.func)}(' + ', '.join(go(a) for a in x.args) + ')'
    return atom(x)
  return go(e)


def arith_value(e: ast.AST, env: Dict[str, int], rename: Optional[Dict[str, str]] = None):
  """Integer value of a closed arithmetic expression (+ - * // % ** min max abs, unary minus, integer constants, names looked up in
  `env` after `rename`); None when the expression uses anything else. This folds constants of an expression tree - no code of the
  repository is involved."""
  rename = rename or {}
  t = txt(e)
  if t in rename and rename[t] in env:
    return env[rename[t]]
  if isinstance(e, ast.Constant):
    if e.value is None:
      return 'None'
    return e.value if isinstance(e.value, int) and not isinstance(e.value, bool) else None
  if isinstance(e, ast.Name):
    return env.get(e.id)
  if isinstance(e, ast.UnaryOp) and isinstance(e.op, ast.USub):
    v = arith_value(e.operand, env, rename)
    return None if not isinstance(v, int) else -v
  if isinstance(e, ast.BinOp):
    a, b = arith_value(e.left, env, rename), arith_value(e.right, env, rename)
    if not isinstance(a, int) or not isinstance(b, int):
      return None
    try:
      if isinstance(e.op, ast.Add):
        return a + b
      if isinstance(e.op, ast.Sub):
        return a - b
      if isinstance(e.op, ast.Mult):
        return a * b
      if isinstance(e.op, ast.FloorDiv):
        return a // b
      if isinstance(e.op, ast.Mod):
        return a % b
      if isinstance(e.op, ast.Pow) and 0 <= b <= 8:
        return a ** b
    except ZeroDivisionError:
      return None
    return None
  if isinstance(e, ast.Call) and txt(e.func) in ('min', 'max', 'abs') and not e.keywords:
    vs = [arith_value(a, env, rename) for a in e.args]
    if not vs or not all(isinstance(v, int) for v in vs):
      return None
    return {'min': min, 'max': max, 'abs': lambda *x: abs(x[0])}[txt(e.func)](*vs)
  return None

