"""Discovery of the repository's higher-order structure.

  * federated algorithms: calls of federated_algorithm.FederatedAlgorithm(init, apply)
  * aggregators: calls of aggregator.Aggregator(init, apply)
  * for_each_client triples: calls of for_each_client.for_each_client(init, step, final)
"""
from __future__ import annotations

import ast
from dataclasses import dataclass, field
from typing import Dict, List, Optional, Tuple

from fjsa.flow import FuncFlow, call_args, txt
from fjsa.model import ClassInfo, FuncInfo, Module, Ref, Repo, Scope

FA_CLASS = ('fedjax.core.federated_algorithm', 'FederatedAlgorithm')
AGG_CLASS = ('fedjax.aggregators.aggregator', 'Aggregator')
FEC_FUNC = ('fedjax.core.for_each_client', 'for_each_client')


@dataclass
class Algorithm:
  builder: FuncInfo
  init: Optional[FuncInfo]
  apply: FuncInfo
  call: ast.Call


@dataclass
class Triple:
  owner: FuncInfo  # function containing the for_each_client(...) call
  call: ast.Call
  init: Optional[FuncInfo]
  step: Optional[FuncInfo]
  final: Optional[FuncInfo]
  init_ref: Optional[Ref] = None
  step_ref: Optional[Ref] = None
  final_ref: Optional[Ref] = None
  with_step_result: bool = False

  @property
  def name(self) -> str:
    return f'{self.owner.module.name}:{self.owner.qualname}'

  def functions(self) -> List[FuncInfo]:
    return [f for f in (self.init, self.step, self.final) if f is not None]


def _scope_of_call(repo: Repo, m: Module, call: ast.Call) -> Scope:
  return repo.scope_of(m, call)


def _calls_in(repo: Repo, modules: List[Module]):
  for m in modules:
    for node in ast.walk(m.tree):
      if isinstance(node, ast.Call):
        yield m, node


def _resolve_fn(repo: Repo, scope: Scope, e: ast.AST) -> Optional[FuncInfo]:
  r = repo.resolve(scope, e)
  if r.kind == 'func':
    return r.func
  return None


def _is(repo: Repo, r: Ref, what: Tuple[str, str]) -> bool:
  if r.kind == 'class':
    return (r.cls.module.name, r.cls.qualname) == what
  if r.kind == 'func':
    return (r.func.module.name, r.func.qualname) == what
  return False


def find_algorithms(repo: Repo, modules: Optional[List[Module]] = None,
                    cls: Tuple[str, str] = FA_CLASS) -> List[Algorithm]:
  out = []
  mods = modules if modules is not None else list(repo.modules.values())
  for m, call in _calls_in(repo, mods):
    sc = _scope_of_call(repo, m, call)
    r = repo.resolve(sc, call.func)
    if not _is(repo, r, cls):
      continue
    b = call_args(call, ['init', 'apply'])
    if 'apply' not in b:
      continue
    apply_fn = _resolve_fn(repo, sc, b['apply'])
    init_fn = _resolve_fn(repo, sc, b['init']) if 'init' in b else None
    owner = m.enclosing_func(call)
    if apply_fn is None or owner is None:
      continue
    out.append(Algorithm(owner, init_fn, apply_fn, call))
  return out


def find_aggregators(repo: Repo, modules: Optional[List[Module]] = None) -> List[Algorithm]:
  return find_algorithms(repo, modules, AGG_CLASS)


def find_triples(repo: Repo, modules: Optional[List[Module]] = None) -> List[Triple]:
  out = []
  mods = modules if modules is not None else list(repo.modules.values())
  for m, call in _calls_in(repo, mods):
    sc = _scope_of_call(repo, m, call)
    r = repo.resolve(sc, call.func)
    if not _is(repo, r, FEC_FUNC):
      continue
    owner = m.enclosing_func(call)
    if owner is None:
      continue
    b = call_args(call, ['client_init', 'client_step', 'client_final', 'with_step_result'])
    refs = {k: repo.resolve(sc, v) for k, v in b.items() if k != 'with_step_result'}
    def fn(k):
      rr = refs.get(k)
      return rr.func if rr is not None and rr.kind == 'func' else None
    wsr = False
    if 'with_step_result' in b:
      v = b['with_step_result']
      wsr = isinstance(v, ast.Constant) and bool(v.value)
    out.append(Triple(owner, call, fn('client_init'), fn('client_step'), fn('client_final'),
                      refs.get('client_init'), refs.get('client_step'), refs.get('client_final'), wsr))
  return out


def modules_under(repo: Repo, prefix: str) -> List[Module]:
  return [m for n, m in repo.modules.items() if n == prefix or n.startswith(prefix + '.')]


def builder_result_triple(repo: Repo, builder: FuncInfo, triples: List[Triple]) -> Optional[Triple]:
  """If `builder` returns the result of a for_each_client(...) call, that triple."""
  for t in triples:
    if t.owner is builder:
      ff = FuncFlow.of(repo, builder)
      for _, v in ff.returns():
        if v is not None and any(x is t.call for x in ff.expand(v)):
          return t
  return None


def _self_attr_class(repo: Repo, ff: FuncFlow, e: ast.Attribute) -> Optional[ClassInfo]:
  if not (isinstance(e.value, ast.Name) and e.value.id == 'self'):
    return None
  cls_scope = ff.fi.scope.parent
  if cls_scope is None or cls_scope.kind != 'class':
    return None
  ci = cls_scope.module.classes_by_node.get(cls_scope.node)
  init = repo.find_method(ci, '__init__') if ci else None
  if init is None:
    return None
  for st in ast.walk(init.node):
    if isinstance(st, ast.Assign) and len(st.targets) == 1 and isinstance(st.targets[0], ast.Attribute) and st.targets[0].attr == e.attr:
      v = st.value
      if isinstance(v, ast.Call):
        r = repo.resolve(init.scope, v.func)
        if r.kind == 'class':
          return r.cls
      if isinstance(v, ast.Name):
        ann = init.param_annotation(v.id)
        if ann is not None:
          r = repo.resolve(init.scope, ann)
          if r.kind == 'class':
            return r.cls
  return None


def triple_for_callee(repo: Repo, ff: FuncFlow, call: ast.Call, triples: List[Triple]) -> Optional[Triple]:
  """Resolves `train_for_each_client(shared, clients)` to its triple, where
  train_for_each_client = create_train_for_each_client(...) in an enclosing scope."""
  f = call.func
  cands = []
  if isinstance(f, ast.Name):
    r = ff.resolve(f)
    if r.kind == 'local':
      for b in r.bindings:
        if b.value is not None and isinstance(b.value, ast.Call):
          inner = repo.resolve(r.scope, b.value.func)
          if inner.kind == 'func':
            if _is(repo, inner, FEC_FUNC):
              for t in triples:
                if t.call is b.value:
                  cands.append(t)
            else:
              t = builder_result_triple(repo, inner.func, triples)
              if t is not None:
                cands.append(t)
  elif isinstance(f, ast.Attribute):
    # self._train_each_client(...)  /  trainer.train_per_client_params(...)
    r = ff.resolve(f)
    ci = None
    if r.kind == 'attr' and r.base is not None and r.base.kind == 'class':
      ci = r.base.cls
    elif r.kind == 'func' and r.base is not None and r.base.kind == 'class':
      # a method that forwards to the generator: `yield from self._train_each_client(...)`
      ci = r.base.cls
    elif r.kind == 'attr' and r.base is not None and r.base.kind == 'attr' and isinstance(f.value, ast.Attribute):
      # self._x.method(...): type of self._x from `self._x = Ctor(...)` / annotated parameter in __init__
      ci = _self_attr_class(repo, ff, f.value)
    elif r.kind == 'attr' and r.base is not None and r.base.kind == 'param':
      # receiver typed by its annotation
      sc = r.base.scope
      if sc is not None and sc.kind == 'function':
        owner = sc.module.funcs_by_node[sc.node]
        ann = owner.param_annotation(r.base.name)
        if ann is not None:
          ar = repo.resolve(sc, ann)
          if ar.kind == 'class':
            ci = ar.cls
    if ci is not None:
      for t in triples:
        if t.owner.scope.parent is not None and t.owner.scope.parent.node is ci.node:
          cands.append(t)
      if not cands:
        for base in repo.class_bases(ci):
          if base.kind == 'class':
            for t in triples:
              if t.owner.scope.parent is not None and t.owner.scope.parent.node is base.cls.node:
                cands.append(t)
  return cands[0] if len(cands) == 1 else None
