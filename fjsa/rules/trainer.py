"""Obligations on a client *training* triple (client_init/step/final).

Emits R-SIB obligations (roles of the optimizer call, where the gradient is
evaluated, pass-through fields, start point, delta direction, key threading)
and returns the recovered facts so that siblings can be compared.
"""
from __future__ import annotations

import ast
from dataclasses import dataclass, field
from typing import Dict, List, Optional, Tuple

from fjsa.flow import FuncFlow, call_args, same, txt
from fjsa.model import FuncInfo, Repo
from fjsa.rules import skeleton as sk
from fjsa.rules.atomic import same_value
from fjsa.rules.entries import Triple

SPLITTERS = {'jax.random.split', 'jax.random.fold_in'}

# Algorithms whose local steps deliberately keep the optimizer state frozen
# (DESIGN.md appendix A.7): the base optimizer state is only advanced on the server.
FROZEN_OPT_STATE = {
    'fedjax.algorithms.mime:create_train_for_each_client': 'Mime applies the server optimizer state unchanged in every local step',
    'fedjax.algorithms.mime_lite:create_train_for_each_client': 'MimeLite applies the server optimizer state unchanged in every local step',
}


@dataclass
class TrainerFacts:
  name: str
  opt_sites: int = 0
  main_p: object = None
  main_o: object = None
  opt_state_variant: str = ''
  start: str = ''
  delta: str = ''
  grad_points: List[str] = field(default_factory=list)
  rng_field: object = None
  ok: bool = True


def _is_split_output_of(ff: FuncFlow, e: ast.AST, rec: sk.Record, key) -> bool:
  if not isinstance(e, ast.Name):
    return False
  ds = ff.defs_for(e)
  if not ds:
    return False
  for d in ds:
    v = d.value
    if not (d.kind == 'assign' and isinstance(v, ast.Call) and ff.ext(v.func) in SPLITTERS and v.args):
      return False
    if rec.field_of(v.args[0]) != key:
      return False
  return True


def _nested_value(ff: FuncFlow, ret: Dict[object, ast.AST], key) -> Optional[ast.AST]:
  """Value stored for `key` in the returned record; key may be (outer, attr)
  for a dataclass built in place: {'state': ClientState(params=..)}."""
  if key in ret:
    return ret[key]
  if isinstance(key, tuple) and len(key) == 2 and key[0] in ret:
    for v in ff.expand(ret[key[0]]):
      if isinstance(v, ast.Call):
        r = ff.callee(v)
        if r.kind == 'class':
          fields = [f for f, _, _ in r.cls.fields]
          b = call_args(v, fields)
          return b.get(key[1])
  return None


def _grad_calls(ff: FuncFlow, grads: ast.AST, exclude: List[ast.Call]) -> List[ast.Call]:
  """Calls of a gradient callable (captured, non-optimizer) feeding `grads`."""
  out = []
  for x in ff.deep_walk(grads):
    if isinstance(x, ast.Call) and x not in exclude and isinstance(x.func, ast.Name):
      sc = ff.scope_at(x.func).lookup_scope(x.func.id)
      if sc is not None and sc is not ff.fi.scope and sc.kind == 'function':
        r = ff.resolve(x.func)
        if r.kind in ('param', 'local', 'wrapped', 'func', 'unknown'):
          if r.kind == 'func' and r.func.module.name.startswith('fedjax.core.tree_util'):
            continue
          out.append(x)
  return out


def check_train_triple(check, repo: Repo, t: Triple, rule: str = 'R-SIB', advisory: bool = False) -> Optional[TrainerFacts]:
  facts = TrainerFacts(t.name)
  if t.init is None or t.step is None or t.final is None:
    check.inconclusive(rule, t.owner, 'for_each_client(...)', 'triple members are not local function definitions',
                       node=t.call)
    return None
  fi_i, fi_s, fi_f = t.init, t.step, t.final
  ff_i, ff_s, ff_f = (FuncFlow.of(repo, x) for x in (fi_i, fi_s, fi_f))
  for x in (fi_i, fi_s, fi_f):
    check.analysed(x)
  sp = fi_s.positional_params
  if len(sp) < 2:
    check.inconclusive(rule, fi_s, 'client_step signature', 'expected (state, batch)')
    return None
  rec = sk.Record(ff_s, sp[0])
  ret = sk.returned_record(ff_s)
  if ret is None:
    check.inconclusive(rule, fi_s, 'return value', 'step does not return a dict literal / tuple record')
    return None
  ret_fields, spread = ret
  sites = sk.opt_apply_sites(ff_s, rec)
  facts.opt_sites = len(sites)
  if not sites:
    check.ob(rule + '.opt-call', fi_s, 'optimizer.apply(...)', False,
             'the step never applies the client optimizer: no local training happens', advisory=advisory)
    facts.ok = False
    return facts
  builder_key = f'{t.owner.module.name}:{t.owner.qualname}'
  frozen_allowed = builder_key in FROZEN_OPT_STATE
  claimed: Dict[object, str] = {}
  for oc in sites:
    c = oc.call
    ctext = txt(c.func)
    # (a) operands are fields of the step state
    ok_a = oc.field_o is not None and oc.field_p is not None
    check.ob(rule + '.opt-args', fi_s, f'{ctext}({txt(oc.grads)}, {txt(oc.opt_state)}, {txt(oc.params)})', ok_a,
             f'optimizer state and params must be read from the step state (fields o={oc.field_o!r}, p={oc.field_p!r}); '
             f'argument order is (grads, opt_state, params)', node=c, advisory=advisory)
    if not ok_a:
      facts.ok = False
      continue
    # (b) new params stored back into the same field
    pv = _nested_value(ff_s, ret_fields, oc.field_p)
    ok_b = pv is not None and oc.res_params is not None and _from_result(ff_s, pv, oc.res_params)
    check.ob(rule + '.opt-result-params', fi_s, f'next[{oc.field_p!r}] = {txt(pv) if pv is not None else "?"}', ok_b,
             f'the params returned by {ctext} (second result) must become the next state\'s {oc.field_p!r}',
             node=c, advisory=advisory)
    claimed[oc.field_p] = 'params'
    # (c) optimizer state updated or (documented) frozen
    ov = _nested_value(ff_s, ret_fields, oc.field_o)
    variant = '?'
    if ov is not None and oc.res_opt is not None and _from_result(ff_s, ov, oc.res_opt):
      variant = 'updated'
    elif ov is not None and rec.field_of(ov) == oc.field_o:
      variant = 'frozen'
    elif ov is None and spread:
      variant = 'frozen'
    facts.opt_state_variant = variant
    ok_c = variant == 'updated' or (variant == 'frozen' and frozen_allowed)
    check.ob(rule + '.opt-result-state', fi_s, f'next[{oc.field_o!r}] = {txt(ov) if ov is not None else "?"}', ok_c,
             f'optimizer state after the step is {variant}' +
             (f' (allowed: {FROZEN_OPT_STATE[builder_key]})' if variant == 'frozen' and frozen_allowed else
              '; it must be the first result of the optimizer call'), node=c, advisory=advisory)
    claimed[oc.field_o] = 'opt_state'
    # (d) gradient evaluated at the current params
    gcalls = _grad_calls(ff_s, oc.grads, [c])
    at_p = [g for g in gcalls if g.args and rec.field_of(g.args[0]) == oc.field_p]
    def _pt(e):
      # a local that only names a field of the step state (prev = state['field']) reads as that field
      if isinstance(e, ast.Name):
        vals = ff_s.expand(e)
        if len(vals) == 1 and isinstance(vals[0], ast.Subscript):
          return txt(vals[0])
      return txt(e)
    pts = [_pt(g.args[0]) if g.args else '?' for g in gcalls]
    facts.grad_points += pts
    if not gcalls:
      check.inconclusive(rule + '.grad-point', fi_s, txt(oc.grads), 'cannot find the gradient call feeding the optimizer',
                         node=c)
    else:
      ok_d = bool(at_p) or _interpolated_from(ff_s, gcalls, rec, oc.field_p)
      check.ob(rule + '.grad-point', fi_s, f'grads for {oc.field_p!r} evaluated at {pts}', ok_d,
               f'a gradient feeding {ctext} must be evaluated at the params being updated ({oc.field_p!r})',
               node=c, advisory=advisory)
      # gradient uses a freshly split key
      for g in gcalls:
        keys = [a for a in g.args[1:] if isinstance(a, ast.Name) and _is_any_split_output(ff_s, a)]
        check.ob(rule + '.grad-key', fi_s, txt(g)[:80], bool(keys),
                 'the gradient call must receive a key split off the step state\'s key', node=g, advisory=advisory)
  if facts.main_p is None and sites:
    facts.main_p, facts.main_o = sites[0].field_p, sites[0].field_o
  # (f) rng field threads a split output
  rng_field = None
  for k, v in ret_fields.items():
    if _is_split_output_of(ff_s, v, rec, k):
      rng_field = k
  facts.rng_field = rng_field
  check.ob(rule + '.key-thread', fi_s, f'next[{rng_field!r}]' if rng_field is not None else 'next key', rng_field is not None,
           'one field of the next state must be a split output of the same field of the current state '
           '(fresh randomness per step)', advisory=advisory)
  if rng_field is not None:
    claimed[rng_field] = 'rng'
  # (e) pass-through fields that the computation depends on
  used = _fields_used(ff_s, rec, ret_fields)
  fpf = fi_f.positional_params
  if len(fpf) >= 2:
    used |= _fields_used(ff_f, sk.Record(ff_f, fpf[1]), {})
  for k, v in ret_fields.items():
    if k in claimed:
      continue
    if any(isinstance(c, tuple) and c[0] == k for c in claimed):
      continue
    if k not in used:
      continue  # bookkeeping field nobody reads (e.g. a step counter)
    src = rec.field_of(v)
    check.ob(rule + '.passthrough', fi_s, f'next[{k!r}] = {txt(v)[:50]}', src == k,
             f'field {k!r} is not produced by the optimizer/split: it must be carried over unchanged', advisory=advisory)
  # ---- init
  ip = fi_i.positional_params
  ret_i = sk.returned_record(ff_i)
  if ret_i is None or len(ip) < 2:
    check.inconclusive(rule + '.start', fi_i, 'return value', 'init does not return a dict literal / tuple record')
  else:
    init_fields, _ = ret_i
    for oc in sites:
      if oc.field_p is None:
        continue
      pv = _nested_root_value(ff_i, init_fields, oc.field_p)
      if pv is None:
        check.inconclusive(rule + '.start', fi_i, f'init[{oc.field_p!r}]', 'field not found in the initial state')
        continue
      start = _start_kind(ff_i, pv, ip[0], ip[1])
      if oc.field_p == facts.main_p:
        facts.start = start
      # optimizer state initialised from the same params
      ovv = _nested_root_value(ff_i, init_fields, oc.field_o)
      ok_h, why_h = _opt_init_ok(ff_i, ovv, pv, ip[0], frozen_allowed)
      check.ob(rule + '.opt-init', fi_i, f'init[{oc.field_o!r}] = {txt(ovv)[:60] if ovv is not None else "?"}', ok_h, why_h,
               advisory=advisory)
      check.ob(rule + '.start', fi_i, f'init[{oc.field_p!r}] = {txt(pv)[:50]}', start != 'other',
               f'training of {oc.field_p!r} starts from: {start}', advisory=advisory)
    if facts.rng_field is not None and facts.rng_field in init_fields:
      rv = init_fields[facts.rng_field]
      okr = _from_client_input(ff_i, rv, ip[1])
      check.ob(rule + '.key-source', fi_i, f'init[{facts.rng_field!r}] = {txt(rv)}', okr,
               'the client\'s key must come from its own client_input', advisory=advisory)
  # ---- final
  fp = fi_f.positional_params
  if len(fp) >= 2:
    recf = sk.Record(ff_f, fp[1])
    n_delta = 0
    for _, rv in ff_f.returns():
      if rv is None:
        continue
      cands = [rv]
      for x in ff_f.expand(rv):
        if isinstance(x, ast.Dict):
          cands = [v for v in x.values]
      for cand in cands:
        d = sk.find_delta(ff_f, cand)
        if d is None:
          continue
        n_delta += 1
        sub_field = recf.field_of(d.subtrahend)
        min_root = sk.shared_root(ff_f, d.minuend, fp[0])
        min_field = recf.field_of(d.minuend)
        trained = [oc.field_p for oc in sites]
        ok_k = sub_field in trained
        ok_j = (min_root is not None) or (min_field is not None and min_field not in trained)
        facts.delta = f'{"shared" + min_root if min_root is not None else "state[" + repr(min_field) + "]"} - state[{sub_field!r}]'
        check.ob(rule + '.delta', fi_f, txt(d.call)[:90], ok_k and ok_j,
                 f'client update must be (initial/shared params) - (locally trained params); found {facts.delta}',
                 node=d.call, advisory=advisory)
        if ok_k and min_field is not None and ret_i is not None:
          # the minuend field must have been initialised to the same value as the trained field and passed through
          a = _nested_root_value(ff_i, ret_i[0], min_field)
          b = _nested_root_value(ff_i, ret_i[0], sub_field)
          same_start = a is not None and b is not None and _same_origin(ff_i, a, b)
          check.ob(rule + '.delta-origin', fi_i, f'init[{min_field!r}] vs init[{sub_field!r}]', same_start,
                   'the reference point of the delta must be the value training started from', advisory=advisory)
    if n_delta == 0:
      only_params = all(rv is not None and recf.field_of(rv) in [oc.field_p for oc in sites] for _, rv in ff_f.returns())
      if not only_params:
        check.ob(rule + '.delta', fi_f, 'return value', False,
                 'client_final returns neither a delta (start - trained) nor the trained params', advisory=advisory)
  return facts


def _fields_used(ff: FuncFlow, rec: sk.Record, ret_fields: Dict[object, ast.AST]) -> set:
  """Fields of the record read by the function, not counting a field's read
  inside its own next-state expression."""
  own: Dict[int, object] = {}
  for k, v in ret_fields.items():
    for x in ast.walk(v):
      own[id(x)] = k
  out = set()
  for n in ff.cfg.nodes:
    if n.ast is None:
      continue
    for x in n.walk():
      if isinstance(x, (ast.Subscript, ast.Attribute, ast.Name)) and isinstance(getattr(x, 'ctx', None), ast.Load):
        k = rec._field_of1(x)
        if k is None:
          continue
        if own.get(id(x)) == k:
          continue
        out.add(k)
        if isinstance(k, tuple):
          out.add(k[0])
  return out


def _from_result(ff: FuncFlow, e: ast.AST, target: ast.AST) -> bool:
  """e is `target` (an assignment target Name), possibly through elementwise
  post-processing of it (tree_map(f, target))."""
  for x in ff.expand(e):
    if sk.derives_from_result(ff, x, target):
      return True
    if isinstance(x, ast.Call) and ff.ext(x.func) in sk.TREE_MAPS and len(x.args) == 2:
      if _from_result(ff, x.args[1], target):
        return True
    if isinstance(x, ast.Name):
      ds = ff.defs_for(x)
      if ds and all(d.kind == 'assign' and d.value is not None and d.index is None and d.value is not x and
                    _from_result(ff, d.value, target) for d in ds):
        return True
  return False


def _interpolated_from(ff: FuncFlow, gcalls: List[ast.Call], rec: sk.Record, field_p) -> bool:
  """APFL: gradient evaluated at interpolate(coeff, client_params, server_params)."""
  for g in gcalls:
    if not g.args:
      continue
    for x in ff.deep_walk(g.args[0]):
      if rec.field_of(x) == field_p:
        return True
  return False


def _is_any_split_output(ff: FuncFlow, e: ast.Name) -> bool:
  ds = ff.defs_for(e)
  return bool(ds) and all(d.kind == 'assign' and isinstance(d.value, ast.Call) and ff.ext(d.value.func) in SPLITTERS
                          for d in ds)


def _nested_root_value(ff: FuncFlow, fields: Dict[object, ast.AST], key) -> Optional[ast.AST]:
  if key in fields:
    return fields[key]
  if isinstance(key, tuple) and len(key) == 2 and key[0] in fields:
    base = fields[key[0]]
    return ast.Attribute(value=base, attr=key[1], ctx=ast.Load())
  return None


def _start_kind(ff: FuncFlow, e: ast.AST, shared: str, client: str) -> str:
  kinds = set()
  for x in ff.expand(e):
    if isinstance(x, ast.Attribute) and not hasattr(x, 'lineno'):
      # synthetic: <client_input['state']>.params
      inner = _start_kind(ff, x.value, shared, client)
      kinds.add(inner + '.' + x.attr if inner != 'other' else 'other')
      continue
    r = sk.shared_root(ff, x, shared)
    if r is not None:
      kinds.add('shared' + r)
      continue
    r = sk.shared_root(ff, x, client)
    if r is not None:
      kinds.add('client_input' + r)
      continue
    if isinstance(x, ast.Name):
      ds = ff.defs_for(x)
      sub = set()
      for d in ds:
        if d.kind == 'assign' and d.value is not None:
          if d.index is None:
            sub.add(_start_kind(ff, d.value, shared, client))
          elif ff.param_of(d.value) == client:
            sub.add(f'client_input[{d.index[0]}]')
          else:
            sub.add('other')
        else:
          sub.add('other')
      kinds |= sub
      continue
    if isinstance(x, ast.Attribute):
      inner = _start_kind(ff, x.value, shared, client)
      kinds.add(inner + '.' + x.attr if inner != 'other' else 'other')
      continue
    kinds.add('other')
  if not kinds or 'other' in kinds:
    return 'other'
  return '|'.join(sorted(kinds))


def _opt_init_ok(ff: FuncFlow, ov: Optional[ast.AST], pv: ast.AST, shared: str, frozen_allowed: bool) -> Tuple[bool, str]:
  if ov is None:
    return False, 'optimizer state field missing from the initial state'
  for x in ff.expand(ov):
    if isinstance(x, ast.Call) and isinstance(x.func, ast.Attribute) and x.func.attr == 'init' and sk.is_optimizer_receiver(
        ff, x.func.value) and x.args:
      arg = x.args[0]
      if _same_origin(ff, arg, pv):
        return True, f'{txt(x.func)}({txt(arg)}) on the same params training starts from'
      return False, f'optimizer state is initialised from {txt(arg)} but training starts from {txt(pv)}'
    r = sk.shared_root(ff, x, shared)
    if r is not None and frozen_allowed:
      return True, f'optimizer state taken from shared{r} (frozen-state variant)'
    return False, f'optimizer state starts from {txt(x)[:50]}'
  return False, 'optimizer state not recognised'


def _same_origin(ff: FuncFlow, a: ast.AST, b: ast.AST) -> bool:
  xa, xb = ff.expand(a), ff.expand(b)
  if len(xa) != len(xb):
    return False
  for p, q in zip(xa, xb):
    if not (same_value(ff, p, q) or _same_synth(ff, p, q)):
      return False
  return True


def _same_synth(ff: FuncFlow, p: ast.AST, q: ast.AST) -> bool:
  if isinstance(p, ast.Attribute) and isinstance(q, ast.Attribute) and p.attr == q.attr:
    return _same_origin(ff, p.value, q.value)
  return False


def _from_client_input(ff: FuncFlow, e: ast.AST, client: str) -> bool:
  for x in ff.expand(e):
    if sk.shared_root(ff, x, client) is not None:
      continue
    if isinstance(x, ast.Name):
      ds = ff.defs_for(x)
      if ds and all(d.kind == 'assign' and d.value is not None and (
          ff.param_of(d.value) == client or sk.shared_root(ff, d.value, client) is not None) for d in ds):
        continue
    return False
  return True
