"""R-ATOMIC: a path whose existence means "done" is only created by rename.

Writers are discovered from resolved callees:
  open(p, 'w..'), tf.io.gfile.GFile(p, 'w..'), sqlite3.connect(p),
  shutil.copyfile/copy/copy2(_, p), lzma/gzip/bz2.open(p, 'w..')
and, through summaries, repo functions / class constructors that apply such a
writer to one of their parameters.

Publishers: os.rename / os.replace / shutil.move / tf.io.gfile.rename(T, P).
"""
from __future__ import annotations

import ast
from dataclasses import dataclass
from typing import Dict, List, Optional, Set, Tuple

from fjsa.flow import FuncFlow, arg_at, call_args, same, txt
from fjsa.model import ClassInfo, FuncInfo, Ref, Repo

OPENERS = {
    'builtins.open': (0, 'file', 1, 'mode'),
    'io.open': (0, 'file', 1, 'mode'),
    'lzma.open': (0, 'filename', 1, 'mode'),
    'gzip.open': (0, 'filename', 1, 'mode'),
    'bz2.open': (0, 'filename', 1, 'mode'),
    'tensorflow.io.gfile.GFile': (0, 'name', 1, 'mode'),
}
CREATORS = {  # always create/overwrite the path argument
    'sqlite3.connect': (0, 'database'),
    'shutil.copyfile': (1, 'dst'),
    'shutil.copy': (1, 'dst'),
    'shutil.copy2': (1, 'dst'),
    'numpy.save': (0, 'file'),
}
RENAMERS = {
    'os.rename': (0, 1),
    'os.replace': (0, 1),
    'shutil.move': (0, 1),
    'tensorflow.io.gfile.rename': (0, 1),
}
EXISTS = {'os.path.exists', 'os.path.isfile', 'tensorflow.io.gfile.exists'}
REMOVERS = {'os.remove', 'os.unlink', 'tensorflow.io.gfile.remove'}


def _ext_path(ff: FuncFlow, call: ast.Call) -> Optional[str]:
  """External dotted path of the callee; `tf` (= util.import_tf()) is mapped
  to `tensorflow`."""
  r = ff.callee(call)
  if r.kind == 'ext':
    return r.path
  # tf = util.import_tf()  ->  attr chain rooted at a local bound to that call
  chain = []
  e = call.func
  while isinstance(e, ast.Attribute):
    chain.append(e.attr)
    e = e.value
  if isinstance(e, ast.Name):
    base = ff.repo.resolve(ff.scope_at(call), e)
    if base.kind == 'local' and len(base.bindings) == 1 and isinstance(
        base.bindings[0].value, ast.Call):
      inner = ff.repo.resolve(base.scope, base.bindings[0].value.func)
      if inner.kind == 'func' and inner.func.name == 'import_tf':
        return 'tensorflow.' + '.'.join(reversed(chain))
  return None


def ext_path(ff: FuncFlow, call: ast.Call) -> Optional[str]:
  return _ext_path(ff, call)


@dataclass
class Writer:
  call: ast.Call
  path: ast.AST
  how: str
  mode: Optional[str] = None


def _mode_writes(mode: Optional[str]) -> bool:
  return mode is not None and any(c in mode for c in 'wax+')


class AtomicAnalysis:

  def __init__(self, repo: Repo):
    self.repo = repo
    self._summary: Dict[int, Optional[Dict[str, str]]] = {}
    self._busy: Set[int] = set()

  # --- direct writers in a function
  def writers(self, ff: FuncFlow) -> List[Writer]:
    out = []
    for _, call in ff.calls():
      p = _ext_path(ff, call)
      if p in OPENERS:
        pi, pn, mi, mn = OPENERS[p]
        path = arg_at(call, pi, pn)
        mode_e = arg_at(call, mi, mn)
        mode = mode_e.value if isinstance(mode_e, ast.Constant) and isinstance(
            mode_e.value, str) else ('r' if mode_e is None else None)
        if path is not None and (mode is None or _mode_writes(mode)):
          out.append(Writer(call, path, p, mode))
      elif p in CREATORS:
        pi, pn = CREATORS[p]
        path = arg_at(call, pi, pn)
        if path is not None:
          out.append(Writer(call, path, p))
      else:
        # repo callee that writes one of its parameters
        r = ff.callee(call)
        target = self._callable_target(r)
        if target is not None:
          summ = self.summary(target)
          if summ:
            params = target.positional_params
            if params and params[0] in ('self', 'cls') and (r.kind == 'class' or r.base is not None):
              params = params[1:]
            binding = call_args(call, params, r.bound_args, r.bound_kwargs)
            for pname, how in summ.items():
              if pname in binding:
                out.append(Writer(call, binding[pname], f'{target.module.name}:{target.qualname}({how})'))
    return out

  def _callable_target(self, r: Ref) -> Optional[FuncInfo]:
    if r.kind == 'func':
      return r.func
    if r.kind == 'class':
      return self.repo.find_method(r.cls, '__init__')
    return None

  def summary(self, fi: FuncInfo) -> Dict[str, str]:
    """param name -> 'in-place' | 'atomic' for params whose path is created."""
    k = id(fi.node)
    if k in self._summary:
      return self._summary[k] or {}
    if k in self._busy:
      return {}
    self._busy.add(k)
    try:
      ff = FuncFlow.of(self.repo, fi)
      out: Dict[str, str] = {}
      for w in self.writers(ff):
        # a path chosen by a conditional expression (tmp = p + '.tmp' if c else p): every alternative counts, and one in-place
        # alternative makes the function in-place
        alts = []
        stack = list(ff.expand(w.path))
        while stack:
          e = stack.pop()
          if isinstance(e, ast.IfExp):
            stack += list(ff.expand(e.body)) + list(ff.expand(e.orelse))
          else:
            alts.append(e)
        if len(alts) > 1:
          for e in alts:
            b2, s2 = split_suffix(ff, e)
            pn2 = ff.param_of(b2) if b2 is not None else None
            if pn2 is not None and s2 == '':
              out[pn2] = 'in-place'
        base, suffix = split_suffix(ff, w.path)
        pname = ff.param_of(base) if base is not None else None
        if pname is None:
          continue
        if suffix == '':
          out[pname] = 'in-place'
        else:
          # temp derived from the parameter: atomic iff published by rename
          ok = self.publishes(ff, w, base)
          if out.get(pname) != 'in-place':
            out[pname] = 'atomic' if ok else 'temp-not-published'
      self._summary[k] = out
      return out
    finally:
      self._busy.discard(k)

  def renames(self, ff: FuncFlow) -> List[Tuple[ast.Call, ast.AST, ast.AST]]:
    out = []
    for _, call in ff.calls():
      p = _ext_path(ff, call)
      if p in RENAMERS:
        si, di = RENAMERS[p]
        s, d = arg_at(call, si, 'src'), arg_at(call, di, 'dst')
        if s is None:
          s = arg_at(call, si, 'oldname')
        if d is None:
          d = arg_at(call, di, 'newname')
        if s is not None and d is not None:
          out.append((call, s, d))
    return out

  def renames_on_failure_path(self, ff: FuncFlow) -> List[Tuple[ast.Call, str]]:
    """Renames placed in a `finally:` body or an exception handler: they also run while an exception (KeyboardInterrupt and
    SystemExit included) is leaving the block, i.e. after an incomplete write."""
    out = []
    m = ff.module
    for call, _, _ in self.renames(ff):
      cur, child = m.parent_of.get(call), call
      while cur is not None and cur is not ff.fi.node:
        if isinstance(cur, ast.Try) and any(child is st for st in cur.finalbody):
          out.append((call, 'finally'))
          break
        if isinstance(cur, ast.ExceptHandler):
          out.append((call, 'except'))
          break
        child, cur = cur, m.parent_of.get(cur)
    return out

  def publishes(self, ff: FuncFlow, w: Writer, final: ast.AST) -> bool:
    """Every normal path from the writer to exit passes rename(w.path, final)."""
    wn = ff.node_of(w.call)
    if wn is None:
      return False
    good = set()
    for call, s, d in self.renames(ff):
      if same_path(ff, s, w.path) and same_path(ff, d, final):
        n = ff.node_of(call)
        if n is not None:
          good.add(n.id)
    if not good:
      return False
    reach = ff.cfg.reachable_from([wn], avoid=good, labels_excluded=('exc', 'raise', 'reraise'))
    if ff.cfg.exit.id in reach:
      return False
    return self.closed_before(ff, w, good)

  def closed_before(self, ff: FuncFlow, w: Writer, rename_ids) -> bool:
    """The writer's file object is closed before the rename: a writer used as a `with` item must have left its block
    (buffered data is flushed on close; renaming inside the block publishes an incomplete file)."""
    m = ff.module
    p = m.parent_of.get(w.call)
    with_stmt = None
    if isinstance(p, ast.withitem):
      with_stmt = m.parent_of.get(p)
    if with_stmt is None:
      # writer call nested in another call that is the with item: with Builder(path) as b / with closing(open(..))
      q = p
      for _ in range(3):
        if isinstance(q, ast.withitem):
          with_stmt = m.parent_of.get(q)
          break
        q = m.parent_of.get(q) if q is not None else None
    if with_stmt is None:
      return True
    for n in ff.cfg.nodes:
      if n.id in rename_ids and n.ast is not None:
        x = n.ast
        while x is not None:
          if x is with_stmt:
            return False
          x = m.parent_of.get(x)
    return True


def split_suffix(ff: FuncFlow, e: ast.AST) -> Tuple[Optional[ast.AST], str]:
  """Splits a path expression into (base expr, constant suffix).

  `p + '.partial'` -> (p, '.partial'); f'{p}.tmp' -> (p, '.tmp'); p -> (p, '').
  Names are expanded through single plain assignments.
  """
  xs = ff.expand(e)
  if len(xs) != 1:
    return e, ''
  x = xs[0]
  if isinstance(x, ast.BinOp) and isinstance(x.op, ast.Add) and isinstance(
      x.right, ast.Constant) and isinstance(x.right.value, str):
    base, suf = split_suffix(ff, x.left)
    return base, suf + x.right.value
  if isinstance(x, ast.JoinedStr) and len(x.values) >= 2 and isinstance(
      x.values[0], ast.FormattedValue) and x.values[0].format_spec is None and all(
          isinstance(v, ast.Constant) for v in x.values[1:]):
    base, suf = split_suffix(ff, x.values[0].value)
    return base, suf + ''.join(v.value for v in x.values[1:])
  return x, ''


def same_path(ff: FuncFlow, a: ast.AST, b: ast.AST) -> bool:
  ba, sa = split_suffix(ff, a)
  bb, sb = split_suffix(ff, b)
  if ba is None or bb is None:
    return False
  return sa == sb and same_value(ff, ba, bb)


def same_value(ff: FuncFlow, a: ast.AST, b: ast.AST) -> bool:
  """Same expression and, for local names, the same reaching definitions."""
  if not same(a, b):
    return False
  na = [x for x in ast.walk(a) if isinstance(x, ast.Name)]
  nb = [x for x in ast.walk(b) if isinstance(x, ast.Name)]
  for x, y in zip(na, nb):
    dx, dy = ff.defs_for(x), ff.defs_for(y)
    if dx and dy and dx != dy:
      return False
  return True
