"""Repository disciplines that hold without exception on the pinned tree (each confirmed by counting) and whose breach changes
behaviour only on particular inputs - exactly the kind of change the test suite does not see.

  R-DISCARD    a bare expression statement never calls a repository function that returns a value, nor `.replace(...)` of a
               dataclass: all 44 bare calls of repository functions on the pinned tree are to functions without a return value
               (asserts, loggers, savers, flag definitions). A discarded result means the computed update is lost.
  R-OVERRIDE   a method that overrides a method of a repository base class has the same positional parameters and the same
               defaults (no difference anywhere on the pinned tree): callers written against the interface get the same behaviour
               from every implementation.
  R-ONEPASS    a parameter annotated Iterable[...] / Iterator[...] is consumed at most once on any path, never inside a loop,
               never through len() or indexing, unless it was first materialised (p = list(p) / set(p) / sorted(p)) or the use is
               guarded by an isinstance test of the parameter: a generator argument would otherwise be exhausted by the first use
               (30 such parameters on the pinned tree, none violates this).
  R-COPY       a defensive copy made with tree_map uses a copying function (jnp.copy / jnp.array / np.copy / np.array /
               copy.deepcopy); an arithmetic identity (x + 0, x * 1) is not a copy of a bool leaf - it changes its dtype.
  R-NONDET     hash() of bytes / str depends on the interpreter's hash seed: it must not feed a random key or an order.
"""
from __future__ import annotations

import ast
from typing import Dict, List, Optional, Set, Tuple

from fjsa.flow import FuncFlow, guards_of, txt
from fjsa.model import FuncInfo, Repo
from fjsa.rules import wmean

MATERIALISE = {'builtins.list', 'builtins.set', 'builtins.tuple', 'builtins.sorted', 'builtins.frozenset', 'builtins.dict'}
COPY_FUNCS = {'jax.numpy.copy', 'jax.numpy.array', 'numpy.copy', 'numpy.array', 'copy.deepcopy', 'copy.copy', 'jax.numpy.asarray'}


def discarded_results(ff: FuncFlow) -> List[Tuple[ast.Call, str]]:
  out = []
  for nd in ff.cfg.nodes:
    if nd.kind != 'stmt' or not isinstance(nd.ast, ast.Expr) or not isinstance(nd.ast.value, ast.Call):
      continue
    c = nd.ast.value
    r = ff.callee(c)
    if r.kind == 'func' and isinstance(r.func.node, (ast.FunctionDef, ast.AsyncFunctionDef)):
      g = r.func
      own = []
      stack = list(g.node.body)
      while stack:
        x = stack.pop()
        if isinstance(x, (ast.FunctionDef, ast.AsyncFunctionDef, ast.ClassDef, ast.Lambda)):
          continue
        own.append(x)
        stack.extend(ast.iter_child_nodes(x))
      returns_value = any(isinstance(x, ast.Return) and x.value is not None and not (isinstance(x.value, ast.Constant) and x.value.value is None)
                          for x in own)
      is_gen = any(isinstance(x, (ast.Yield, ast.YieldFrom)) for x in own)
      if returns_value or is_gen:
        out.append((c, f'{g.qualname} returns a value'))
    elif r.kind == 'class':
      out.append((c, f'constructs a {r.cls.name} that is dropped'))
    elif isinstance(c.func, ast.Attribute) and c.func.attr == 'replace' and not c.args and c.keywords:
      out.append((c, 'replace() returns a new object; the receiver is unchanged'))
  return out


def override_mismatches(repo: Repo, fi: FuncInfo) -> List[str]:
  sc = fi.scope.parent
  if sc is None or sc.kind != 'class' or fi.name.startswith('__'):
    return []
  ci = fi.module.classes_by_node.get(sc.node)
  if ci is None:
    return []
  out = []
  for b in repo.class_bases(ci):
    if b.kind != 'class':
      continue
    bm = b.cls.methods.get(fi.name)
    if bm is None:
      continue
    if fi.positional_params != bm.positional_params:
      out.append(f'positional parameters {fi.positional_params} differ from {b.cls.name}.{fi.name}{bm.positional_params}')
    for p in fi.params:
      if p in bm.params:
        d1, d2 = fi.param_default(p), bm.param_default(p)
        t1, t2 = (txt(d1) if d1 is not None else None), (txt(d2) if d2 is not None else None)
        if t1 != t2:
          out.append(f'default of `{p}` is {t1} here but {t2} in {b.cls.name}.{fi.name}')
  return out


def iterable_params(fi: FuncInfo) -> List[str]:
  out = []
  a = fi.node.args
  for x in a.posonlyargs + a.args + a.kwonlyargs:
    ann = txt(x.annotation) if x.annotation is not None else ''
    if ann.startswith(('Iterable[', 'Iterator[', 'typing.Iterable[', 'typing.Iterator[')):
      out.append(x.arg)
  return out


def onepass_problems(ff: FuncFlow, p: str) -> List[str]:
  fi = ff.fi
  m = ff.module
  uses = []
  for n in ff.cfg.nodes:
    if n.ast is None:
      continue
    for x in n.walk():
      if not (isinstance(x, ast.Name) and x.id == p and isinstance(x.ctx, ast.Load)):
        continue
      if ff.scope_at(x).lookup_scope(p) is not fi.scope:
        continue
      if ff.scope_at(x) is fi.scope:
        ds = ff.defs_for(x)
        if ds and not all(d.kind == 'param' for d in ds):
          continue   # (possibly) rebound to a materialised copy
      parent = m.parent_of.get(x)
      if isinstance(parent, ast.Call) and ff.ext(parent.func) == 'builtins.isinstance':
        continue
      # next(p) draws one item: stepping through an iterator item by item (also in a loop) is what an iterator is for
      if isinstance(parent, ast.Call) and ff.ext(parent.func) == 'builtins.next' and parent.args and parent.args[0] is x:
        continue
      # keeping a reference (x = p, self.f = p, a if c else p, return p) does not consume the iterable
      if (isinstance(parent, (ast.Assign, ast.AnnAssign, ast.Return)) and getattr(parent, 'value', None) is x) or (
          isinstance(parent, ast.IfExp) and (parent.body is x or parent.orelse is x)):
        continue
      if any(pol and any(isinstance(c, ast.Call) and ff.ext(c.func) == 'builtins.isinstance' and c.args and isinstance(c.args[0], ast.Name) and
                         c.args[0].id == p for c in ff.deep_walk(t)) for t, pol in guards_of(ff, x)):
        continue
      if not any(x is y for _, y in uses):
        uses.append((n, x))
  problems = []
  for n, x in uses:
    parent = m.parent_of.get(x)
    if isinstance(parent, ast.Subscript) and parent.value is x:
      problems.append(f'indexed at line {x.lineno}')
    elif isinstance(parent, ast.Call) and x in parent.args and ff.ext(parent.func) == 'builtins.len':
      problems.append(f'len() at line {x.lineno}')
    lp = wmean._loop_of(ff, x)
    if lp is not None:
      in_header = isinstance(lp, ast.For) and any(x is y for y in ast.walk(lp.iter)) and wmean._loop_of(ff, lp) is None
      if not in_header:
        problems.append(f'consumed inside a loop at line {x.lineno}')
  for i, (a, xa) in enumerate(uses):
    for b, xb in uses[i + 1:]:
      if a is b or ff.cfg.reaches(a, b) or ff.cfg.reaches(b, a):
        problems.append(f'used at line {xa.lineno} and again at line {xb.lineno} on the same path')
  return problems


def stored_iterables(repo: Repo, ff: FuncFlow, p: str) -> List[Tuple[ast.AST, str]]:
  """`self.<a> = p` for an Iterable parameter p that was not materialised, where another method of the class iterates self.<a>: the
  method can be called many times (every batch, every pass), a generator argument serves only the first call."""
  fi = ff.fi
  sc = fi.scope.parent
  if sc is None or sc.kind != 'class':
    return []
  ci = fi.module.classes_by_node.get(sc.node)
  if ci is None or '__next__' in ci.methods:
    return []
  out = []
  for n in ff.cfg.nodes:
    st = n.ast
    if n.kind == 'stmt' and isinstance(st, ast.Assign) and len(st.targets) == 1 and isinstance(st.targets[0], ast.Attribute) and isinstance(
        st.targets[0].value, ast.Name) and st.targets[0].value.id == 'self' and isinstance(st.value, ast.Name) and st.value.id == p:
      ds = ff.defs_for(st.value)
      if not ds or not all(d.kind == 'param' for d in ds):
        continue
      attr = st.targets[0].attr
      for name, mth in ci.methods.items():
        if mth is fi:
          continue
        for x in ast.walk(mth.node):
          it = None
          if isinstance(x, (ast.For, ast.comprehension)):
            it = x.iter
          elif isinstance(x, ast.Starred):
            it = x.value
          if it is not None and isinstance(it, ast.Attribute) and it.attr == attr and isinstance(it.value, ast.Name) and it.value.id == 'self':
            out.append((st, f'self.{attr} is iterated in {ci.name}.{name}'))
            break
  return out


def bad_copies(ff: FuncFlow) -> List[Tuple[ast.Call, str]]:
  out = []
  for _, c in ff.calls():
    if ff.ext(c.func) not in ('jax.tree_util.tree_map', 'jax.tree_map') or len(c.args) != 2:
      continue
    f = c.args[0]
    if isinstance(f, ast.Lambda) and len(f.args.args) == 1:
      p = f.args.args[0].arg
      b = f.body
      if isinstance(b, ast.BinOp) and isinstance(b.op, (ast.Add, ast.Mult, ast.Sub)):
        sides = (b.left, b.right)
        nm = [s for s in sides if isinstance(s, ast.Name) and s.id == p]
        ct = [s for s in sides if isinstance(s, ast.Constant) and s.value in (0, 1, 0.0, 1.0)]
        if len(nm) == 1 and len(ct) == 1:
          out.append((c, txt(b)))
  return out


def hash_calls(ff: FuncFlow) -> List[ast.Call]:
  return [c for _, c in ff.calls() if ff.ext(c.func) == 'builtins.hash']


def overwritten_accumulators(ff: FuncFlow) -> List[Tuple[ast.stmt, str]]:
  """A variable that exists before a loop, is assigned by a top-level statement of the loop body without the loop ever reading the value
  of the previous iteration, and is read after the loop: every iteration but the last is thrown away (`y = f(x, h[d])` where
  `y = f(y, h[d])` was meant). None on the pinned tree."""
  from fjsa.flow import carried_reads
  out = []
  for n in ff.cfg.nodes:
    if n.kind not in ('for', 'while'):
      continue
    loop = n.ast
    inside = {id(x) for x in ast.walk(loop)}
    for st in loop.body:
      if not (isinstance(st, ast.Assign) and len(st.targets) == 1 and isinstance(st.targets[0], ast.Name)):
        continue
      nm = st.targets[0].id
      if not any(d.name == nm and id(d.node.ast) not in inside for ds in ff.rd.defs_at.values() for d in ds if d.node is not None and d.node.ast is not None):
        continue
      if isinstance(loop, ast.For) and any(isinstance(x, ast.Name) and x.id == nm for x in ast.walk(loop.target)):
        continue
      after = False
      for nd in ff.cfg.nodes:
        if nd.ast is None or id(nd.ast) in inside:
          continue
        for x in nd.walk():
          if isinstance(x, ast.Name) and x.id == nm and isinstance(x.ctx, ast.Load) and id(x) not in inside:
            if any(d.node is not None and d.node.ast is st for d in ff.defs_for(x)):
              after = True
      if after and not carried_reads(ff, loop, nm):
        out.append((st, nm))
  return out


def set_order_uses(ff: FuncFlow) -> List[Tuple[ast.AST, str]]:
  """An ordered sequence made from a set (list(set(x)), tuple(set(x)), a loop or comprehension over set(x) that builds a list): the
  order of a set of str / bytes depends on the interpreter's hash seed, so it differs between two runs of the same program."""
  out = []
  def is_set(e):
    return (isinstance(e, ast.Call) and ff.ext(e.func) in ('builtins.set', 'builtins.frozenset')) or isinstance(e, (ast.Set, ast.SetComp))
  for n in ff.cfg.nodes:
    if n.ast is None:
      continue
    for x in n.walk():
      if isinstance(x, ast.Call) and ff.ext(x.func) in ('builtins.list', 'builtins.tuple', 'numpy.array', 'numpy.asarray') and x.args and is_set(x.args[0]):
        out.append((x, txt(x)[:60]))
      elif isinstance(x, ast.ListComp) and any(is_set(g.iter) for g in x.generators):
        out.append((x, txt(x)[:60]))
    if n.kind == 'for' and is_set(n.ast.iter):
      appends = any(isinstance(c, ast.Call) and isinstance(c.func, ast.Attribute) and c.func.attr in ('append', 'extend') for c in ast.walk(n.ast))
      yields = any(isinstance(c, (ast.Yield, ast.YieldFrom)) for c in ast.walk(n.ast))
      if appends or yields:
        out.append((n.ast.iter, 'for ... in ' + txt(n.ast.iter)[:50]))
  return out


def clamped_before_validation(ff: FuncFlow) -> List[Tuple[ast.AST, str]]:
  """`p = min(p, ...)` / max / clip of a parameter that a later `if <test on p>: raise` validates: the check no longer sees what the
  caller passed (a legal value can be clamped into the rejected range, an illegal one into the accepted range)."""
  fi = ff.fi
  out = []
  for n in ff.cfg.nodes:
    if n.kind != 'if' or not any(isinstance(s, ast.Raise) for s in n.ast.body):
      continue
    for x in ast.walk(n.ast.test):
      if isinstance(x, ast.Name) and x.id in fi.params:
        for d in ff.defs_for(x):
          v = d.value
          if d.kind == 'assign' and isinstance(v, ast.Call) and (ff.ext(v.func) or '').split('.')[-1] in ('min', 'max', 'minimum', 'maximum', 'clip') and any(
              isinstance(y, ast.Name) and y.id == x.id for a in v.args for y in ast.walk(a)):
            out.append((d.node.ast if d.node is not None else x, x.id))
  seen = set()
  return [(a, b) for a, b in out if not (id(a) in seen or seen.add(id(a)))]


def none_misuse(ff: FuncFlow) -> List[Tuple[ast.AST, str]]:
  """Two contradictions around an `is None` test (none on the pinned tree): (a) a value used as a subscript key exactly where it is
  known to be None (`x[k] if k is None else x`); (b) a parameter that is replaced by its default exactly when the caller did pass a
  value (`if p is not None: p = default(...)`), which also leaves None in place when nothing was passed."""
  fi = ff.fi
  out = []

  def none_test(t):
    return isinstance(t, ast.Compare) and len(t.ops) == 1 and isinstance(t.ops[0], ast.Is) and isinstance(
        t.comparators[0], ast.Constant) and t.comparators[0].value is None
  for n in ff.cfg.nodes:
    if n.ast is None:
      continue
    for x in n.walk():
      if isinstance(x, ast.Subscript) and isinstance(x.ctx, ast.Load) and isinstance(x.slice, (ast.Name, ast.Attribute)):
        for t, pol in guards_of(ff, x):
          if pol and none_test(t) and txt(t.left) == txt(x.slice):
            out.append((x, f'`{txt(x)[:50]}` is evaluated where `{txt(x.slice)}` is None'))
    st = n.ast
    if n.kind == 'stmt' and isinstance(st, ast.Assign) and len(st.targets) == 1 and isinstance(st.targets[0], ast.Name) and st.targets[0].id in fi.params:
      pname = st.targets[0].id
      if any(isinstance(y, ast.Name) and y.id == pname for y in ast.walk(st.value)):
        continue
      for t, pol in guards_of(ff, st, implied=False):
        if (not pol) and none_test(t) and isinstance(t.left, ast.Name) and t.left.id == pname:
          ds = ff.defs_for(t.left)
          if ds and all(d.kind == 'param' for d in ds):
            out.append((st, f'`{txt(st)[:50]}` replaces `{pname}` only when the caller passed a value (and leaves None when nothing was passed)'))
  return out


def starved_collectors(ff: FuncFlow) -> List[Tuple[ast.AST, str]]:
  """A list / dict / set created empty, read later (returned, passed on, iterated), and never fed: no append / extend / add / insert /
  update / item store / += on it anywhere in the function. The loop that was meant to fill it contributes nothing. (None on the
  pinned tree.) Decided on the source as written: the canonical form would inline the now single-use empty literal."""
  from fjsa import shapes
  fi = ff.fi
  raw = fi.module.__dict__.get('_raw_funcs') or shapes.raw_functions(fi.module.src)
  fi.module.__dict__['_raw_funcs'] = raw
  fn = raw.get(fi.qualname)
  if fn is None:
    return []
  own = []
  stack = list(fn.body)
  while stack:
    x = stack.pop()
    own.append(x)
    stack.extend(ast.iter_child_nodes(x))   # nested functions included: a closure may feed or read the collector
  params = {a.arg for a in fn.args.posonlyargs + fn.args.args + fn.args.kwonlyargs}
  binds: Dict[str, List[ast.AST]] = {}
  for x in own:
    targets = []
    if isinstance(x, ast.Assign):
      targets = [(t, x.value) for t in x.targets]
    elif isinstance(x, ast.AnnAssign) and x.value is not None:
      targets = [(x.target, x.value)]
    elif isinstance(x, (ast.For, ast.comprehension)):
      targets = [(x.target, None)]
    elif isinstance(x, ast.With):
      targets = [(i.optional_vars, None) for i in x.items if i.optional_vars is not None]
    for t, v in targets:
      for n in ast.walk(t):
        if isinstance(n, ast.Name) and isinstance(n.ctx, ast.Store):
          binds.setdefault(n.id, []).append(v if t is n else None)
  out = []
  PURE = ('jax.', 'jnp.', 'np.', 'numpy.', 'len', 'sum', 'list', 'tuple', 'sorted', 'zip', 'enumerate', 'tree_util.', 'dict', 'set', 'max', 'min',
          'any', 'all', 'iter', 'reversed', 'str', 'repr', 'print', 'logging.', 'hk.')
  parent = {}
  for x in own:
    for ch in ast.iter_child_nodes(x):
      parent[ch] = x
  for name, vals in binds.items():
    if name in params or len(vals) != 1:
      continue
    v = vals[0]
    empty = (isinstance(v, (ast.List, ast.Set)) and not v.elts) or (isinstance(v, ast.Dict) and not v.keys) or (
        isinstance(v, ast.Call) and not v.args and not v.keywords and txt(v.func) in ('list', 'dict', 'set'))
    if not empty:
      continue
    fed = False
    reads = 0
    for x in own:
      if isinstance(x, ast.Call) and isinstance(x.func, ast.Attribute) and isinstance(x.func.value, ast.Name) and x.func.value.id == name:
        if x.func.attr in ('append', 'extend', 'add', 'insert', 'update', 'setdefault', 'appendleft', '__setitem__'):
          fed = True
      elif isinstance(x, ast.Subscript) and isinstance(x.ctx, (ast.Store, ast.Del)) and isinstance(x.value, ast.Name) and x.value.id == name:
        fed = True
      elif isinstance(x, ast.AugAssign) and isinstance(x.target, ast.Name) and x.target.id == name:
        fed = True
      elif isinstance(x, (ast.Global, ast.Nonlocal)) and name in x.names:
        fed = True
      elif isinstance(x, ast.Name) and x.id == name and isinstance(x.ctx, ast.Load):
        par = parent.get(x)
        if isinstance(par, ast.Attribute) and par.value is x:
          continue
        if isinstance(par, ast.Call) and (x in par.args or any(k.value is x for k in par.keywords)) and not txt(par.func).startswith(PURE):
          fed = True   # handed to code that may fill it
        if isinstance(par, ast.Starred) or isinstance(par, ast.keyword):
          pass
        reads += 1
    if not fed and reads:
      out.append((fi.node, name))
  return out


def silent_generators(fi: FuncInfo) -> bool:
  """Annotated as an iterator / generator, but the body neither yields nor returns a value."""
  node = fi.node
  if not isinstance(node, (ast.FunctionDef, ast.AsyncFunctionDef)) or node.returns is None:
    return False
  ann = txt(node.returns)
  if not ann.startswith(('Iterator[', 'Iterable[', 'Generator[', 'typing.Iterator[', 'typing.Iterable[', 'typing.Generator[')):
    return False
  if any('abstractmethod' in txt(d) or 'overload' in txt(d) for d in node.decorator_list):
    return False
  own = []
  stack = list(node.body)
  while stack:
    x = stack.pop()
    if isinstance(x, (ast.FunctionDef, ast.AsyncFunctionDef, ast.ClassDef, ast.Lambda)):
      continue
    own.append(x)
    stack.extend(ast.iter_child_nodes(x))
  if any(isinstance(x, (ast.Yield, ast.YieldFrom)) for x in own):
    return False
  if any(isinstance(x, ast.Return) and x.value is not None for x in own):
    return False
  if all(isinstance(st, (ast.Pass, ast.Raise)) or (isinstance(st, ast.Expr) and isinstance(st.value, ast.Constant)) for st in node.body):
    return False   # abstract stub
  return True


MEMO = {'functools.lru_cache', 'functools.cache'}


def module_state_names(m) -> Set[str]:
  """Module-level names whose object changes while the program runs: an attribute or item of it is assigned somewhere in the module,
  it is rebound through `global`, or a mutating method is called on it inside a function."""
  cache = m.__dict__.setdefault('_state_names', None)
  if cache is not None:
    return cache
  top = {b for b in m.scope.bindings}
  out: Set[str] = set()
  for fn in m.functions():
    for x in ast.walk(fn.node):
      if isinstance(x, ast.Global):
        out.update(x.names)
      elif isinstance(x, (ast.Attribute, ast.Subscript)) and isinstance(x.ctx, (ast.Store, ast.Del)) and isinstance(x.value, ast.Name) and \
          x.value.id in top and fn.scope.lookup_scope(x.value.id) is m.scope:
        out.add(x.value.id)
      elif isinstance(x, ast.Call) and isinstance(x.func, ast.Attribute) and isinstance(x.func.value, ast.Name) and x.func.value.id in top and \
          x.func.attr in ('append', 'extend', 'add', 'update', 'setdefault', 'pop', 'clear', 'insert', 'remove') and \
          fn.scope.lookup_scope(x.func.value.id) is m.scope:
        out.add(x.func.value.id)
  m.__dict__['_state_names'] = out
  return out


def reads_module_state(repo: Repo, fi: FuncInfo, depth: int = 4, _seen=None) -> Optional[str]:
  """'<module>.<name> (via f -> g)' when `fi`, or a repository function it calls (to `depth`), reads run-time module state."""
  _seen = _seen if _seen is not None else set()
  if id(fi.node) in _seen or depth < 0:
    return None
  _seen.add(id(fi.node))
  state = module_state_names(fi.module)
  for x in ast.walk(fi.node):
    if isinstance(x, ast.Name) and isinstance(x.ctx, ast.Load) and x.id in state and fi.scope.lookup_scope(x.id) is fi.module.scope:
      return f'{fi.module.name}.{x.id} (read in {fi.qualname})'
  try:
    ff = FuncFlow.of(repo, fi)
  except Exception:  # pylint: disable=broad-except
    return None
  for _, c in ff.calls():
    r = ff.callee(c)
    g = r.func if r.kind == 'func' else None
    if g is not None and isinstance(g.node, (ast.FunctionDef, ast.AsyncFunctionDef)):
      w = reads_module_state(repo, g, depth - 1, _seen)
      if w:
        return w
  return None


def stale_memoisation(repo: Repo, ff: FuncFlow) -> List[Tuple[ast.AST, str]]:
  fi = ff.fi
  out = []
  for d in getattr(fi.node, 'decorator_list', []):
    f = d.func if isinstance(d, ast.Call) else d
    if ff.ext(f) in MEMO or txt(f).split('.')[-1] in ('lru_cache', 'cache'):
      w = reads_module_state(repo, fi)
      if w:
        out.append((d, w))
  return out


def check_lints(check, funcs, rule_prefix: str = ''):
  repo = check.repo
  n = 0
  for item in funcs:
    fi, only = item if isinstance(item, tuple) else (item, None)
    if only is not None or not isinstance(fi.node, (ast.FunctionDef, ast.AsyncFunctionDef)):
      continue
    n += 1
    try:
      ff = FuncFlow.of(repo, fi)
    except Exception:  # pylint: disable=broad-except
      continue
    for c, why in discarded_results(ff):
      check.ob('R-DISCARD', fi, txt(c)[:80], False, f'the result of this call is thrown away ({why}): the update it computes never takes effect', node=c, exact=True)
    for why in override_mismatches(repo, fi):
      check.ob('R-OVERRIDE', fi, fi.qualname, False, f'{why}: code written against the interface behaves differently with this implementation',
               node=fi.node, exact=True)
    for d, w in stale_memoisation(repo, ff):
      check.ob('R-CACHE', fi, '@' + txt(d)[:60], False,
               f'the memoised result depends on more than the arguments: {w} changes at run time (backend selection, configuration), so a '
               'cached result outlives the state it was built for', node=d, exact=True)
    for nd_ in ff.cfg.nodes:
      st_ = nd_.ast
      if nd_.kind == 'stmt' and isinstance(st_, ast.Assign) and isinstance(st_.targets[0], ast.Tuple) and isinstance(st_.value, ast.Call) and \
          ff.ext(st_.value.func) == 'builtins.zip' and len(st_.value.args) == 1 and isinstance(st_.value.args[0], ast.Starred):
        guarded = any(True for _ in guards_of(ff, st_, implied=True))
        if not guarded:
          check.ob('R-EMPTY', fi, txt(st_)[:70], False,
                   'unpacking zip(*rows) into a fixed number of names raises ValueError when there are no rows (an empty tree, an empty '
                   'cohort): the loop it replaces simply produced empty lists', node=st_, exact=True)
    for st, cname in starved_collectors(ff):
      check.ob('R-ACCUM', fi, f'{cname} = <empty>', False,
               f'`{cname}` is created empty and read later, but nothing is ever added to it: whatever the loop computes never reaches the result',
               node=st, exact=True)
    if silent_generators(fi):
      check.ob('R-ACCUM', fi, f'{fi.qualname} -> {txt(fi.node.returns)[:40]}', False,
               'declared to produce an iterator but neither yields nor returns one: callers iterate over None / get nothing', exact=True)
    for x, why in none_misuse(ff):
      check.ob('R-NONE', fi, txt(x)[:70], False, why + ': the two arms of the None test are the wrong way round', node=x, exact=True)
    for st, pname in clamped_before_validation(ff):
      check.ob('R-VALIDATE.clamped', fi, txt(st)[:70], False,
               f'`{pname}` is clamped before the check that validates it: the check sees the clamped value, so an argument the function '
               'documents as valid can be rejected (or an invalid one accepted)', node=st, exact=True)
    for x, what in set_order_uses(ff):
      check.ob('R-NONDET.set-order', fi, what, False,
               'a sequence whose order comes from a set: for str / bytes elements it changes with the interpreter\'s hash seed, so a restarted '
               'run does not see the same order (sort it, or keep the original order with dict.fromkeys)', node=x, exact=True)
    for st, nm in overwritten_accumulators(ff):
      check.ob('R-LOOPCARRY', fi, txt(st)[:80], False,
               f'`{nm}` is set before the loop and read after it, but the loop overwrites it in every iteration without reading the previous '
               'value: only the last iteration has any effect', node=st, exact=True)
    for p in iterable_params(fi):
      for st, why in stored_iterables(repo, ff, p):
        check.ob('R-ONEPASS', fi, txt(st)[:70], False,
                 f'the iterable parameter `{p}` is kept as it is and {why}: a one-shot iterable (generator, map) is empty from the second '
                 'call on; materialise it (tuple(...)) when storing', node=st, exact=True)
      for why in onepass_problems(ff, p):
        check.ob('R-ONEPASS', fi, f'iterable parameter {p}', False,
                 f'{why}: a one-shot iterable (generator, map, filter, islice) is exhausted by the first use, so later uses see nothing', exact=True)
    # dtype-preserving copies matter where client state of mixed dtype is copied (C02); a sum of trees (tree_sum) may start from x + 0
    for x, name in possibly_empty_indexing(ff):
      check.ob('R-EMPTY', fi, txt(x), False,
               f'`{name}` is created empty and only grows inside a loop: when the loop runs zero times (a length-1 input, an empty collection) '
               f'`{txt(x)}` raises IndexError', node=x, exact=True)
    for c, how in (bad_copies(ff) if getattr(check, 'prop', getattr(check, 'property_id', '')) in ('C02',) else []):
      check.ob('R-COPY', fi, txt(c)[:80], False,
               f'`{how}` is not a copy: it promotes bool leaves to integers (and weak types), so the copied state no longer has the dtype of '
               'the original', node=c, exact=True)
  check.ob('R-DISCARD', ('fedjax', '<functions in scope>'), f'{n} functions', True,
           'no discarded results, overrides agree with their base, iterable parameters are consumed once, copies copy', nontrivial=False)


def possibly_empty_indexing(ff: FuncFlow) -> List[Tuple[ast.Subscript, str]]:
  """X[0] / X[-1] / X[k] on a list that is created empty and only grows inside loops (so it is empty whenever the loops run zero
  times), with no emptiness test of X guarding the access."""
  fi = ff.fi
  empties = {}
  for nid, ds in ff.rd.defs_at.items():
    for d in ds:
      if d.kind == 'assign' and d.index is None and isinstance(d.value, ast.List) and not d.value.elts and wmean._loop_of(ff, d.node.ast) is None:
        empties.setdefault(d.name, []).append(d)
  out = []
  for name, ds in empties.items():
    all_defs = [d for dd in ff.rd.defs_at.values() for d in dd if d.name == name]
    if len(all_defs) != 1:
      continue
    grows = [c for _, c in ff.calls() if isinstance(c.func, ast.Attribute) and c.func.attr in ('append', 'extend', 'insert') and isinstance(
        c.func.value, ast.Name) and c.func.value.id == name]
    if not grows or any(wmean._loop_of(ff, c) is None for c in grows):
      continue
    for nd in ff.cfg.nodes:
      if nd.ast is None:
        continue
      for x in nd.walk():
        if isinstance(x, ast.Subscript) and isinstance(x.value, ast.Name) and x.value.id == name and isinstance(x.ctx, ast.Load):
          try:
            idx = ast.literal_eval(x.slice)
          except Exception:  # pylint: disable=broad-except
            continue
          if not isinstance(idx, int):
            continue
          if wmean._loop_of(ff, x) is not None and any(wmean._loop_of(ff, c) is wmean._loop_of(ff, x) for c in grows):
            continue
          guarded = any(any(isinstance(y, ast.Name) and y.id == name for y in ast.walk(t)) for t, pol in guards_of(ff, x))
          if not guarded:
            out.append((x, name))
  return out
