"""R-SIB (round skeleton): roles inside a client training triple and the server update.

For a for_each_client training triple (client_init, client_step, client_final)
the step state is modelled as a *record*: a dict literal with constant keys or
a tuple (fields are keys / positions). The analysis recovers, by data flow
only (no reliance on variable names):

  * the optimizer call  O.apply(g, o, p)  in the step (O = captured optimizer),
    which fields `o` and `p` are read from, and where the two results go in
    the returned record;
  * the gradient call(s) feeding g and the point they are evaluated at;
  * in client_init, what the params field / optimizer state start from;
  * in client_final, the two operands of the difference that is returned.
"""
from __future__ import annotations

import ast
from dataclasses import dataclass, field
from typing import Dict, List, Optional, Tuple

from fjsa.flow import FuncFlow, call_args, same, txt
from fjsa.model import FuncInfo, Repo
from fjsa.rules.entries import Triple

TREE_MAPS = {'jax.tree_util.tree_map', 'jax.tree.map', 'jax.tree_map'}
SUBTRACT = {'jax.numpy.subtract', 'numpy.subtract', 'operator.sub'}


@dataclass
class FieldRef:
  """A read of a record field: state['k'] / state.k / unpacked position."""
  key: object
  expr: ast.AST


class Record:
  """Field access model for one function parameter holding the step state."""

  def __init__(self, ff: FuncFlow, param: str):
    self.ff = ff
    self.param = param
    self.unpacked: Dict[str, object] = {}  # local name -> field key (tuple position)
    for nid, ds in ff.rd.defs_at.items():
      for d in ds:
        if d.kind == 'assign' and d.index and len(d.index) == 1 and isinstance(d.value, ast.Name) and d.value.id == param:
          if ff.param_of(d.value) == param:
            self.unpacked[(d.name, id(d))] = d.index[0]

  def field_of(self, e: ast.AST) -> Optional[object]:
    """Field key if e reads a field of the record (following plain copies)."""
    ff = self.ff
    for x in ff.expand(e):
      k = self._field_of1(x)
      if k is None:
        return None
      return k
    return None

  def _field_of1(self, x: ast.AST) -> Optional[object]:
    ff = self.ff
    if isinstance(x, ast.Subscript) and isinstance(x.slice, ast.Constant) and ff.param_of(x.value) == self.param:
      return x.slice.value
    if isinstance(x, ast.Attribute):
      inner = self._field_of1(x.value)
      if inner is not None:
        return (inner, x.attr)
      if ff.param_of(x.value) == self.param:
        return x.attr
    if isinstance(x, ast.Name):
      ds = ff.defs_for(x)
      if len(ds) == 1:
        d = next(iter(ds))
        if (x.id, id(d)) in self.unpacked:
          return self.unpacked[(x.id, id(d))]
    return None


def returned_record(ff: FuncFlow) -> Optional[Tuple[Dict[object, ast.AST], bool]]:
  """(field -> value expr, has_spread) for the record a function returns."""
  rets = ff.returns()
  if len(rets) != 1 or rets[0][1] is None:
    return None
  vals = ff.expand(rets[0][1])
  if len(vals) != 1:
    return None
  v = vals[0]
  if isinstance(v, ast.Dict):
    out = {}
    spread = False
    for k, val in zip(v.keys, v.values):
      if k is None:
        spread = True
      elif isinstance(k, ast.Constant):
        out[k.value] = val
      else:
        return None
    return out, spread
  if isinstance(v, ast.Tuple):
    return {i: e for i, e in enumerate(v.elts)}, False
  # dict(base, field=value, ...) / dict(**base, field=value): a copy of `base` with some fields replaced
  if isinstance(v, ast.Call) and ff.ext(v.func) == 'builtins.dict' and len(v.args) <= 1 and v.keywords:
    out = {k.arg: k.value for k in v.keywords if k.arg is not None}
    spread = bool(v.args) or any(k.arg is None for k in v.keywords)
    return out, spread
  return None


@dataclass
class OptCall:
  call: ast.Call
  recv: ast.AST
  grads: ast.AST
  opt_state: ast.AST
  params: ast.AST
  res_opt: Optional[ast.AST]
  res_params: Optional[ast.AST]
  field_o: Optional[object] = None
  field_p: Optional[object] = None


def is_optimizer_receiver(ff: FuncFlow, recv: ast.AST) -> bool:
  """Receiver is a captured/own parameter annotated as (optimizers.)Optimizer."""
  if not isinstance(recv, ast.Name):
    return False
  sc = ff.scope_at(recv).lookup_scope(recv.id)
  if sc is None or sc.kind != 'function':
    return False
  bs = sc.bindings.get(recv.id, [])
  if not bs or not all(b.kind == 'param' for b in bs):
    return False
  owner = sc.module.funcs_by_node[sc.node]
  ann = owner.param_annotation(recv.id)
  if ann is not None:
    return txt(ann).split('.')[-1] == 'Optimizer'
  return recv.id.endswith('optimizer')


def optimizer_calls(ff: FuncFlow, method: str = 'apply') -> List[ast.Call]:
  out = []
  seen = set()
  for _, c in ff.calls():
    if id(c) in seen:
      continue
    seen.add(id(c))
    if isinstance(c.func, ast.Attribute) and c.func.attr == method and is_optimizer_receiver(ff, c.func.value):
      out.append(c)
  return out


def opt_apply_sites(ff: FuncFlow, rec: Optional[Record]) -> List[OptCall]:
  out = []
  m = ff.module
  for c in optimizer_calls(ff, 'apply'):
    b = call_args(c, ['grads', 'opt_state', 'params'])
    if len(b) < 3:
      continue
    res_o = res_p = None
    st = m.enclosing_stmt(c)
    if isinstance(st, ast.Assign) and st.value is c and len(st.targets) == 1 and isinstance(
        st.targets[0], ast.Tuple) and len(st.targets[0].elts) == 2:
      res_o, res_p = st.targets[0].elts
    oc = OptCall(c, c.func.value, b['grads'], b['opt_state'], b['params'], res_o, res_p)
    if rec is not None:
      oc.field_o = rec.field_of(b['opt_state'])
      oc.field_p = rec.field_of(b['params'])
    out.append(oc)
  return out


def derives_from_result(ff: FuncFlow, e: ast.AST, target: ast.AST) -> bool:
  """e is the name bound by assignment target `target` (same definition)."""
  if not isinstance(e, ast.Name) or not isinstance(target, ast.Name) or e.id != target.id:
    return False
  tn = ff.node_of(target)
  ds = ff.defs_for(e)
  return len(ds) == 1 and next(iter(ds)).target is target


@dataclass
class Delta:
  call: ast.AST
  minuend: ast.AST
  subtrahend: ast.AST


def find_delta(ff: FuncFlow, e: ast.AST) -> Optional[Delta]:
  """tree_map(lambda a, b: a - b, A, B) / tree_map(jnp.subtract, A, B)."""
  for x in ff.expand(e):
    if isinstance(x, ast.Call) and ff.ext(x.func) in TREE_MAPS and len(x.args) == 3:
      f, A, B = x.args
      if isinstance(f, ast.Lambda) and len(f.args.args) == 2 and isinstance(f.body, ast.BinOp) and isinstance(
          f.body.op, ast.Sub):
        a, b = f.args.args[0].arg, f.args.args[1].arg
        l, r = f.body.left, f.body.right
        if isinstance(l, ast.Name) and isinstance(r, ast.Name):
          if (l.id, r.id) == (a, b):
            return Delta(x, A, B)
          if (l.id, r.id) == (b, a):
            return Delta(x, B, A)
      elif ff.ext(f) in SUBTRACT:
        return Delta(x, A, B)
    if isinstance(x, ast.BinOp) and isinstance(x.op, ast.Sub):
      return Delta(x, x.left, x.right)
  return None


def shared_root(ff: FuncFlow, e: ast.AST, param: str) -> Optional[str]:
  """'' if e is the parameter itself, "['k']" if a constant field of it."""
  for x in ff.expand(e):
    if ff.param_of(x) == param:
      return ''
    if isinstance(x, ast.Subscript) and isinstance(x.slice, ast.Constant) and ff.param_of(x.value) == param:
      return f'[{x.slice.value!r}]'
    return None
  return None
