"""R-MASK M-a/M-b: padded rows never reach a reduction unmasked."""
from __future__ import annotations

import ast
from dataclasses import dataclass
from typing import Dict, List, Optional, Set, Tuple

from fjsa.flow import FuncFlow, call_args, same, txt
from fjsa.model import FuncInfo, Module, Repo, const_str
from fjsa.rules import entries
from fjsa.rules.entries import Triple

MASK_KEY = '__mask__'
PRODUCER_METHODS = {'padded_batch'}
PRODUCER_FUNCS = {'fedjax.core.client_datasets:padded_batch_client_datasets',
                  'fedjax.core.federated_data:padded_batch_federated_data'}


def is_mask_key(ff: FuncFlow, e: ast.AST) -> bool:
  if isinstance(e, ast.Constant):
    return e.value == MASK_KEY
  return const_str(ff.repo, ff.scope_at(e), e) == MASK_KEY


def mask_reads(ff: FuncFlow, param: str) -> List[ast.AST]:
  """`param[EXAMPLE_MASK_KEY]` reads and `EXAMPLE_MASK_KEY in param` tests."""
  out = []
  seen = set()
  for n in ff.cfg.nodes:
    if n.ast is None:
      continue
    for x in n.walk():
      if id(x) in seen:
        continue
      seen.add(id(x))
      if isinstance(x, ast.Subscript) and ff.param_of(x.value) == param and is_mask_key(ff, x.slice):
        out.append(x)
      elif isinstance(x, ast.Compare) and len(x.ops) == 1 and isinstance(x.ops[0], ast.In) and ff.param_of(
          x.comparators[0]) == param and is_mask_key(ff, x.left):
        out.append(x)
  return out


class MaskAwareness:

  def __init__(self, repo: Repo):
    self.repo = repo
    self._memo: Dict[Tuple[int, str], Optional[str]] = {}
    self._busy: Set[Tuple[int, str]] = set()

  def aware(self, fi: FuncInfo, param: str) -> Optional[str]:
    """Why `fi` handles the mask of batch parameter `param` (None if not)."""
    k = (id(fi.node), param)
    if k in self._memo:
      return self._memo[k]
    if k in self._busy:
      return None
    self._busy.add(k)
    try:
      ff = FuncFlow.of(self.repo, fi)
      why = None
      if mask_reads(ff, param):
        why = f'{fi.qualname} reads {param}[EXAMPLE_MASK_KEY]'
      else:
        for _, c in ff.calls():
          r = ff.callee(c)
          if r.kind != 'func':
            continue
          b = call_args(c, r.func.positional_params, r.bound_args, r.bound_kwargs)
          for pname, a in b.items():
            if ff.param_of(a) == param:
              sub = self.aware(r.func, pname)
              if sub:
                why = f'{fi.qualname} -> {sub}'
                break
          if why:
            break
      self._memo[k] = why
      return why
    finally:
      self._busy.discard(k)


@dataclass
class Producer:
  module: Module
  fi: Optional[FuncInfo]
  call: ast.Call
  kind: str


def find_producers(repo: Repo, modules: List[Module]) -> List[Producer]:
  out = []
  for m in modules:
    for node in ast.walk(m.tree):
      if not isinstance(node, ast.Call):
        continue
      f = node.func
      fi = m.enclosing_func(node)
      if isinstance(f, ast.Attribute) and f.attr in PRODUCER_METHODS:
        # exclude the definition's own delegation (ClientDataset.padded_batch -> PaddedBatchView)
        out.append(Producer(m, fi, node, 'method'))
      else:
        r = repo.resolve(repo.scope_of(m, node), f)
        if r.kind == 'func' and f'{r.func.module.name}:{r.func.qualname}' in PRODUCER_FUNCS:
          out.append(Producer(m, fi, node, 'function'))
  return out


def consumer_of(repo: Repo, p: Producer, triples: List[Triple], ma: MaskAwareness) -> Tuple[Optional[bool], str]:
  """(ok, explanation): where the padded batches of producer p are consumed."""
  m = p.module
  if p.fi is None:
    return None, 'producer at module level'
  ff = FuncFlow.of(repo, p.fi)
  # climb: call -> tuple element -> comprehension / list -> assigned name or direct argument
  node: ast.AST = p.call
  parent = m.parent_of.get(node)
  holder: Optional[ast.AST] = None
  if isinstance(parent, ast.Tuple):
    comp = m.parent_of.get(parent)
    if isinstance(comp, (ast.ListComp, ast.GeneratorExp)):
      holder = comp
    elif isinstance(comp, ast.Call) and isinstance(comp.func, ast.Attribute) and comp.func.attr == 'append':
      holder = comp.func.value  # name of the list appended to
  elif isinstance(parent, (ast.Assign, ast.Return, ast.YieldFrom, ast.Yield, ast.Expr)):
    holder = node
  elif isinstance(parent, ast.Call):
    holder = node
  if holder is None:
    holder = node
  # find calls that receive `holder` (directly or through a local name)
  names: Set[str] = set()
  if isinstance(holder, ast.Name):
    names.add(holder.id)
  hp = m.parent_of.get(holder)
  if isinstance(hp, ast.Assign) and isinstance(hp.targets[0], ast.Name):
    names.add(hp.targets[0].id)
  if isinstance(hp, (ast.Return, ast.YieldFrom, ast.Yield)) or (isinstance(hp, ast.Expr) and isinstance(
      m.parent_of.get(hp), ast.FunctionDef)):
    return True, f'{p.fi.qualname} hands the padded stream to its caller (a producer itself)'
  sinks = []
  for _, c in ff.calls():
    args = list(c.args) + [k.value for k in c.keywords]
    for a in args:
      if a is holder or (isinstance(a, ast.Name) and a.id in names):
        sinks.append(c)
  if isinstance(hp, ast.Call) and hp not in sinks and holder in list(hp.args) + [k.value for k in hp.keywords]:
    sinks.append(hp)
  if not sinks:
    if isinstance(hp, (ast.Return, ast.YieldFrom)):
      return True, 'returned to the caller'
    return None, 'cannot find where the padded batches are consumed'
  reasons = []
  for c in sinks:
    r = ff.callee(c)
    if r.kind == 'func':
      key = f'{r.func.module.name}:{r.func.qualname}'
      if key == 'fedjax.core.models:evaluate_model':
        reasons.append((True, 'models.evaluate_model -> _evaluate_model_step reads the mask'))
        continue
      if key in PRODUCER_FUNCS:
        reasons.append((True, f'{key} (producer chain)'))
        continue
      if key == 'builtins.dict':
        continue
    t = entries.triple_for_callee(repo, ff, c, triples)
    if t is None and isinstance(c.func, ast.Attribute):
      # evaluator.evaluate_global_params(...) -> yield from self._evaluate_each_client(...)
      t = entries.triple_for_callee(repo, ff, c, triples)
    if t is not None and t.step is not None:
      sp = t.step.positional_params
      why = ma.aware(t.step, sp[1]) if len(sp) >= 2 else None
      if why:
        reasons.append((True, f'{t.name}: {why}'))
      else:
        reasons.append((False, f'{t.name}.{t.step.name} never looks at the example mask: padded rows are treated as real examples'))
      continue
    if ff.ext(c.func) in ('builtins.dict', 'builtins.list', 'builtins.tuple'):
      # dict(for_each(...)) etc: look through one level
      continue
    reasons.append((None, f'unresolved consumer {txt(c.func)}'))
  if not reasons:
    return None, 'no resolvable consumer'
  if any(r[0] is False for r in reasons):
    return False, '; '.join(w for ok, w in reasons if ok is False)
  if any(r[0] is None for r in reasons):
    return None, '; '.join(w for ok, w in reasons if ok is None)
  return True, '; '.join(w for _, w in reasons)
