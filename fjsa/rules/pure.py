"""R-PURE: no write through a parameter, no hidden state.

Alias analysis with two abstract tags per root r (a parameter of the analysed
function or a captured variable of an enclosing scope):
  ('A', r)  the value *is* an object reachable from r (r, r.f, r[k], element)
  ('E', r)  the value is a fresh container whose elements are reachable from r
Flow sensitive through reaching definitions; calls to repo functions use
summaries (returns-alias-of / mutates-parameter), computed on demand.

A *violation* is a heap write (subscript/attribute store, delete, mutating
method of a builtin container / ndarray, mutating-argument library call, or a
call of a repo function that mutates that parameter) whose target is tagged
('A', r). Unknown call results are taken as fresh: the analysis may miss a
mutation, it does not invent one.
"""
from __future__ import annotations

import ast
from dataclasses import dataclass
from typing import Dict, FrozenSet, List, Optional, Set, Tuple

from fjsa.cfg import Def, Node
from fjsa.flow import FuncFlow, call_args, txt
from fjsa.model import FuncInfo, Ref, Repo, Scope

Tag = Tuple[str, str]

MUTATING_METHODS = {
    'append', 'extend', 'insert', 'pop', 'remove', 'clear', 'update', 'setdefault',
    'popitem', 'sort', 'reverse', 'add', 'discard', 'fill', 'put', 'itemset',
    'resize', '__setitem__', '__delitem__', 'appendleft', 'popleft',
    'difference_update', 'intersection_update', 'symmetric_difference_update',
    'setflags', 'partition', 'byteswap',
}
# setdefault both mutates and returns an alias
SHALLOW_COPY = {
    'builtins.dict', 'builtins.list', 'builtins.set', 'builtins.tuple', 'builtins.sorted',
    'builtins.frozenset', 'copy.copy', 'collections.OrderedDict', 'collections.defaultdict',
    'collections.deque',
}
DEEP_FRESH = {'copy.deepcopy', 'haiku.data_structures.to_mutable_dict', 'numpy.array', 'numpy.copy',
              'jax.numpy.array', 'jax.numpy.copy', 'numpy.zeros_like', 'numpy.ones_like',
              'haiku.data_structures.to_immutable_dict', 'haiku.data_structures.to_haiku_dict'}
ALIAS_SAME = {'numpy.asarray', 'numpy.asanyarray', 'numpy.ascontiguousarray', 'builtins.getattr',
              'builtins.next', 'numpy.ravel', 'numpy.reshape', 'numpy.squeeze', 'numpy.transpose',
              'typing.cast', 'builtins.id'}
ITER_VIEW = {'builtins.iter', 'builtins.reversed', 'builtins.zip', 'builtins.enumerate',
             'builtins.map', 'builtins.filter', 'itertools.chain', 'itertools.islice',
             'itertools.starmap', 'itertools.repeat', 'itertools.cycle', 'itertools.zip_longest'}
VIEW_METHODS = {'values', 'items', 'keys'}
ALIAS_METHODS = {'get', 'setdefault', 'reshape', 'view', 'ravel', 'squeeze', 'transpose', '__getitem__'}
COPY_METHODS = {'copy'}
MUTATES_ARG = {  # ext path -> indices of mutated arguments
    'numpy.random.shuffle': (0,),
    'random.shuffle': (0,),
    'numpy.copyto': (0,),
    'numpy.put': (0,),
    'numpy.place': (0,),
    'numpy.putmask': (0,),
    'numpy.fill_diagonal': (0,),
    'heapq.heappush': (0,),
    'heapq.heappop': (0,),
    'heapq.heapify': (0,),
    'bisect.insort': (0,),
    'builtins.setattr': (0,),
    'builtins.delattr': (0,),
    'operator.setitem': (0,),
    'operator.delitem': (0,),
}
TREE_MAPS = {'jax.tree_util.tree_map', 'jax.tree.map', 'jax.tree_map', 'jax.tree_util.tree_multimap'}
BUFFER_FRESH = {'copy.deepcopy', 'numpy.array', 'numpy.copy', 'jax.numpy.array', 'jax.numpy.copy',
                'jax.numpy.zeros_like', 'jax.numpy.ones_like', 'numpy.zeros_like', 'numpy.ones_like'}
BUFFER_FRESH_LEAF_FNS = BUFFER_FRESH | {
    'jax.numpy.add', 'jax.numpy.subtract', 'jax.numpy.multiply', 'jax.numpy.divide', 'jax.numpy.negative',
    'jax.numpy.where', 'jax.numpy.square', 'jax.numpy.sqrt', 'jax.numpy.full_like', 'jax.numpy.sign',
    'jax.numpy.abs', 'jax.numpy.exp', 'jax.numpy.clip'}
BUFFER_PASSTHROUGH = {
    'jax.numpy.asarray', 'numpy.asarray', 'jax.device_put', 'jax.device_get', 'jax.tree_util.tree_flatten',
    'jax.tree_util.tree_unflatten', 'jax.tree_util.tree_leaves', 'jax.tree.flatten', 'jax.tree.unflatten',
    'jax.tree.leaves', 'jax.numpy.reshape', 'jax.numpy.ravel', 'jax.numpy.squeeze', 'jax.lax.stop_gradient',
    'jax.block_until_ready', 'haiku.data_structures.to_mutable_dict', 'haiku.data_structures.to_immutable_dict',
    'haiku.data_structures.to_haiku_dict', 'jax.numpy.astype', 'functools.reduce'}
MUTATES_ARG_METHODS = {'shuffle': (0,)}  # rng.shuffle(x) on an unknown receiver
NON_CONTAINER_ANNOTATION_HINTS = ('optax.', 'Optimizer', 'Model', 'PRNGKey', 'Callable', 'hk.', 'haiku.')


@dataclass
class Mutation:
  fi: FuncInfo
  node: ast.AST
  construct: str
  root: str
  how: str


class PurityAnalysis:

  def __init__(self, repo: Repo, mode: str = 'heap'):
    self.repo = repo
    self.mode = mode  # 'heap': object identity; 'buffer': device buffers of leaves
    self._mut: Dict[int, List[Mutation]] = {}
    self._ret: Dict[int, Set[Tag]] = {}
    self._busy: Set[int] = set()
    self._fn: Dict[int, '_Fn'] = {}

  def fn(self, fi: FuncInfo) -> '_Fn':
    k = id(fi.node)
    if k not in self._fn:
      self._fn[k] = _Fn(self, fi)
    return self._fn[k]

  def mutations(self, fi: FuncInfo) -> List[Mutation]:
    """Heap writes in `fi` (its own body, not nested defs) through its
    parameters or captured variables."""
    k = id(fi.node)
    if k in self._mut:
      return self._mut[k]
    if k in self._busy:
      return []
    self._busy.add(k)
    try:
      out = self.fn(fi).find_mutations()
      self._mut[k] = out
      return out
    finally:
      self._busy.discard(k)

  def mutated_params(self, fi: FuncInfo) -> Set[str]:
    return {m.root for m in self.mutations(fi) if m.root in fi.params}

  def return_tags(self, fi: FuncInfo) -> Set[Tag]:
    k = id(fi.node)
    if k in self._ret:
      return self._ret[k]
    if ('r', k) in self._busy:
      return set()
    self._busy.add(('r', k))
    try:
      f = self.fn(fi)
      out: Set[Tag] = set()
      for _, v in f.ff.returns():
        if v is not None:
          out |= f.tags(v)
      out = {t for t in out if t[1] in fi.params}
      self._ret[k] = out
      return out
    finally:
      self._busy.discard(('r', k))

  def nested_functions(self, fi: FuncInfo) -> List[FuncInfo]:
    out = []
    for c in fi.scope.children:
      out += self._nested(c)
    return out

  def _nested(self, sc: Scope) -> List[FuncInfo]:
    out = []
    if sc.kind == 'function':
      out.append(sc.module.funcs_by_node[sc.node])
    for c in sc.children:
      out += self._nested(c)
    return out


def _ann_head(ann: ast.AST) -> str:
  """Outermost type constructor of an annotation (`Optional[X]` -> X)."""
  a = ann
  while isinstance(a, ast.Subscript):
    head = txt(a.value).split('.')[-1]
    if head in ('Optional', 'Union', 'Final', 'Annotated'):
      a = a.slice.elts[0] if isinstance(a.slice, ast.Tuple) else a.slice
      continue
    return txt(a.value)
  if isinstance(a, ast.Constant) and isinstance(a.value, str):
    return a.value.split('[')[0]
  return txt(a)


def _elem(tags: Set[Tag]) -> Set[Tag]:
  """Tags of an element / attribute of a value."""
  return {('A', r) for _, r in tags}


def _container(tags: Set[Tag]) -> Set[Tag]:
  """Tags of a fresh container holding values with `tags`."""
  return {('E', r) for _, r in tags}


class _Fn:
  """Tag evaluation for one function."""

  def __init__(self, pa: PurityAnalysis, fi: FuncInfo):
    self.pa = pa
    self.fi = fi
    self.repo = pa.repo
    self.ff = FuncFlow.of(pa.repo, fi)
    self._memo: Dict[Tuple[int, int], Set[Tag]] = {}
    self._def_memo: Dict[int, Set[Tag]] = {}
    self._active: Set[int] = set()

  # --- names
  def name_tags(self, name: ast.Name) -> Set[Tag]:
    ff = self.ff
    sc = ff.scope_at(name)
    bind_scope = sc.lookup_scope(name.id)
    if bind_scope is None:
      return set()
    if bind_scope is self.fi.scope:
      if sc is self.fi.scope or True:
        ds = ff.defs_for(name) if sc is self.fi.scope else None
        if ds is None or not ds:
          # read from an inner lambda/comprehension of this function, or no flow info:
          # flow-insensitive union over all definitions of the name
          return self.all_defs_tags(name.id)
        out: Set[Tag] = set()
        for d in ds:
          out |= self.def_tags(d)
        return out
    if bind_scope.kind in ('comp', 'lambda'):
      return self.inner_binding_tags(bind_scope, name.id)
    if bind_scope.kind == 'function':
      # captured from an enclosing function
      outer_fi = bind_scope.module.funcs_by_node[bind_scope.node]
      if self._is_inside(outer_fi):
        # variable of an enclosing function *of which we are a nested part*:
        tags = self.pa.fn(outer_fi).all_defs_tags(name.id)
        return tags | {('A', f'<captured:{name.id}>')}
      return {('A', f'<captured:{name.id}>')}
    if bind_scope.kind == 'module':
      r = self.repo.resolve(sc, name)
      if r.kind in ('func', 'class', 'module', 'ext', 'wrapped'):
        return set()
      if r.kind == 'local' and len(r.bindings) == 1 and isinstance(r.bindings[0].value, ast.Call):
        inner = self.repo.resolve(bind_scope, r.bindings[0].value.func)
        if inner.kind == 'func' and inner.func.name == 'import_tf':
          return set()  # tf = util.import_tf(): a module, not state
      return {('A', f'<global:{name.id}>')}
    return set()

  def _is_inside(self, outer: FuncInfo) -> bool:
    s = self.fi.scope.parent
    while s is not None:
      if s is outer.scope:
        return True
      s = s.parent
    return False

  def all_defs_tags(self, name: str) -> Set[Tag]:
    k = ('all', name)
    if k in self._memo:
      return self._memo[k]
    self._memo[k] = set()
    out: Set[Tag] = set()
    rd = self.ff.rd
    if name in rd.param_defs:
      out.add(('A', name))
    for ds in rd.defs_at.values():
      for d in ds:
        if d.name == name:
          out |= self.def_tags(d)
    self._memo[k] = out
    return out

  def inner_binding_tags(self, sc: Scope, name: str) -> Set[Tag]:
    out: Set[Tag] = set()
    for b in sc.bindings.get(name, []):
      if b.kind == 'comp' and b.value is not None:
        out |= _elem(self.tags(b.value))
      elif b.kind == 'param':
        # lambda parameter: unknown caller-supplied value, tracked by name
        pass
    return out

  def def_tags(self, d: Def) -> Set[Tag]:
    k = id(d)
    if k in self._def_memo:
      return self._def_memo[k]
    if k in self._active:
      return set()
    self._active.add(k)
    try:
      out = self._def_tags(d)
    finally:
      self._active.discard(k)
    self._def_memo[k] = out
    return out

  def _def_tags(self, d: Def) -> Set[Tag]:
    if d.kind == 'param':
      return {('A', d.name)}
    if d.kind in ('unbound', 'del', 'def', 'class', 'import', 'except'):
      return set()
    if d.kind == 'assign' or d.kind == 'walrus':
      if d.value is None:
        return set()
      t = self.tags(d.value)
      if d.index:
        t = _elem(t)
        # unpacking a literal tuple keeps per-position precision
        v = d.value
        if isinstance(v, (ast.Tuple, ast.List)) and len(d.index) == 1 and 0 <= d.index[0] < len(v.elts):
          return self.tags(v.elts[d.index[0]])
      return t
    if d.kind == 'for':
      return _elem(self.tags(d.value))
    if d.kind == 'with':
      return set()
    if d.kind == 'aug':
      aug = d.value
      if getattr(aug, '_fjsa_rebind', False):
        # written as x = x + e: a new object, which may hold the elements of both operands but aliases neither container
        return _container(self.tags(aug.value))
      prev: Set[Tag] = set()
      n = d.node
      for pd in self.ff.rd.reaching(n, d.name):
        prev |= self.def_tags(pd)
      return prev | _container(self.tags(aug.value))
    return set()

  # --- expressions
  def tags(self, e: ast.AST) -> Set[Tag]:
    if e is None:
      return set()
    k = ('e', id(e))
    if k in self._memo:
      return self._memo[k]
    self._memo[k] = set()
    out = self._tags(e)
    if self.pa.mode == 'buffer':
      out = {('A', r) for _, r in out}
    self._memo[k] = out
    return out

  def _tags(self, e: ast.AST) -> Set[Tag]:
    if isinstance(e, ast.Name):
      return self.name_tags(e)
    if isinstance(e, ast.Attribute):
      return _elem(self.tags(e.value))
    if isinstance(e, ast.Subscript):
      base = self.tags(e.value)
      if isinstance(e.slice, ast.Slice):
        return _container(base)
      return _elem(base)
    if isinstance(e, ast.Starred):
      return self.tags(e.value)
    if isinstance(e, (ast.Tuple, ast.List, ast.Set)):
      out: Set[Tag] = set()
      for x in e.elts:
        out |= self.tags(x)
      return _container(out)
    if isinstance(e, ast.Dict):
      out = set()
      for x in e.values:
        out |= self.tags(x)
      for kx in e.keys:
        if kx is None:
          continue
      return _container(out)
    if isinstance(e, (ast.ListComp, ast.SetComp, ast.GeneratorExp)):
      return _container(self.tags(e.elt))
    if isinstance(e, ast.DictComp):
      return _container(self.tags(e.value))
    if isinstance(e, ast.IfExp):
      return self.tags(e.body) | self.tags(e.orelse)
    if isinstance(e, ast.BoolOp):
      out = set()
      for v in e.values:
        out |= self.tags(v)
      return out
    if isinstance(e, ast.NamedExpr):
      return self.tags(e.value)
    if isinstance(e, ast.BinOp):
      if isinstance(e.op, ast.Add):
        return _container(self.tags(e.left) | self.tags(e.right))
      return set()
    if isinstance(e, ast.Await):
      return self.tags(e.value)
    if isinstance(e, ast.Call):
      return self._call_tags(e)
    return set()

  def _call_tags(self, c: ast.Call) -> Set[Tag]:
    if self.pa.mode == 'buffer':
      return self._call_tags_buffer(c)
    ff = self.ff
    r = ff.callee(c)
    args = [a for a in c.args]
    if r.kind == 'ext':
      p = r.path
      if p in DEEP_FRESH:
        return set()
      if p in SHALLOW_COPY:
        out: Set[Tag] = set()
        for a in args:
          out |= self.tags(a)
        for kw in c.keywords:
          out |= self.tags(kw.value)
        return _container(out)
      if p in ALIAS_SAME:
        out = set()
        for a in args[:1]:
          out |= self.tags(a)
        if p == 'builtins.next':
          return _elem(out)
        return out
      if p in ITER_VIEW:
        out = set()
        for a in args:
          out |= self.tags(a)
        return _container(out)
      return set()
    if r.kind == 'func':
      target = r.func
      params = target.positional_params
      binding = call_args(c, params, r.bound_args, r.bound_kwargs)
      rt = self.pa.return_tags(target)
      out = set()
      for kind, pname in rt:
        if pname in binding:
          at = self.tags(binding[pname])
          out |= at if kind == 'A' else _container(at)
      return out
    if r.kind == 'class':
      out = set()
      for a in args:
        out |= self.tags(a)
      for kw in c.keywords:
        out |= self.tags(kw.value)
      return _container(out)
    if isinstance(c.func, ast.Attribute):
      recv = self.tags(c.func.value)
      m = c.func.attr
      if m in VIEW_METHODS:
        return _container(recv)
      if m in ALIAS_METHODS:
        out = _elem(recv)
        if m in ('get', 'setdefault') and len(args) >= 2:
          out |= self.tags(args[1])
        return out
      if m in COPY_METHODS:
        return _container(recv)
      if m == 'replace' and recv:
        # dataclass.replace: fresh object sharing fields
        out = _container(recv)
        for kw in c.keywords:
          out |= _container(self.tags(kw.value))
        return out
      if m == 'pop' and recv:
        return _elem(recv)
    return set()

  # --- buffer semantics (used by R-DONATE)
  def _union_args(self, c: ast.Call, skip: Tuple[int, ...] = ()) -> Set[Tag]:
    out: Set[Tag] = set()
    for i, a in enumerate(c.args):
      if i in skip:
        continue
      out |= self.tags(a)
    for kw in c.keywords:
      out |= self.tags(kw.value)
    return out

  def leaf_fn_fresh(self, f: ast.AST) -> bool:
    """A per-leaf function that always returns a newly computed array."""
    ff = self.ff
    if isinstance(f, ast.Lambda):
      b = f.body
      if isinstance(b, (ast.BinOp, ast.UnaryOp, ast.Compare)):
        return True
      if isinstance(b, ast.Call):
        p = ff.ext(b.func)
        return p is not None and p not in BUFFER_PASSTHROUGH and (
            p.startswith('jax.numpy.') or p.startswith('numpy.') or p.startswith('jax.'))
      return False
    r = ff.resolve(f)
    if r.kind == 'ext':
      if r.bound_args or r.bound_kwargs:
        # functools.partial(jnp.where, mask) etc.
        return r.path in BUFFER_FRESH_LEAF_FNS or r.path.startswith('jax.numpy.')
      return r.path in BUFFER_FRESH_LEAF_FNS
    if r.kind == 'func' and isinstance(r.func.node, (ast.FunctionDef, ast.AsyncFunctionDef)):
      # a named per-leaf function (def scale(leaf): return leaf * w): fresh when every return is a computed expression
      rets = [x for x in ast.walk(r.func.node) if isinstance(x, ast.Return)]
      def fresh_expr(b):
        if isinstance(b, (ast.BinOp, ast.UnaryOp, ast.Compare)):
          return True
        if isinstance(b, ast.Call):
          try:
            p_ = FuncFlow.of(self.pa.repo, r.func).ext(b.func)
          except Exception:  # pylint: disable=broad-except
            p_ = None
          return p_ is not None and p_ not in BUFFER_PASSTHROUGH and (p_.startswith('jax.numpy.') or p_.startswith('numpy.') or p_.startswith('jax.'))
        return False
      return bool(rets) and all(x.value is not None and fresh_expr(x.value) for x in rets)
    return False

  def _call_tags_buffer(self, c: ast.Call) -> Set[Tag]:
    ff = self.ff
    r = ff.callee(c)
    if r.kind == 'ext':
      p = r.path
      if p in TREE_MAPS:
        if c.args and self.leaf_fn_fresh(c.args[0]):
          return set()
        return self._union_args(c, skip=(0,))
      if p in BUFFER_FRESH:
        return set()
      if p in BUFFER_PASSTHROUGH or p in SHALLOW_COPY or p in ITER_VIEW or p in ALIAS_SAME:
        return self._union_args(c)
      return set()
    if r.kind == 'func':
      if any(w.path == 'jax.pmap' for w in r.wrappers):
        return set()  # assumption A1: pmap outputs are fresh buffers
      target = r.func
      binding = call_args(c, target.positional_params, r.bound_args, r.bound_kwargs)
      rt = self.pa.return_tags(target)
      out: Set[Tag] = set()
      for _, pname in rt:
        if pname in binding:
          out |= self.tags(binding[pname])
      return out
    if r.kind == 'wrapped':
      if any(w.path == 'jax.pmap' for w in r.wrappers):
        return set()  # A1
      if r.donated():
        return set()  # A2: a donating step function does not forward its other inputs
      return self._union_args(c)
    if r.kind == 'class':
      return self._union_args(c)
    # opaque callee (parameter, attribute of an unknown object, local): may forward its inputs
    out = self._union_args(c)
    if isinstance(c.func, ast.Attribute):
      m = c.func.attr
      recv = self.tags(c.func.value)
      if m in VIEW_METHODS or m in ALIAS_METHODS or m in COPY_METHODS or m == 'pop':
        return recv | out
      if r.kind == 'attr':
        # method of an object: opaque, may return data reachable from the receiver
        return out | recv
    return out

  # --- mutation sites
  def find_mutations(self) -> List[Mutation]:
    out: List[Mutation] = []
    ff = self.ff
    fi = self.fi
    seen: Set[int] = set()

    def report(node, base_expr, how):
      for kind, root in sorted(self.tags(base_expr)):
        if kind == 'A':
          if self._internal_root(root):
            continue
          out.append(Mutation(fi, node, txt(node), root, how))

    for n in ff.cfg.nodes:
      if n.ast is None:
        continue
      for x in n.walk():
        if id(x) in seen:
          continue
        seen.add(id(x))
        # stores / deletes through subscript or attribute
        if isinstance(x, (ast.Subscript, ast.Attribute)) and isinstance(x.ctx, (ast.Store, ast.Del)):
          if isinstance(x, ast.Attribute) and self._is_self_init_store(x):
            continue
          stmt = ff.module.enclosing_stmt(x)
          report(stmt if stmt is not None else x, x.value,
                 'store through ' + ('subscript' if isinstance(x, ast.Subscript) else 'attribute'))
        elif isinstance(x, ast.AugAssign) and isinstance(x.target, ast.Name) and not getattr(x, '_fjsa_rebind', False):
          if isinstance(x.value, (ast.List, ast.ListComp)) or (
              isinstance(x.value, ast.Call) and ff.ext(x.value.func) == 'builtins.list'):
            report(x, x.target, 'in-place list extension (+=)')
        elif isinstance(x, ast.Call):
          self._call_mutations(x, report)
        elif isinstance(x, (ast.Global, ast.Nonlocal)):
          for nm in x.names:
            if any(d.name == nm for ds in ff.rd.defs_at.values() for d in ds):
              out.append(Mutation(fi, x, txt(x), f'<{type(x).__name__.lower()}:{nm}>',
                                  'rebinds a name of an outer scope'))
    # nonlocal/global writes are found via scope declarations too
    for nm in fi.scope.nonlocals_declared | fi.scope.globals_declared:
      if not any(m.root.endswith(f':{nm}>') for m in out):
        out.append(Mutation(fi, fi.node, f'nonlocal/global {nm}', f'<outer:{nm}>',
                            'declares a name of an outer scope writable'))
    return out

  def _internal_root(self, root: str) -> bool:
    """Captured variables created inside an enclosing function that is itself
    part of the same invocation are not hidden state - decided by callers via
    `captured_scope`. Here: nothing is internal."""
    return False

  def _is_self_init_store(self, x: ast.Attribute) -> bool:
    fi = self.fi
    return (fi.name in ('__init__', '__new__', '__post_init__') and isinstance(x.value, ast.Name) and
            x.value.id == 'self' and fi.positional_params[:1] == ['self'])

  def _receiver_is_container(self, recv: ast.AST) -> bool:
    """False when the receiver is annotated with a non-container type."""
    ff = self.ff
    if isinstance(recv, ast.Name):
      sc = ff.scope_at(recv)
      b = sc.lookup_scope(recv.id)
      if b is not None and b.kind == 'function':
        owner = b.module.funcs_by_node[b.node]
        ann = owner.param_annotation(recv.id)
        if ann is not None:
          a = _ann_head(ann)
          if any(h in a for h in NON_CONTAINER_ANNOTATION_HINTS):
            return False
          r = self.repo.resolve(b, ann)
          if r.kind == 'class':
            return False
    if isinstance(recv, ast.Attribute) and isinstance(recv.value, ast.Name) and recv.value.id == 'self':
      # self._x where _x was assigned from an annotated __init__ parameter
      cls_scope = self.fi.scope.parent
      if cls_scope is not None and cls_scope.kind == 'class':
        ci = cls_scope.module.classes_by_node.get(cls_scope.node)
        init = self.repo.find_method(ci, '__init__') if ci else None
        if init is not None:
          for st in ast.walk(init.node):
            if isinstance(st, ast.Assign) and len(st.targets) == 1 and isinstance(
                st.targets[0], ast.Attribute) and st.targets[0].attr == recv.attr and isinstance(
                    st.value, ast.Name):
              ann = init.param_annotation(st.value.id)
              if ann is not None:
                a = _ann_head(ann)
                if any(h in a for h in NON_CONTAINER_ANNOTATION_HINTS):
                  return False
                r = self.repo.resolve(init.scope, ann)
                if r.kind == 'class':
                  return False
    return True

  def _call_mutations(self, c: ast.Call, report):
    ff = self.ff
    r = ff.callee(c)
    if r.kind == 'ext' and r.path in MUTATES_ARG:
      for i in MUTATES_ARG[r.path]:
        if i < len(c.args):
          report(c, c.args[i], f'{r.path} mutates its argument {i}')
      return
    if r.kind == 'func':
      target = r.func
      mp = self.pa.mutated_params(target)
      if mp:
        params = target.positional_params
        if params[:1] == ['self'] and r.base is not None:
          binding = call_args(c, params[1:], r.bound_args, r.bound_kwargs)
          if 'self' in mp and isinstance(c.func, ast.Attribute):
            report(c, c.func.value, f'{target.qualname} mutates self')
        else:
          binding = call_args(c, params, r.bound_args, r.bound_kwargs)
        for pname in mp:
          if pname in binding:
            report(c, binding[pname], f'{target.module.name}:{target.qualname} mutates its parameter {pname!r}')
      return
    if isinstance(c.func, ast.Attribute):
      m = c.func.attr
      if r.kind == 'attr' and r.base is not None and r.base.kind == 'class':
        # method of a repo class not found: unknown attribute, skip
        pass
      if m in MUTATING_METHODS:
        recv = c.func.value
        # methods of repo classes are dispatched through summaries above;
        # here the receiver is a builtin container / ndarray / unknown
        if r.kind == 'func':
          return
        if not self._receiver_is_container(recv):
          return
        report(c, recv, f'mutating method .{m}()')
      elif m in MUTATES_ARG_METHODS:
        base_ext = ff.ext(c.func.value) if isinstance(c.func.value, (ast.Name, ast.Attribute)) else None
        for i in MUTATES_ARG_METHODS[m]:
          if i < len(c.args):
            report(c, c.args[i], f'.{m}() permutes its argument in place')


def captured_scope_is_outside(pa: PurityAnalysis, entry: FuncInfo, m: Mutation) -> Optional[bool]:
  """For a mutation of a captured variable found in `m.fi` (nested in
  `entry` or `entry` itself): True if the variable was created outside
  `entry` (state that survives between invocations), False if it is a local
  of `entry` (or of a function nested in it)."""
  if not m.root.startswith('<captured:'):
    return None
  name = m.root[len('<captured:'):-1]
  sc = m.fi.scope.parent
  while sc is not None:
    if name in sc.bindings and sc.kind in ('function', 'module'):
      # is sc inside (or equal to) entry?
      s = sc
      while s is not None:
        if s is entry.scope:
          return False
        s = s.parent
      return True
    sc = sc.parent
  return None
