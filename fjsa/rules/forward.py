"""R-FORWARD: configuration reaches the code that implements it.

Three caller/callee agreement rules, instantiated from the repository's own discipline (confirmed on the pinned tree:
every parameter of every non-test function is read or explicitly `del`-eted - the only exceptions are the three
`__exit__` arguments of the SQLite builder; of 205 call sites where caller and repo callee have a parameter of the same
name, 204 pass it on - the exception is frozen below with its reason):

  .unused     a parameter that is never read (and not discarded with `del`) is silently ignored: whatever it configures
              does not happen
  .same-name  a function holding parameter p that calls a repository function which also takes p passes p on (otherwise the
              callee silently runs with its default)
  .none-test  a parameter annotated Optional[int] / Optional[float] is never tested by truthiness (0 is a value)
  .swapped    two arguments that are themselves parameter names of the callee are not passed in each other's slot
  .kwargs     a **kwargs dictionary that is forwarded with ** reaches the call unfiltered (no comprehension with a condition
              over it in between)

Each property applies them to the functions of its own anchor files.
"""
from __future__ import annotations

import ast
import json
import os
from typing import Dict, Iterable, List, Optional, Set, Tuple

from fjsa.flow import FuncFlow, txt
from fjsa.model import FuncInfo, Repo

VERIF_ROOT = os.path.dirname(os.path.dirname(os.path.dirname(os.path.abspath(__file__))))

# (module, caller qualname, callee qualname, parameter): reason
SAME_NAME_EXCEPTIONS: Dict[Tuple[str, str, str, str], str] = {
    ('fedjax.algorithms.agnostic_fed_avg', 'agnostic_federated_averaging', 'create_domain_metrics_for_each_client', 'regularizer'):
        'the domain pass adds the regulariser once per padded batch (known finding C06 R-REG); the algorithm deliberately does not '
        'hand it over - handing it over is what R-REG.wire reports',
}
# parameters that are part of a fixed protocol signature
PROTOCOL_UNUSED = {'__exit__': {'exc_type', 'exc_value', 'exc_traceback', 'exc_val', 'exc_tb', 'traceback'}}


def anchor_files(prop: str) -> List[str]:
  with open(os.path.join(VERIF_ROOT, 'properties.jsonl')) as f:
    for line in f:
      line = line.strip()
      if not line:
        continue
      d = json.loads(line)
      if d['id'] == prop:
        return list(d.get('anchors', {}).get('files', []))
  return []


def anchor_functions(repo: Repo, prop: str, extra_files: Iterable[str] = ()) -> List[FuncInfo]:
  files = set(anchor_files(prop)) | set(extra_files)
  out = []
  for m in repo.modules.values():
    if m.relpath in files:
      out.extend(m.functions())
  return out


def _is_stub(node: ast.AST) -> bool:
  body = getattr(node, 'body', [])
  # nothing but pass / docstring / constant bookkeeping / an unconditional raise: the function does not implement anything
  return all(isinstance(st, (ast.Pass, ast.Raise)) or (isinstance(st, ast.Expr) and isinstance(st.value, ast.Constant)) or
             (isinstance(st, ast.Assign) and isinstance(st.value, ast.Constant)) for st in body)


def _params(fi: FuncInfo) -> List[str]:
  a = fi.node.args
  return [x.arg for x in a.posonlyargs + a.args + a.kwonlyargs] + ([a.vararg.arg] if a.vararg else []) + ([a.kwarg.arg] if a.kwarg else [])


def unused_params(fi: FuncInfo) -> List[str]:
  node = fi.node
  if not isinstance(node, (ast.FunctionDef, ast.AsyncFunctionDef)) or _is_stub(node):
    return []
  if any('abstractmethod' in txt(d) or 'overload' in txt(d) for d in node.decorator_list):
    return []
  names = {x.id for st in node.body for x in ast.walk(st) if isinstance(x, ast.Name)}
  out = []
  for p in _params(fi):
    if p in ('self', 'cls') or p.startswith('_') or p in PROTOCOL_UNUSED.get(node.name, ()):
      continue
    if p not in names:
      out.append(p)
  return out


def _callee_info(ff: FuncFlow, c: ast.Call) -> Optional[Tuple[FuncInfo, List[str], bool]]:
  """(callee, its parameter names as seen by this call, is_var) for calls that resolve to repository code."""
  r = ff.callee(c)
  g = None
  drop_first = False
  if r.kind == 'func':
    g = r.func
    # bound method call through an instance (self.m(...) / obj.m(...)): the receiver fills the first parameter
    if g.positional_params and g.positional_params[0] in ('self', 'cls') and isinstance(c.func, ast.Attribute):
      base = ff.repo.resolve(ff.scope_at(c), c.func.value)
      if base.kind != 'class':
        drop_first = True
  elif r.kind == 'class' and r.cls is not None:
    g = r.cls.methods.get('__init__')
    drop_first = True
    if g is None:
      return None
  elif isinstance(c.func, ast.Attribute) and isinstance(c.func.value, ast.Name) and c.func.value.id == 'self':
    sc = ff.fi.scope.parent
    while sc is not None and sc.kind == 'function':
      sc = sc.parent
    ci = ff.fi.module.classes_by_node.get(sc.node) if sc is not None and sc.kind == 'class' else None
    g = ci.methods.get(c.func.attr) if ci is not None else None
    drop_first = True
  if g is None or not isinstance(g.node, (ast.FunctionDef, ast.AsyncFunctionDef)):
    return None
  pos = list(g.positional_params)
  if drop_first and pos:
    pos = pos[1:]
  pos = pos[len(r.bound_args):] if r.kind == 'func' and r.bound_args else pos
  return g, pos, bool(g.node.args.vararg or g.node.args.kwarg)


def missing_same_name(ff: FuncFlow) -> List[Tuple[ast.Call, FuncInfo, str]]:
  fi = ff.fi
  m = fi.module
  held: Set[str] = set(_params(fi))
  sc = fi.scope.parent
  while sc is not None and sc.kind == 'function':
    held |= set(_params(m.funcs_by_node[sc.node]))
    sc = sc.parent
  held -= {'self', 'cls'}
  out = []
  for _, c in ff.calls():
    if any(isinstance(a, ast.Starred) for a in c.args) or any(k.arg is None for k in c.keywords):
      continue
    info = _callee_info(ff, c)
    if info is None:
      continue
    g, pos, _ = info
    if g is fi:
      continue
    given = set(pos[:len(c.args)]) | {k.arg for k in c.keywords}
    r = ff.callee(c)
    given |= set((r.bound_kwargs or {}).keys())
    all_params = [p for p in _params(g) if p not in ('self', 'cls')]
    # **kwargs held by the caller and accepted by the callee, but not splatted into the call: the overrides are dropped
    gk = g.node.args.kwarg.arg if g.node.args.kwarg else None
    fk = fi.node.args.kwarg.arg if isinstance(fi.node, (ast.FunctionDef, ast.AsyncFunctionDef)) and fi.node.args.kwarg else None
    if gk is not None and fk is not None and gk == fk:
      out.append((c, g, '**' + gk))
    for p in all_params:
      if p == gk or (g.node.args.vararg is not None and p == g.node.args.vararg.arg):
        continue
      if p in held and p not in given:
        # only parameters the callee can do without (a default): otherwise the call would not run at all
        if g.param_default(p) is None and not _has_kw_default(g, p):
          continue
        out.append((c, g, p))
  return out


def _has_kw_default(g: FuncInfo, p: str) -> bool:
  a = g.node.args
  for arg, d in zip(a.kwonlyargs, a.kw_defaults):
    if arg.arg == p and d is not None:
      return True
  return False


def filtered_kwargs(ff: FuncFlow) -> List[Tuple[ast.Call, str]]:
  fi = ff.fi
  kw = fi.node.args.kwarg.arg if isinstance(fi.node, (ast.FunctionDef, ast.AsyncFunctionDef)) and fi.node.args.kwarg else None
  if kw is None:
    return []
  out = []
  for _, c in ff.calls():
    for k in c.keywords:
      if k.arg is None and isinstance(k.value, ast.Name) and k.value.id == kw:
        for d in ff.defs_for(k.value):
          v = d.value
          if d.kind == 'param' or v is None:
            continue
          for x in ast.walk(v):
            if isinstance(x, (ast.DictComp, ast.GeneratorExp, ast.ListComp)) and any(g.ifs for g in x.generators) and any(
                isinstance(y, ast.Name) and y.id == kw for g in x.generators for y in ast.walk(g.iter)):
              out.append((c, txt(v)[:80]))
  return out


def truthiness_of_optional_numbers(fi: FuncInfo) -> List[Tuple[ast.AST, str]]:
  """Truthiness tests (if p / p or d / not p / p and ...) of a parameter annotated Optional[int] / Optional[float]: 0 is a value,
  not "unset". The pinned tree has none (20 truthiness tests of parameters, all on bool or Optional[Mapping])."""
  node = fi.node
  names = set()
  for a in node.args.posonlyargs + node.args.args + node.args.kwonlyargs:
    ann = txt(a.annotation) if a.annotation is not None else ''
    if 'Optional' in ann and ('int' in ann or 'float' in ann) and 'Mapping' not in ann and 'Callable' not in ann and 'Sequence' not in ann:
      names.add(a.arg)
  if not names:
    return []
  # names rebound inside the function no longer hold the parameter
  for x in ast.walk(node):
    if isinstance(x, ast.Name) and isinstance(x.ctx, ast.Store) and x.id in names:
      names.discard(x.id)
  out = []
  for x in ast.walk(node):
    tests = []
    if isinstance(x, (ast.If, ast.IfExp, ast.While, ast.Assert)):
      tests.append(x.test)
    elif isinstance(x, ast.UnaryOp) and isinstance(x.op, ast.Not):
      tests.append(x.operand)
    elif isinstance(x, ast.BoolOp):
      tests += x.values
    for t in tests:
      if isinstance(t, ast.Name) and t.id in names:
        out.append((t, t.id))
  return out


def check_forwarding(check, funcs: Iterable[FuncInfo], rule: str = 'R-FORWARD'):
  repo = check.repo
  n_params = n_sites = 0
  seen = set()
  for fi in funcs:
    if id(fi) in seen or fi.module.relpath.endswith('_test.py'):
      continue
    seen.add(id(fi))
    if not isinstance(fi.node, (ast.FunctionDef, ast.AsyncFunctionDef)):
      continue
    check.analysed(fi)
    n_params += len(_params(fi))
    for p in unused_params(fi):
      check.ob(rule + '.unused', fi, f'parameter {p}', False,
               f'parameter `{p}` of {fi.qualname} is never read (nor discarded with `del {p}`): what it configures is silently ignored',
               node=fi.node)
    for t, p in truthiness_of_optional_numbers(fi):
      check.ob(rule + '.none-test', fi, f'truth test of {p}', False,
               f'`{p}` is an optional number: testing it by truthiness treats an explicit 0 / 0.0 like "not given" (use `is None`)', node=t)
    try:
      ff = FuncFlow.of(repo, fi)
    except Exception:  # pylint: disable=broad-except
      continue
    for c, g, p in missing_same_name(ff):
      n_sites += 1
      key = (fi.module.name, fi.qualname, g.qualname, p)
      if key in SAME_NAME_EXCEPTIONS:
        check.ob(rule + '.same-name', fi, f'{g.qualname}(... {p} not passed)', True, 'frozen exception: ' + SAME_NAME_EXCEPTIONS[key], node=c,
                 nontrivial=False)
        continue
      check.ob(rule + '.same-name', fi, txt(c)[:90], False,
               f'{fi.qualname} holds `{p}` but calls {g.qualname} without it: the callee silently uses its default for `{p}`', node=c)
    from fjsa.flow import bound_args
    for _, c in ff.calls():
      info = _callee_info(ff, c)
      if info is None:
        continue
      g = info[0]
      gnames = set(_params(g)) - {'self', 'cls'}
      for p, a in bound_args(ff, c).items():
        if isinstance(a, ast.Name) and a.id != p and a.id in gnames and p in gnames:
          check.ob(rule + '.swapped', fi, txt(c)[:90], False,
                   f'`{a.id}` is passed where {g.qualname} expects `{p}`, although {g.qualname} has a parameter called `{a.id}`: '
                   'the two arguments are in each other\'s place', node=a)
    for c, how in filtered_kwargs(ff):
      check.ob(rule + '.kwargs', fi, txt(c)[:90], False,
               f'the keyword arguments are filtered ({how}) before they are forwarded: some of the caller\'s overrides are dropped', node=c)
  check.ob(rule, ('fedjax', '<anchor files>'), f'{len(seen)} functions, {n_params} parameters', True,
           'every parameter is read or explicitly discarded; same-named parameters are passed on to repository callees; **kwargs are '
           'forwarded unfiltered', nontrivial=False)
  return len(seen)
