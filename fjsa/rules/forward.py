"""R-FORWARD: configuration reaches the code that implements it.

Three caller/callee agreement rules, instantiated from the repository's own discipline (confirmed on the pinned tree:
every parameter of every non-test function is read or explicitly `del`-eted - the only exceptions are the three
`__exit__` arguments of the SQLite builder; of 205 call sites where caller and repo callee have a parameter of the same
name, 204 pass it on - the exception is frozen below with its reason):

  .unused     a parameter that is never read (and not discarded with `del`) is silently ignored: whatever it configures
              does not happen
  .same-name  a function holding parameter p that calls a repository function which also takes p passes p on (otherwise the
              callee silently runs with its default)
  .none-test  a parameter annotated Optional[int] / Optional[float] is never tested by truthiness (0 is a value)
  .swapped    two arguments that are themselves parameter names of the callee are not passed in each other's slot
  .kwargs     a **kwargs dictionary that is forwarded with ** reaches the call unfiltered (no comprehension with a condition
              over it in between)

Each property applies them to the functions of its own anchor files.
"""
from __future__ import annotations

import ast
import json
import os
from typing import Dict, Iterable, List, Optional, Set, Tuple

from fjsa.flow import FuncFlow, txt
from fjsa.model import FuncInfo, Repo

VERIF_ROOT = os.path.dirname(os.path.dirname(os.path.dirname(os.path.abspath(__file__))))

# (module, caller qualname, callee qualname, parameter): reason
SAME_NAME_EXCEPTIONS: Dict[Tuple[str, str, str, str], str] = {
    ('fedjax.algorithms.agnostic_fed_avg', 'agnostic_federated_averaging', 'create_domain_metrics_for_each_client', 'regularizer'):
        'the domain pass adds the regulariser once per padded batch (known finding C06 R-REG); the algorithm deliberately does not '
        'hand it over - handing it over is what R-REG.wire reports',
}
# parameters that are part of a fixed protocol signature
PROTOCOL_UNUSED = {'__exit__': {'exc_type', 'exc_value', 'exc_traceback', 'exc_val', 'exc_tb', 'traceback'}}


def anchor_files(prop: str) -> List[str]:
  with open(os.path.join(VERIF_ROOT, 'properties.jsonl')) as f:
    for line in f:
      line = line.strip()
      if not line:
        continue
      d = json.loads(line)
      if d['id'] == prop:
        return list(d.get('anchors', {}).get('files', []))
  return []


def anchor_functions(repo: Repo, prop: str, extra_files: Iterable[str] = ()) -> List[FuncInfo]:
  files = set(anchor_files(prop)) | set(extra_files)
  out = []
  for m in repo.modules.values():
    if m.relpath in files:
      out.extend(m.functions())
  return out


def _is_stub(node: ast.AST) -> bool:
  body = getattr(node, 'body', [])
  # nothing but pass / docstring / constant bookkeeping / an unconditional raise: the function does not implement anything
  return all(isinstance(st, (ast.Pass, ast.Raise)) or (isinstance(st, ast.Expr) and isinstance(st.value, ast.Constant)) or
             (isinstance(st, ast.Assign) and isinstance(st.value, ast.Constant)) for st in body)


def _params(fi: FuncInfo) -> List[str]:
  a = fi.node.args
  return [x.arg for x in a.posonlyargs + a.args + a.kwonlyargs] + ([a.vararg.arg] if a.vararg else []) + ([a.kwarg.arg] if a.kwarg else [])


def unused_params(fi: FuncInfo) -> List[str]:
  node = fi.node
  if not isinstance(node, (ast.FunctionDef, ast.AsyncFunctionDef)) or _is_stub(node):
    return []
  if any('abstractmethod' in txt(d) or 'overload' in txt(d) for d in node.decorator_list):
    return []
  # reads inside a statement that only normalises the parameter itself (p = p or {} / p = tuple(p) / if p is None: p = d) do not
  # count: the normalised value still has to reach something
  own_rebinds = set()
  for st in ast.walk(node):
    if isinstance(st, ast.Assign) and len(st.targets) == 1 and isinstance(st.targets[0], ast.Name):
      for x in ast.walk(st.value):
        if isinstance(x, ast.Name) and x.id == st.targets[0].id:
          own_rebinds.add(id(x))
    elif isinstance(st, ast.If) and isinstance(st.test, ast.Compare) and isinstance(st.test.left, ast.Name) and all(
        isinstance(b, ast.Assign) and len(b.targets) == 1 and isinstance(b.targets[0], ast.Name) and b.targets[0].id == st.test.left.id
        for b in st.body) and not st.orelse:
      own_rebinds.add(id(st.test.left))
  names = {x.id for st in node.body for x in ast.walk(st) if isinstance(x, ast.Name) and isinstance(x.ctx, (ast.Load, ast.Del)) and id(x) not in own_rebinds}
  names |= {n for st in ast.walk(node) if isinstance(st, (ast.Global, ast.Nonlocal)) for n in st.names}
  out = []
  for p in _params(fi):
    if p in ('self', 'cls') or p.startswith('_') or p in PROTOCOL_UNUSED.get(node.name, ()):
      continue
    if p not in names:
      out.append(p)
  return out


def _callee_info(ff: FuncFlow, c: ast.Call) -> Optional[Tuple[FuncInfo, List[str], bool]]:
  """(callee, its parameter names as seen by this call, is_var) for calls that resolve to repository code."""
  r = ff.callee(c)
  g = None
  drop_first = False
  if r.kind == 'func':
    g = r.func
    # bound method call through an instance (self.m(...) / obj.m(...)): the receiver fills the first parameter
    if g.positional_params and g.positional_params[0] in ('self', 'cls') and isinstance(c.func, ast.Attribute):
      base = ff.repo.resolve(ff.scope_at(c), c.func.value)
      if base.kind != 'class':
        drop_first = True
  elif r.kind == 'class' and r.cls is not None:
    g = r.cls.methods.get('__init__')
    drop_first = True
    if g is None:
      return None
  elif isinstance(c.func, ast.Attribute) and isinstance(c.func.value, ast.Name) and c.func.value.id == 'self':
    sc = ff.fi.scope.parent
    while sc is not None and sc.kind == 'function':
      sc = sc.parent
    ci = ff.fi.module.classes_by_node.get(sc.node) if sc is not None and sc.kind == 'class' else None
    g = ci.methods.get(c.func.attr) if ci is not None else None
    drop_first = True
  if g is None or not isinstance(g.node, (ast.FunctionDef, ast.AsyncFunctionDef)):
    return None
  pos = list(g.positional_params)
  if drop_first and pos:
    pos = pos[1:]
  pos = pos[len(r.bound_args):] if r.kind == 'func' and r.bound_args else pos
  return g, pos, bool(g.node.args.vararg or g.node.args.kwarg)


def missing_same_name(ff: FuncFlow) -> List[Tuple[ast.Call, FuncInfo, str]]:
  fi = ff.fi
  m = fi.module
  held: Set[str] = set(_params(fi))
  sc = fi.scope.parent
  while sc is not None and sc.kind == 'function':
    held |= set(_params(m.funcs_by_node[sc.node]))
    sc = sc.parent
  held -= {'self', 'cls'}
  # a local (of this function or of the functions it is nested in) that is computed and then never read anywhere is held too: the
  # value was prepared for somebody (`num_classes = 10 if only_digits else 62` ... `Module()` called without it)
  sc = fi.scope
  while sc is not None and sc.kind == 'function':
    held |= _dead_locals(sc.node)
    sc = sc.parent
  out = []
  for _, c in ff.calls():
    if any(isinstance(a, ast.Starred) for a in c.args) or any(k.arg is None for k in c.keywords):
      continue
    info = _callee_info(ff, c)
    if info is None:
      continue
    g, pos, _ = info
    if g is fi:
      continue
    given = set(pos[:len(c.args)]) | {k.arg for k in c.keywords}
    r = ff.callee(c)
    given |= set((r.bound_kwargs or {}).keys())
    all_params = [p for p in _params(g) if p not in ('self', 'cls')]
    # **kwargs held by the caller and accepted by the callee, but not splatted into the call: the overrides are dropped
    gk = g.node.args.kwarg.arg if g.node.args.kwarg else None
    fk = fi.node.args.kwarg.arg if isinstance(fi.node, (ast.FunctionDef, ast.AsyncFunctionDef)) and fi.node.args.kwarg else None
    if gk is not None and fk is not None and gk == fk:
      out.append((c, g, '**' + gk))
    for p in all_params:
      if p == gk or (g.node.args.vararg is not None and p == g.node.args.vararg.arg):
        continue
      if p in held and p not in given:
        # only parameters the callee can do without (a default): otherwise the call would not run at all
        if g.param_default(p) is None and not _has_kw_default(g, p):
          continue
        out.append((c, g, p))
  return out


def _dead_locals(fn: ast.AST) -> Set[str]:
  """Names bound by a plain assignment in `fn` (or its nested functions) and never loaded anywhere inside `fn`."""
  loads: Set[str] = set()
  stores: Set[str] = set()
  for n in ast.walk(fn):
    if isinstance(n, ast.Name):
      (loads if isinstance(n.ctx, ast.Load) else stores).add(n.id)
    elif isinstance(n, (ast.Global, ast.Nonlocal)):
      loads.update(n.names)
  plain = {n.targets[0].id for n in ast.walk(fn) if isinstance(n, ast.Assign) and len(n.targets) == 1 and isinstance(n.targets[0], ast.Name)}
  return {x for x in plain if x not in loads and not x.startswith('_')}


def _has_kw_default(g: FuncInfo, p: str) -> bool:
  a = g.node.args
  for arg, d in zip(a.kwonlyargs, a.kw_defaults):
    if arg.arg == p and d is not None:
      return True
  return False


def filtered_kwargs(ff: FuncFlow) -> List[Tuple[ast.Call, str]]:
  fi = ff.fi
  kw = fi.node.args.kwarg.arg if isinstance(fi.node, (ast.FunctionDef, ast.AsyncFunctionDef)) and fi.node.args.kwarg else None
  if kw is None:
    return []
  out = []
  for _, c in ff.calls():
    for k in c.keywords:
      if k.arg is None and isinstance(k.value, ast.Name) and k.value.id == kw:
        for d in ff.defs_for(k.value):
          v = d.value
          if d.kind == 'param' or v is None:
            continue
          for x in ast.walk(v):
            if isinstance(x, (ast.DictComp, ast.GeneratorExp, ast.ListComp)) and any(g.ifs for g in x.generators) and any(
                isinstance(y, ast.Name) and y.id == kw for g in x.generators for y in ast.walk(g.iter)):
              out.append((c, txt(v)[:80]))
  return out


def truthiness_of_optional_numbers(fi: FuncInfo, repo: Optional[Repo] = None) -> List[Tuple[ast.AST, str]]:
  """Truthiness tests (if p / p or d / not p / p and ...) of a parameter annotated Optional[int] / Optional[float]: 0 is a value,
  not "unset". The pinned tree has none (20 truthiness tests of parameters, all on bool or Optional[Mapping])."""
  node = fi.node
  names = set()
  for a in node.args.posonlyargs + node.args.args + node.args.kwonlyargs:
    ann = txt(a.annotation) if a.annotation is not None else ''
    if 'Optional' in ann and ('int' in ann or 'float' in ann) and 'Mapping' not in ann and 'Callable' not in ann and 'Sequence' not in ann:
      names.add(a.arg)
  if not names:
    return []
  # a name rebound inside the function holds the parameter only where no rebinding reaches: decided per test with reaching definitions
  rebound = {x.id for x in ast.walk(node) if isinstance(x, ast.Name) and isinstance(x.ctx, ast.Store) and x.id in names}
  ff = None
  if rebound and repo is not None:
    try:
      ff = FuncFlow.of(repo, fi)
    except Exception:  # pylint: disable=broad-except
      ff = None

  def holds_param(t):
    if t.id not in rebound:
      return True
    if ff is None:
      return False
    ds = ff.defs_for(t)
    return bool(ds) and all(d.kind == 'param' for d in ds)
  out = []
  for x in ast.walk(node):
    tests = []
    if isinstance(x, (ast.If, ast.IfExp, ast.While, ast.Assert)):
      tests.append(x.test)
    elif isinstance(x, ast.UnaryOp) and isinstance(x.op, ast.Not):
      tests.append(x.operand)
    elif isinstance(x, ast.BoolOp):
      tests += x.values
    for t in tests:
      if isinstance(t, ast.Name) and t.id in names and holds_param(t):
        out.append((t, t.id))
  return out


# ---------------------------------------------------------------------------------------------------------------------
# Scope: which functions (and, where a property only cares about some of them, which parameters) carry configuration
# that the property quantifies over. Frozen by reading each property; a function outside a property's scope is none of
# that property's business even if it lives in one of its anchor files.
# entry = (file, regex on the qualified name, None | set of parameter names)
A = 'fedjax/algorithms/'
CDS = 'fedjax/core/client_datasets.py'
SCOPES: Dict[str, List[Tuple[str, str, Optional[Set[str]]]]] = {
    'C01': [(A + 'fed_avg.py', r'.*', None), ('fedjax/core/optimizers.py', r'.*', None),
            (CDS, r'(ShuffleRepeatBatch.*|ClientDataset\.shuffle_repeat_batch)', None),
            ('fedjax/core/tree_util.py', r'(tree_mean|tree_weight|tree_inverse_weight|tree_add|tree_sub|_tree.*)', None),
            ('fedjax/core/for_each_client.py', r'.*', None), ('fedjax/core/models.py', r'(grad|model_grad|model_per_example_loss|create_model_from_haiku|create_model_from_stax)(\..*)?', None)],
    'C02': [('fedjax/core/for_each_client.py', r'.*', None)],
    'C03': [(CDS, r'(BatchView|PaddedBatchView|BatchHParams|PaddedBatchHParams|ClientDataset\.(batch|padded_batch|__getitem__)|pad_examples|'
                  r'_pick_final_batch_size|attach_mask|slice_examples|BatchPreprocessor).*', None)],
    'C04': [(CDS, r'(ShuffleRepeatBatch.*|ClientDataset\.shuffle_repeat_batch)', None), ('fedjax/core/dataclasses.py', r'.*', None),
            ('fedjax/training/structured_flags.py', r'ShuffleRepeatBatchHParamsFlags.*', None)],
    'C05': [('fedjax/core/metrics.py', r'.*', None),
            ('fedjax/core/models.py', r'(evaluate_model|_evaluate_model_step|ModelEvaluator|evaluate_average_loss|AverageLossEvaluator|'
                                      r'_evaluate_average_loss_step|_finalize_average_loss).*', None)],
    'C06': [('fedjax/core/models.py', r'(grad|model_grad|evaluate_average_loss|AverageLossEvaluator|_evaluate_average_loss_step|'
                                      r'_finalize_average_loss).*', None),
            ('fedjax/core/regularizers.py', r'.*', None), ('fedjax/core/util.py', r'.*', None),
            (A + 'mime.py', r'.*', {'regularizer'}), (A + 'agnostic_fed_avg.py', r'.*', {'regularizer'}),
            (A + 'hyp_cluster.py', r'.*', {'regularizer'})],
    'C07': [('fedjax/core/tree_util.py', r'.*', None), ('fedjax/aggregators/aggregator.py', r'.*', None)],
    'C08': [('fedjax/core/federated_data.py', r'(FederatedData|SubsetFederatedData|ClientPreprocessor|intersect_slice_ranges).*', None),
            ('fedjax/core/in_memory_federated_data.py', r'.*', None), ('fedjax/core/sqlite_federated_data.py', r'SQLiteFederatedData\..*', None),
            (CDS, r'(ClientDataset\.__init__|BatchPreprocessor.*|NoOpBatchPreprocessor.*)', None)],
    'C09': [('fedjax/training/federated_experiment.py', r'.*', None), ('fedjax/training/checkpoint.py', r'.*', None),
            ('fedjax/core/serialization.py', r'(save_state|load_state)', None), ('fedjax/core/client_samplers.py', r'.*', None)],
    'C10': [('fedjax/core/dataclasses.py', r'.*', None)],
    'C11': [('fedjax/aggregators/compression.py', r'.*', None), ('fedjax/aggregators/walsh_hadamard.py', r'.*', None),
            ('fedjax/core/tree_util.py', r'(tree_mean|_tree_inverse_weight_eq|tree_weight|_tree_weight_eq|_tree_add_eq)', None)],
    'C12': [(A + 'fed_avg.py', r'.*', None), (A + 'fed_prox.py', r'.*', None), (A + 'mime.py', r'.*', None), (A + 'mime_lite.py', r'.*', None),
            (A + 'hyp_cluster.py', r'.*', None), (A + 'apfl.py', r'.*', None), (A + 'agnostic_fed_avg.py', r'.*', None)],
    'C13': [('fedjax/core/client_samplers.py', r'.*', None),
            ('fedjax/core/federated_data.py', r'.*\.shuffled_clients', None), ('fedjax/core/in_memory_federated_data.py', r'.*\.shuffled_clients', None),
            ('fedjax/core/sqlite_federated_data.py', r'.*\.shuffled_clients', None)],
    'C14': [('fedjax/core/metrics.py', r'.*', None)],
    'C15': [(CDS, r'(padded_batch_client_datasets|buffered_shuffle.*|concat_examples|_pick_final_batch_size|pad_examples|attach_mask|slice_examples)(\..*)?', None),
            ('fedjax/core/federated_data.py', r'(padded_batch_federated_data|shuffle_repeat_batch_federated_data|RepeatableIterator.*)', None)],
    'C16': [('fedjax/core/serialization.py', r'.*', None), ('fedjax/core/sqlite_federated_data.py', r'(SQLiteFederatedDataBuilder|SQLiteFederatedData\.new|'
                                                                                                     r'decompress_and_deserialize).*', None),
            ('fedjax/training/checkpoint.py', r'.*', None)],
    'C17': [(A + 'apfl.py', r'.*', None), (A + 'agnostic_fed_avg.py', r'.*', None), (A + 'hyp_cluster.py', r'.*', None), (A + 'mime_lite.py', r'.*', None),
            ('fedjax/core/optimizers.py', r'ignore_grads_haiku.*', None)],
    'C18': [('fedjax/aggregators/walsh_hadamard.py', r'.*', None)],
    'C19': [('fedjax/datasets/downloads.py', r'.*', None), ('fedjax/datasets/cifar100.py', r'(load_split|load_data|cite)', None),
            ('fedjax/datasets/emnist.py', r'(load_split|load_data)', None), ('fedjax/datasets/shakespeare.py', r'(load_split|load_data)', None),
            ('fedjax/datasets/stackoverflow.py', r'(load_split|load_data)', None)],
    'C20': [('fedjax/datasets/cifar100.py', r'preprocess.*', None), ('fedjax/datasets/emnist.py', r'(domain_id|preprocess.*)', None),
            ('fedjax/datasets/shakespeare.py', r'(preprocess.*|_build_look_up_table)', None),
            ('fedjax/datasets/stackoverflow.py', r'(DefaultWordTokenizer|StackoverflowTokenizer|default_vocab|preprocess.*|create_.*).*', None),
            ('fedjax/models/emnist.py', r'.*', None), ('fedjax/models/cifar100.py', r'.*', None), ('fedjax/models/shakespeare.py', r'.*', None),
            ('fedjax/models/stackoverflow.py', r'.*', None), ('fedjax/training/tasks.py', r'.*', None)],
}


def scoped_functions(repo: Repo, prop: str) -> List[Tuple[FuncInfo, Optional[Set[str]]]]:
  import re
  out: List[Tuple[FuncInfo, Optional[Set[str]]]] = []
  seen = {}
  for file, rx, only in SCOPES.get(prop, []):
    m = next((mm for mm in repo.modules.values() if mm.relpath == file), None)
    if m is None:
      continue
    pat = re.compile(rx + r'$')
    for fi in m.functions():
      if pat.match(fi.qualname):
        if id(fi) in seen:
          # widen a parameter filter if two entries overlap
          i = seen[id(fi)]
          prev = out[i][1]
          out[i] = (fi, None if (prev is None or only is None) else (prev | only))
        else:
          seen[id(fi)] = len(out)
          out.append((fi, only))
  return out


_EXT_SIG: Dict[str, Optional[List[str]]] = {}


def _ext_positional(path: str) -> Optional[List[str]]:
  """Positional parameter names of an installed third-party callable (None if unknown)."""
  if path not in _EXT_SIG:
    names = None
    try:
      import inspect
      from fjsa.rules import api
      obj, missing = api.resolve_path(path)
      if missing is None and callable(obj):
        sig = inspect.signature(obj)
        names = [n for n, prm in sig.parameters.items() if prm.kind in (prm.POSITIONAL_ONLY, prm.POSITIONAL_OR_KEYWORD)]
    except Exception:  # pylint: disable=broad-except
      names = None
    _EXT_SIG[path] = names
  return _EXT_SIG[path]


def check_forwarding(check, funcs, rule: str = 'R-FORWARD'):
  """funcs: iterable of FuncInfo or (FuncInfo, None | set of parameter names that matter)."""
  repo = check.repo
  n_params = n_sites = 0
  seen = set()
  for item in funcs:
    fi, only = item if isinstance(item, tuple) else (item, None)
    if id(fi) in seen or fi.module.relpath.endswith('_test.py'):
      continue
    seen.add(id(fi))
    if not isinstance(fi.node, (ast.FunctionDef, ast.AsyncFunctionDef)):
      continue
    check.analysed(fi)
    n_params += len(_params(fi))
    rel = (lambda p: True) if only is None else (lambda p: p.lstrip('*') in only)
    for p in unused_params(fi):
      if not rel(p):
        continue
      check.ob(rule + '.unused', fi, f'parameter {p}', False,
               f'parameter `{p}` of {fi.qualname} is never read (nor discarded with `del {p}`): what it configures is silently ignored',
               node=fi.node, exact=True)
    for t, p in truthiness_of_optional_numbers(fi, repo):
      if not rel(p):
        continue
      check.ob(rule + '.none-test', fi, f'truth test of {p}', False,
               f'`{p}` is an optional number: testing it by truthiness treats an explicit 0 / 0.0 like "not given" (use `is None`)', node=t, exact=True)
    try:
      ff = FuncFlow.of(repo, fi)
    except Exception:  # pylint: disable=broad-except
      continue
    for c, g, p in missing_same_name(ff):
      if not rel(p):
        continue
      n_sites += 1
      key = (fi.module.name, fi.qualname, g.qualname, p)
      if key in SAME_NAME_EXCEPTIONS:
        check.ob(rule + '.same-name', fi, f'{g.qualname}(... {p} not passed)', True, 'frozen exception: ' + SAME_NAME_EXCEPTIONS[key], node=c,
                 nontrivial=False)
        continue
      check.ob(rule + '.same-name', fi, txt(c)[:90], False,
               f'{fi.qualname} holds `{p}` but calls {g.qualname} without it: the callee silently uses its default for `{p}`', node=c, exact=True)
    from fjsa.flow import bound_args
    for _, c in ff.calls():
      info = _callee_info(ff, c)
      if info is None:
        continue
      g = info[0]
      gnames = set(_params(g)) - {'self', 'cls'}
      for p, a in bound_args(ff, c).items():
        if isinstance(a, ast.Name) and a.id != p and a.id in gnames and p in gnames and (rel(p) or rel(a.id)):
          check.ob(rule + '.swapped', fi, txt(c)[:90], False,
                   f'`{a.id}` is passed where {g.qualname} expects `{p}`, although {g.qualname} has a parameter called `{a.id}`: '
                   'the two arguments are in each other\'s place', node=a, exact=True)
    # the same for positional arguments of third-party callees whose signature the installed package tells us (optax, jax, haiku)
    for _, c in ff.calls():
      pth = ff.ext(c.func)
      if not pth or pth.split('.')[0] not in ('optax', 'haiku', 'jax') or not c.args or any(isinstance(a, ast.Starred) for a in c.args):
        continue
      names = _ext_positional(pth)
      if not names:
        continue
      allp = set(names)
      for p, a in zip(names, c.args):
        if isinstance(a, ast.Name) and a.id != p and a.id in allp and (rel(p) or rel(a.id)):
          check.ob(rule + '.swapped', fi, txt(c)[:90], False,
                   f'`{a.id}` is passed positionally where {pth} expects `{p}` (signature of the installed package), although {pth} has a '
                   f'parameter called `{a.id}`', node=a, exact=True)
    if only is None:
      for c, how in filtered_kwargs(ff):
        check.ob(rule + '.kwargs', fi, txt(c)[:90], False,
                 f'the keyword arguments are filtered ({how}) before they are forwarded: some of the caller\'s overrides are dropped', node=c, exact=True)
  check.ob(rule, ('fedjax', '<functions in scope>'), f'{len(seen)} functions, {n_params} parameters', True,
           'every parameter is read or explicitly discarded; same-named parameters are passed on to repository callees; optional numbers are '
           'not tested by truthiness; **kwargs are forwarded unfiltered', nontrivial=False)
  return len(seen)
