"""R-API: every third-party attribute and keyword used exists in the installed package.

The part of a type checker that is affordable without mypy: attribute chains
rooted at an imported third-party module are resolved by getattr on the
*installed* package (the packages are imported, fedjax is not), and keyword
names at resolved call sites are checked against inspect.signature.

An access guarded by `hasattr(mod, 'name')` is a compatibility branch and is
accepted.
"""
from __future__ import annotations

import ast
import importlib
import inspect
import os
from dataclasses import dataclass
from typing import Dict, List, Optional, Tuple

from fjsa.flow import txt
from fjsa.model import FuncInfo, Module, Repo

ROOTS = ('jax', 'numpy', 'haiku', 'optax', 'scipy', 'msgpack')
_MISSING = object()
_cache: Dict[str, object] = {}


def _import_root(name: str):
  os.environ.setdefault('JAX_PLATFORMS', 'cpu')
  if name not in _cache:
    try:
      _cache[name] = importlib.import_module(name)
    except Exception:  # pylint: disable=broad-except
      _cache[name] = _MISSING
  return _cache[name]


def resolve_path(path: str):
  parts = path.split('.')
  obj = _import_root(parts[0])
  if obj is _MISSING:
    return _MISSING, parts[0]
  cur = parts[0]
  for p in parts[1:]:
    nxt = getattr(obj, p, _MISSING)
    if nxt is _MISSING:
      try:
        nxt = importlib.import_module(cur + '.' + p)
      except Exception:  # pylint: disable=broad-except
        return _MISSING, cur + '.' + p
    obj = nxt
    cur = cur + '.' + p
  return obj, None


@dataclass
class ApiIssue:
  module: Module
  fi: Optional[FuncInfo]
  node: ast.AST
  construct: str
  detail: str


@dataclass
class ApiStats:
  chains: int = 0
  calls_with_keywords: int = 0
  packages: Tuple[str, ...] = ()


def _hasattr_guarded(m: Module, repo: Repo, node: ast.AST, base_path: str, attr: str) -> bool:
  child = node
  n = m.parent_of.get(node)
  while n is not None:
    test = None
    pol = None
    if isinstance(n, ast.If):
      if any(child is s for s in n.body):
        test, pol = n.test, True
      elif any(child is s for s in n.orelse):
        test, pol = n.test, False
    elif isinstance(n, ast.IfExp):
      if child is n.body:
        test, pol = n.test, True
      elif child is n.orelse:
        test, pol = n.test, False
    if test is not None:
      t = test
      if isinstance(t, ast.UnaryOp) and isinstance(t.op, ast.Not):
        t, pol = t.operand, not pol
      if pol and isinstance(t, ast.Call) and isinstance(t.func, ast.Name) and t.func.id == 'hasattr' and len(t.args) == 2:
        if isinstance(t.args[1], ast.Constant) and t.args[1].value == attr:
          return True
    if isinstance(n, (ast.FunctionDef, ast.AsyncFunctionDef)):
      # early-return form:  if not hasattr(..): return fallback
      for st in n.body:
        if st is child:
          break
        if isinstance(st, ast.If) and isinstance(st.test, ast.UnaryOp) and isinstance(st.test.op, ast.Not):
          t = st.test.operand
          if isinstance(t, ast.Call) and isinstance(t.func, ast.Name) and t.func.id == 'hasattr' and len(t.args) == 2 and isinstance(
              t.args[1], ast.Constant) and t.args[1].value == attr and st.body and isinstance(st.body[-1], (ast.Return, ast.Raise)):
            return True
    child, n = n, m.parent_of.get(n)
  # try/except AttributeError
  n = m.parent_of.get(node)
  while n is not None:
    if isinstance(n, ast.Try):
      for h in n.handlers:
        if h.type is not None and 'AttributeError' in txt(h.type):
          return True
    n = m.parent_of.get(n)
  return False


def check_module(repo: Repo, m: Module, stats: ApiStats) -> List[ApiIssue]:
  issues: List[ApiIssue] = []
  seen = set()
  for node in ast.walk(m.tree):
    # maximal attribute chains only
    if not isinstance(node, ast.Attribute):
      continue
    parent = m.parent_of.get(node)
    if isinstance(parent, ast.Attribute) and parent.value is node:
      continue
    sc = repo.scope_of(m, node)
    r = repo.resolve(sc, node)
    if r.kind != 'ext' or not r.path or r.path.split('.')[0] not in ROOTS:
      # try prefixes: a.b.c where a.b is ext and .c is an attribute of an object (e.g. jnp.float32.dtype)
      continue
    if id(node) in seen:
      continue
    seen.add(id(node))
    stats.chains += 1
    obj, missing = resolve_path(r.path)
    fi = m.enclosing_func(node)
    if obj is _MISSING:
      if missing and missing.split('.')[0] == missing:
        continue  # package not installed: nothing to check against
      attr = missing.split('.')[-1]
      if _hasattr_guarded(m, repo, node, '.'.join(missing.split('.')[:-1]), attr):
        continue
      issues.append(ApiIssue(m, fi, node, r.path,
                             f'{missing} does not exist in the installed {missing.split(".")[0]} '
                             f'({_version(missing.split(".")[0])}): AttributeError when this line runs'))
      continue
    # keywords at a direct call of the chain, or bound through functools.partial
    kws: List[str] = []
    call = parent if isinstance(parent, ast.Call) and parent.func is node else None
    if call is not None:
      kws = [k.arg for k in call.keywords if k.arg]
    elif isinstance(parent, ast.Call) and node in parent.args and parent.args and parent.args[0] is node:
      pr = repo.resolve(sc, parent.func)
      if pr.kind == 'ext' and pr.path == 'functools.partial':
        kws = [k.arg for k in parent.keywords if k.arg]
    if kws and callable(obj):
      stats.calls_with_keywords += 1
      try:
        sig = inspect.signature(obj)
      except (TypeError, ValueError):
        continue
      params = sig.parameters
      if any(p.kind == inspect.Parameter.VAR_KEYWORD for p in params.values()):
        continue
      for k in kws:
        if k not in params or params[k].kind == inspect.Parameter.POSITIONAL_ONLY:
          issues.append(ApiIssue(m, fi, parent, f'{r.path}({k}=...)',
                                 f'{r.path} of the installed {r.path.split(".")[0]} ({_version(r.path.split(".")[0])}) '
                                 f'accepts no keyword {k!r} (parameters: {list(params)[:8]}): TypeError when called'))
  return issues


def _version(pkg: str) -> str:
  mod = _import_root(pkg)
  return getattr(mod, '__version__', '?') if mod is not _MISSING else 'not installed'
