"""R-DIV: data-dependent denominators are guarded.

Every true division (`/`, jnp.divide, jnp.true_divide) in the numeric modules
is classified by its denominator:
  CONST  non-zero literal / module constant
  SHAPE  built from .size, .shape, len(), 2**k, sqrt/prod/log2/ceil of those
  HYPER  python scalar configuration: int-annotated parameters, parameters of
         builder functions (functions returning closures), arithmetic on them
  DATA   anything else (reductions of arrays, weights, unannotated operands)
A DATA denominator needs one of the guards G1..G6 (see DESIGN.md section 3).
"""
from __future__ import annotations

import ast
from dataclasses import dataclass
from typing import List, Optional, Tuple

from fjsa.flow import FuncFlow, guards_of, same, txt
from fjsa.model import FuncInfo, Module, Repo

DIV_FUNCS = {'jax.numpy.divide', 'jax.numpy.true_divide', 'numpy.divide', 'numpy.true_divide'}
SHAPE_FUNCS = {'builtins.len', 'math.ceil', 'math.log2', 'math.log', 'math.sqrt', 'math.floor', 'jax.numpy.sqrt',
               'numpy.sqrt', 'numpy.prod', 'jax.numpy.prod', 'builtins.float', 'builtins.int', 'jax.numpy.log2',
               'builtins.max', 'builtins.min', 'jax.numpy.exp', 'math.exp', 'numpy.float32', 'jax.numpy.float32'}
MAXIMUM = {'numpy.maximum', 'jax.numpy.maximum', 'builtins.max'}
MINIMUM = {'numpy.minimum', 'jax.numpy.minimum', 'builtins.min'}
WHERE = {'numpy.where', 'jax.numpy.where'}
NAN_TO_NUM = {'jax.numpy.nan_to_num', 'numpy.nan_to_num'}
SUMS = {'jax.numpy.sum', 'numpy.sum'}
NONNEG_SOURCES = {'jax.numpy.histogram', 'numpy.histogram', 'jax.numpy.abs', 'numpy.abs', 'jax.numpy.square',
                  'jax.numpy.exp'}


@dataclass
class DivSite:
  fi: FuncInfo
  node: ast.AST
  numer: ast.AST
  denom: ast.AST
  cls: str
  guard: Optional[str]
  why: str


class DivAnalysis:

  def __init__(self, repo: Repo):
    self.repo = repo

  def sites(self, fi: FuncInfo) -> List[DivSite]:
    ff = FuncFlow.of(self.repo, fi)
    out = []
    seen = set()
    for n in ff.cfg.nodes:
      if n.ast is None:
        continue
      for x in n.walk():
        if id(x) in seen:
          continue
        seen.add(id(x))
        num = den = None
        if isinstance(x, ast.BinOp) and isinstance(x.op, ast.Div):
          num, den = x.left, x.right
        elif isinstance(x, ast.AugAssign) and isinstance(x.op, ast.Div):
          num, den = x.target, x.value
        elif isinstance(x, ast.Call) and ff.ext(x.func) in DIV_FUNCS and len(x.args) >= 2:
          num, den = x.args[0], x.args[1]
        if den is None:
          continue
        cls, why = self.classify(ff, den)
        guard = None
        if cls == 'DATA':
          guard = self.guard(ff, x, num, den)
        out.append(DivSite(fi, x, num, den, cls, guard, why))
    return out

  # --- classification
  def classify(self, ff: FuncFlow, e: ast.AST, depth: int = 6) -> Tuple[str, str]:
    rank = {'CONST': 0, 'SHAPE': 1, 'HYPER': 2, 'DATA': 3}
    def worst(parts):
      best = ('CONST', '')
      for c, w in parts:
        if rank[c] > rank[best[0]]:
          best = (c, w)
      return best
    if isinstance(e, ast.Constant):
      if isinstance(e.value, (int, float)) and e.value != 0:
        return 'CONST', 'non-zero literal'
      return 'DATA', f'literal {e.value!r}'
    if isinstance(e, ast.UnaryOp):
      return self.classify(ff, e.operand, depth)
    if isinstance(e, ast.BinOp):
      l, r = self.classify(ff, e.left, depth), self.classify(ff, e.right, depth)
      c = worst([l, r])
      if isinstance(e.op, (ast.Sub,)) and c[0] == 'CONST':
        return 'CONST', 'constant arithmetic'
      return c
    if isinstance(e, ast.Attribute):
      if e.attr in ('size', 'shape', 'ndim'):
        return 'SHAPE', f'.{e.attr}'
      return 'DATA', f'attribute {txt(e)}'
    if isinstance(e, ast.Subscript):
      c, w = self.classify(ff, e.value, depth)
      if c == 'SHAPE':
        return c, w
      return 'DATA', f'element {txt(e)}'
    if isinstance(e, ast.Call):
      p = ff.ext(e.func)
      if p in SHAPE_FUNCS:
        parts = [self.classify(ff, a, depth) for a in e.args] or [('SHAPE', p)]
        c = worst(parts)
        if p == 'builtins.len':
          return 'SHAPE', 'len()'
        return (c if c[0] != 'CONST' else ('CONST', 'constant function'))
      r = ff.callee(e)
      if r.kind == 'func' and r.func.name in ('num_leaves', 'tree_size'):
        return 'SHAPE', r.func.name
      if p in ('numpy.array', 'jax.numpy.array') and e.args:
        return self.classify(ff, e.args[0], depth)
      return 'DATA', f'result of {txt(e.func)}(...)'
    if isinstance(e, (ast.List, ast.Tuple)):
      parts = [self.classify(ff, x, depth) for x in e.elts]
      return worst(parts) if parts else ('DATA', 'empty literal')
    if isinstance(e, ast.Name):
      if ff.is_local(e):
        ds = ff.defs_for(e)
        if ds and all(d.kind == 'param' for d in ds):
          return self._param_class(ff.fi, e.id)
        if depth > 0 and ds and all(d.kind in ('assign', 'aug') and d.value is not None and d.index is None for d in ds):
          parts = []
          for d in ds:
            v = d.value.value if d.kind == 'aug' else d.value
            parts.append(self.classify(ff, v, depth - 1))
          return worst(parts)
        return 'DATA', f'local {e.id}'
      # free variable: parameter of an enclosing (builder) function, or module constant
      sc = ff.scope_at(e).lookup_scope(e.id)
      if sc is None:
        return 'DATA', f'unknown {e.id}'
      if sc.kind == 'function':
        owner = sc.module.funcs_by_node[sc.node]
        bs = sc.bindings.get(e.id, [])
        if bs and all(b.kind == 'param' for b in bs):
          return 'HYPER', f'parameter {e.id} of builder {owner.qualname}'
        if len(bs) == 1 and bs[0].kind == 'assign' and bs[0].value is not None and depth > 0:
          off = FuncFlow.of(self.repo, owner)
          return self.classify(off, bs[0].value, depth - 1)
        return 'DATA', f'captured {e.id}'
      if sc.kind == 'module':
        bs = sc.bindings.get(e.id, [])
        if len(bs) == 1 and bs[0].kind == 'assign' and bs[0].value is not None:
          mf = _ModuleFlow(self.repo, sc.module)
          return self.classify(mf, bs[0].value, 2) if depth > 0 else ('DATA', e.id)
      return 'DATA', f'name {e.id}'
    if isinstance(e, ast.IfExp):
      return worst([self.classify(ff, e.body, depth), self.classify(ff, e.orelse, depth)])
    return 'DATA', type(e).__name__

  def _param_class(self, fi: FuncInfo, name: str) -> Tuple[str, str]:
    ann = fi.param_annotation(name)
    if ann is not None and txt(ann) in ('int', 'Optional[int]'):
      return 'HYPER', f'int parameter {name}'
    if self._is_builder(fi):
      return 'HYPER', f'parameter {name} of builder {fi.qualname}'
    return 'DATA', f'parameter {name} of {fi.qualname}'

  def _is_builder(self, fi: FuncInfo) -> bool:
    """Returns a closure / object built from closures."""
    ff = FuncFlow.of(self.repo, fi)
    nested = {c.name for c in fi.scope.children if c.kind == 'function'}
    if not nested:
      return False
    for _, v in ff.returns():
      if v is None:
        continue
      for x in ast.walk(v):
        if isinstance(x, ast.Name) and x.id in nested:
          return True
    return False

  # --- guards
  def guard(self, ff: FuncFlow, node: ast.AST, num: ast.AST, den: ast.AST) -> Optional[str]:
    m = ff.module
    # G1: the division is util.safe_div's own (floored below)
    # G4: floored denominator
    g4 = self._floored(ff, den)
    if g4:
      return g4
    # G2: wrapped in nan_to_num
    p = m.parent_of.get(node)
    hops = 0
    while p is not None and hops < 3:
      if isinstance(p, ast.Call) and ff.ext(p.func) in NAN_TO_NUM and p.args and _contains(p.args[0], node):
        return 'G2 nan_to_num'
      if isinstance(p, ast.Call) and ff.ext(p.func) in MINIMUM and len(p.args) == 2:
        other = [a for a in p.args if not _contains(a, node)]
        if len(other) == 1 and isinstance(other[0], ast.Constant) and isinstance(num, (ast.Name, ast.Constant)):
          return 'G5 minimum(const, c / d)'
      if not isinstance(p, (ast.BinOp, ast.UnaryOp, ast.Call)):
        break
      if isinstance(p, ast.Call):
        break
      p = m.parent_of.get(p)
      hops += 1
    # G3: dominated by a comparison of the denominator with zero
    for test, pol in guards_of(ff, node):
      if self._tests_nonzero(ff, test, den, pol):
        return 'G3 guarded by ' + txt(test)
    # G6: self-normalisation of a non-negative vector
    if isinstance(den, ast.Call) and ff.ext(den.func) in SUMS and den.args and same(den.args[0], num):
      if self._nonneg(ff, num):
        return 'G6 v / sum(v), v >= 0'
    return None

  def _floored(self, ff: FuncFlow, den: ast.AST, depth: int = 3) -> Optional[str]:
    for x in ff.expand(den):
      if isinstance(x, ast.Call):
        p = ff.ext(x.func)
        if p in MAXIMUM and len(x.args) == 2:
          for a in x.args:
            c, _ = self.classify(ff, a)
            if c in ('CONST', 'SHAPE') and not (isinstance(a, ast.Constant) and a.value <= 0):
              continue_ok = True
              return f'G4 floor {txt(x)[:50]}'
          return None
        if p in WHERE and len(x.args) == 3:
          cond, a, b = x.args
          # where(b != 0, b, nonzero)
          c, _ = self.classify(ff, b)
          if c == 'CONST' and self._cond_nonzero_of(ff, cond, a):
            return f'G4 where({txt(cond)}, d, {txt(b)})'
      else:
        return None
    return None

  def _cond_nonzero_of(self, ff: FuncFlow, cond: ast.AST, d: ast.AST) -> bool:
    for c in ff.expand(cond):
      if isinstance(c, ast.Compare) and len(c.ops) == 1 and isinstance(c.ops[0], (ast.NotEq, ast.Gt)):
        if same(c.left, d) and isinstance(c.comparators[0], ast.Constant) and c.comparators[0].value == 0:
          return True
    return False

  def _tests_nonzero(self, ff: FuncFlow, test: ast.AST, den: ast.AST, pol: bool) -> bool:
    if isinstance(test, ast.UnaryOp) and isinstance(test.op, ast.Not):
      return self._tests_nonzero(ff, test.operand, den, not pol)
    if isinstance(test, ast.BoolOp) and isinstance(test.op, ast.And) and pol:
      return any(self._tests_nonzero(ff, v, den, True) for v in test.values)
    if isinstance(test, ast.Compare) and len(test.ops) == 1:
      l, op, r = test.left, test.ops[0], test.comparators[0]
      zero = lambda e: isinstance(e, ast.Constant) and e.value == 0
      if same(l, den) and zero(r):
        return (isinstance(op, (ast.Gt, ast.NotEq)) and pol) or (isinstance(op, (ast.Eq, ast.LtE)) and not pol)
      if same(r, den) and zero(l):
        return (isinstance(op, (ast.Lt, ast.NotEq)) and pol) or (isinstance(op, (ast.Eq, ast.GtE)) and not pol)
      return False
    if same(test, den):
      return pol  # truthiness: `x / len(xs) if len(xs) else 0`
    return False

  def _nonneg(self, ff: FuncFlow, v: ast.AST) -> bool:
    if not isinstance(v, ast.Name):
      return False
    ds = ff.defs_for(v)
    if not ds:
      return False
    for d in ds:
      val = d.value
      if val is None:
        return False
      if isinstance(val, ast.Call):
        p = ff.ext(val.func)
        if p in MAXIMUM and len(val.args) == 2:
          # maximum(x, 0) or maximum(x, zeros_like(x))
          other = val.args[1]
          if (isinstance(other, ast.Constant) and other.value == 0) or (
              isinstance(other, ast.Call) and ff.ext(other.func) in ('jax.numpy.zeros_like', 'numpy.zeros_like')):
            continue
          return False
        if p in NONNEG_SOURCES:
          continue
        return False
      return False
    return True


class _ModuleFlow:
  """Minimal FuncFlow stand-in for classifying module-level constants."""

  def __init__(self, repo: Repo, module: Module):
    self.repo = repo
    self.module = module
    self.fi = None

  def ext(self, e):
    r = self.repo.resolve(self.module.scope, e)
    return r.path if r.kind == 'ext' else None

  def callee(self, c):
    return self.repo.resolve(self.module.scope, c.func)

  def is_local(self, name):
    return False

  def scope_at(self, e):
    return self.module.scope

  def expand(self, e):
    return [e]

  def defs_for(self, n):
    return frozenset()


def _contains(root: ast.AST, node: ast.AST) -> bool:
  return any(x is node for x in ast.walk(root))
