"""R-DEFASSIGN: definite assignment after possibly-empty loops.

A local name is *possibly unbound* at a read when an 'unbound' definition
reaches the read. To avoid the classic path-insensitivity false alarms
(names bound under the same condition they are read under) the rule is
restricted to names all of whose binders sit inside a loop (as the loop
target or in the loop body) that the read is outside of, and whose iterable
is not provably non-empty.
"""
from __future__ import annotations

import ast
from typing import List, Tuple

from fjsa.cfg import Node
from fjsa.flow import FuncFlow


def _nonempty_iterable(ff: FuncFlow, it: ast.AST) -> bool:
  if isinstance(it, (ast.Tuple, ast.List, ast.Set)) and it.elts:
    return True
  if isinstance(it, ast.Constant) and isinstance(it.value, (str, bytes)) and it.value:
    return True
  if isinstance(it, ast.Call) and ff.ext(it.func) == 'builtins.range':
    args = it.args
    vals = []
    for a in args:
      if isinstance(a, ast.Constant) and isinstance(a.value, int):
        vals.append(a.value)
      else:
        return False
    try:
      return len(range(*vals)) > 0
    except Exception:  # pylint: disable=broad-except
      return False
  return False


def loop_unbound_reads(ff: FuncFlow) -> List[Tuple[str, ast.Name, ast.AST]]:
  """(name, read Name node, loop stmt) triples that are possibly unbound."""
  out = []
  m = ff.module
  rd = ff.rd
  # binders per name -> enclosing loops
  binders = {}
  for nid, ds in rd.defs_at.items():
    for d in ds:
      if d.kind == 'del':
        continue
      binders.setdefault(d.name, []).append(d)
  for n in ff.cfg.nodes:
    if n.ast is None:
      continue
    for x in n.walk():
      if not (isinstance(x, ast.Name) and isinstance(x.ctx, ast.Load)):
        continue
      if not ff.is_local(x) or x.id in rd.param_defs:
        continue
      reach = rd.reaching(n, x.id)
      if not any(d.kind == 'unbound' for d in reach):
        continue
      bs = binders.get(x.id, [])
      if not bs:
        continue
      loops_of_read = set(id(l) for l in _loops_of(ff, x))
      common = None
      ok = True
      for d in bs:
        anchor = d.node.ast
        ls = _loops_of(ff, d.target if d.target is not None else anchor, include_self_for=d)
        ls = [l for l in ls if id(l) not in loops_of_read]
        if not ls:
          ok = False
          break
        outer = ls[-1]
        if common is None:
          common = outer
        elif common is not outer:
          ok = False
          break
      if not ok or common is None:
        continue
      if isinstance(common, (ast.For, ast.AsyncFor)) and _nonempty_iterable(ff, common.iter):
        continue
      if isinstance(common, ast.While) and isinstance(common.test, ast.Constant) and common.test.value:
        continue
      out.append((x.id, x, common))
  return out


def _loops_of(ff: FuncFlow, node: ast.AST, include_self_for=None):
  out = []
  m = ff.module
  n = m.parent_of.get(node)
  while n is not None and n is not ff.fi.node:
    if isinstance(n, (ast.For, ast.While, ast.AsyncFor)):
      out.append(n)
    if isinstance(n, (ast.FunctionDef, ast.Lambda, ast.AsyncFunctionDef)):
      break
    n = m.parent_of.get(n)
  return out
