"""Round-level obligations on an algorithm's `apply` (R-WMEAN, R-YIELD1, server update)."""
from __future__ import annotations

import ast
from dataclasses import dataclass, field
from typing import Dict, List, Optional, Tuple

from fjsa.flow import FuncFlow, call_args, same, txt
from fjsa.model import FuncInfo, Repo
from fjsa.rules import skeleton as sk
from fjsa.rules import wmean
from fjsa.rules.atomic import same_value
from fjsa.rules.entries import Algorithm, Triple, triple_for_callee

BATCH_METHODS = {'shuffle_repeat_batch', 'padded_batch', 'batch'}


@dataclass
class RoundFacts:
  name: str
  idiom: str = ''
  weight: str = ''
  trainer: Optional[str] = None
  server: str = ''
  inv_sites: int = 0


def inv_calls(ff: FuncFlow) -> List[ast.Call]:
  out = []
  seen = set()
  for _, c in ff.calls():
    if id(c) in seen:
      continue
    seen.add(id(c))
    if wmean.repo_fn(ff, c) in wmean.INV:
      out.append(c)
  return out


def check_loop_mean_site(check, repo: Repo, fi: FuncInfo, inv: ast.Call, triples: List[Triple], rule: str,
                         clients_param: Optional[str], weight_policy: str = 'len',
                         advisory: bool = False) -> Optional[wmean.LoopMean]:
  """Obligations for one `tree_inverse_weight(S, W)` site in `fi`."""
  ff = FuncFlow.of(repo, fi)
  lm = wmean.analyse_loop_mean(ff, inv)
  construct = txt(inv)[:90]
  if lm.unrecognised:
    check.inconclusive(rule, fi, construct, 'aggregation form not recognised: ' + lm.unrecognised, node=inv)
    return None
  if lm.problems:
    for kind, text, node in lm.problems:
      check.ob(f'{rule}.{kind}', fi, construct, False, text, node=node, advisory=advisory)
    return lm
  check.ob(rule + '.accumulate', fi, construct, True, '; '.join(lm.facts), node=inv)
  if lm.loop is None:
    return lm
  # provenance of x: the client output yielded for this iteration
  tg = wmean.loop_targets(lm.loop)
  okx, whyx = wmean.derives_from_loop_elem(ff, lm.x, lm.loop, 1)
  check.ob(rule + '.value', fi, f'tree_weight({txt(lm.x)}, .)', okx,
           f'the tree that is averaged must be this client\'s output: {whyx}', node=lm.x, advisory=advisory)
  # provenance of w
  if weight_policy == 'len' and clients_param is not None:
    okw, whyw = wmean.weight_is_len_of_same_client(ff, lm.w_sum, lm.loop, clients_param)
    if okw is None:
      check.inconclusive(rule + '.weight', fi, txt(lm.w_sum), whyw, node=lm.w_sum)
    else:
      check.ob(rule + '.weight', fi, f'weight {txt(lm.w_sum)}', okw, whyw, node=lm.w_sum, advisory=advisory)
  return lm


def check_generator_loop(check, repo: Repo, fi: FuncInfo, loop: ast.For, triples: List[Triple], rule: str,
                         advisory: bool = False) -> Optional[Triple]:
  """The loop iterates a for_each_client generator; returns its triple."""
  ff = FuncFlow.of(repo, fi)
  it = loop.iter
  if not isinstance(it, ast.Call):
    check.inconclusive(rule + '.generator', fi, txt(it)[:60], 'loop does not iterate a call', node=it)
    return None
  t = triple_for_callee(repo, ff, it, triples)
  if t is None:
    check.inconclusive(rule + '.generator', fi, txt(it)[:60], 'cannot resolve the for_each_client triple', node=it)
    return None
  check.ob(rule + '.generator', fi, txt(it.func), True, f'iterates {t.name}', node=it, nontrivial=True)
  return t


def check_diagnostics(check, repo: Repo, fi: FuncInfo, loop: ast.For, rule: str = 'R-YIELD1', advisory: bool = False):
  """Exactly one `diag[<loop client id>] = ...` store per iteration and the
  returned mapping is that object."""
  ff = FuncFlow.of(repo, fi)
  tg = wmean.loop_targets(loop)
  if not isinstance(tg[0], ast.Name):
    check.inconclusive(rule, fi, txt(loop.target), 'loop target is not (client_id, ...)')
    return
  cid = tg[0].id
  rets = ff.returns()
  diag_names = set()
  for _, rv in rets:
    if isinstance(rv, ast.Tuple) and len(rv.elts) == 2 and isinstance(rv.elts[1], ast.Name):
      diag_names.add(rv.elts[1].id)
  if len(diag_names) != 1:
    check.inconclusive(rule, fi, 'return value', 'apply does not return (state, <diagnostics variable>)')
    return
  dn = next(iter(diag_names))
  stores = []
  seen = set()
  for n in ff.cfg.nodes:
    a = n.ast
    if n.kind == 'stmt' and isinstance(a, ast.Assign) and id(a) not in seen:
      for t in a.targets:
        if isinstance(t, ast.Subscript) and isinstance(t.value, ast.Name) and t.value.id == dn:
          seen.add(id(a))
          stores.append((n, a, t))
  in_loop = [s for s in stores if wmean._loop_of(ff, s[1]) is loop]
  keyed = [s for s in in_loop if isinstance(s[2].slice, ast.Name) and s[2].slice.id == cid]
  wrong = [s for s in in_loop if s not in keyed]
  for n, a, t in wrong:
    check.ob(rule, fi, txt(t), False, f'diagnostics stored under {txt(t.slice)}, not under the id of the yielded client',
             node=a, advisory=advisory)
  if not keyed:
    check.ob(rule, fi, f'{dn}[{cid}] = ...', False, 'no diagnostics entry is stored for the yielded client',
             node=loop, advisory=advisory)
    return
  first = keyed[0]
  every = wmean._on_every_iteration(ff, loop, first[0])
  check.ob(rule, fi, f'{dn}[{cid}] = ...', every,
           'one diagnostics entry per yielded client on every path of the loop body' if every else
           'some path of the loop body skips the diagnostics entry', node=first[1], advisory=advisory)
  # the dict starts empty and is created inside this invocation
  inits = [d for nid, ds in ff.rd.defs_at.items() for d in ds if d.name == dn]
  ok_init = bool(inits) and all(isinstance(d.value, ast.Dict) and not d.value.keys for d in inits if d.kind == 'assign')
  check.ob(rule + '.fresh', fi, f'{dn} = {{}}', ok_init, 'diagnostics mapping is a fresh empty dict per round',
           advisory=advisory)


def check_client_tuples(check, repo: Repo, fi: FuncInfo, gen_call: ast.Call, clients_param: str, rule: str,
                        expect_method: str = 'shuffle_repeat_batch', advisory: bool = False):
  """The per-client tuples handed to for_each_client take id, batches and key
  from the same element of `clients`."""
  ff = FuncFlow.of(repo, fi)
  args = [a for a in gen_call.args] + [k.value for k in gen_call.keywords]
  if len(args) < 2:
    check.inconclusive(rule + '.tuples', fi, txt(gen_call)[:60], 'generator call without (shared, clients)')
    return
  cl = gen_call.args[1] if len(gen_call.args) >= 2 else next(
      (k.value for k in gen_call.keywords if k.arg == 'clients'), None)
  srcs = ff.expand(cl)
  for s in srcs:
    comp = None
    if isinstance(s, (ast.ListComp, ast.GeneratorExp)) and len(s.generators) == 1:
      comp = s
    elif isinstance(s, ast.List) and not s.elts:
      # built by append in a loop over clients
      _check_append_tuples(check, ff, fi, cl, clients_param, rule, expect_method, advisory)
      continue
    if comp is None:
      check.inconclusive(rule + '.tuples', fi, txt(s)[:60], 'client tuples are not built by a comprehension')
      continue
    g = comp.generators[0]
    iters = ff.expand(g.iter)
    base_ok = any(ff.param_of(x) == clients_param for x in iters) or any(
        isinstance(x, ast.Call) and ff.ext(x.func) == 'builtins.zip' and x.args and ff.param_of(x.args[0]) == clients_param
        for x in iters)
    tgt = g.target
    elt = comp.elt
    ok = base_ok and isinstance(elt, ast.Tuple) and len(elt.elts) == 3
    why = ''
    if ok:
      names = _flat_names(tgt)
      e_id, e_b, e_k = elt.elts
      ok_id = isinstance(e_id, ast.Name) and names[:1] == [e_id.id]
      ok_b = isinstance(e_b, ast.Call) and isinstance(e_b.func, ast.Attribute) and e_b.func.attr in BATCH_METHODS and isinstance(
          e_b.func.value, ast.Name) and len(names) > 1 and e_b.func.value.id == names[1]
      meth = e_b.func.attr if ok_b else None
      ok_m = meth == expect_method
      third_names = [x.id for x in ast.walk(e_k) if isinstance(x, ast.Name)]
      own = set(names[2:])
      ok_k = bool(own & set(third_names)) and clients_param not in third_names
      ok = ok_id and ok_b and ok_m and ok_k
      why = f'id={txt(e_id)}, batches={txt(e_b)[:50]}, third={txt(e_k)[:40]}'
      if not ok_k:
        why += ' (the per-client input/key must come from the same element, not from a fixed client)'
      if ok_b and not ok_m:
        why += f' (expected .{expect_method}())'
    check.ob(rule + '.tuples', fi, txt(comp)[:100], ok,
             'each (id, batches, input) tuple must take its id and dataset from the same element of `clients` and batch '
             f'with {expect_method}: {why}', node=comp, advisory=advisory)


def _check_append_tuples(check, ff, fi, cl, clients_param, rule, expect_method, advisory):
  if not isinstance(cl, ast.Name):
    return
  for _, c in ff.calls():
    if isinstance(c.func, ast.Attribute) and c.func.attr == 'append' and isinstance(c.func.value, ast.Name) and c.func.value.id == cl.id and c.args:
      elt = c.args[0]
      loop = wmean._loop_of(ff, c)
      ok = False
      why = 'not in a loop over clients'
      if loop is not None and isinstance(loop, ast.For) and ff.param_of(loop.iter) == clients_param and isinstance(elt, ast.Tuple) and len(elt.elts) == 3:
        names = _flat_names(loop.target)
        e_id, e_b, e_k = elt.elts
        ok = (isinstance(e_id, ast.Name) and names[:1] == [e_id.id] and isinstance(e_b, ast.Call) and isinstance(
            e_b.func, ast.Attribute) and e_b.func.attr == expect_method and isinstance(e_b.func.value, ast.Name) and len(names) > 1 and
              e_b.func.value.id == names[1])
        why = f'id={txt(e_id)}, batches={txt(e_b)[:50]}'
      check.ob(rule + '.tuples', fi, txt(c)[:100], ok,
               'each (id, batches, input) tuple must take its id and dataset from the same element of `clients`: ' + why,
               node=c, advisory=advisory)


def _flat_names(t: ast.AST) -> List[str]:
  if isinstance(t, ast.Name):
    return [t.id]
  out = []
  if isinstance(t, (ast.Tuple, ast.List)):
    for e in t.elts:
      out += _flat_names(e)
  return out


def check_server_update(check, repo: Repo, alg: Algorithm, mean_call: ast.Call, rule: str, advisory: bool = False) -> str:
  """The mean delta reaches `server_optimizer.apply(mean, state.opt_state, state.params)`
  and the new state is built from its results in field order."""
  fi = alg.apply
  ff = FuncFlow.of(repo, fi)
  # follow the mean through a call of a nested server_update(...)
  carriers = []  # (ff, expr that holds the mean)
  mean_names = [d for d in _names_bound_to(ff, mean_call)]
  targets: List[Tuple[FuncFlow, FuncInfo, Dict[str, ast.AST]]] = []
  for _, c in ff.calls():
    r = ff.callee(c)
    if r.kind == 'func' and r.func.scope.parent is alg.builder.scope:
      b = call_args(c, r.func.positional_params)
      for pname, a in b.items():
        if a is mean_call or (isinstance(a, ast.Name) and a.id in mean_names and any(x is mean_call for x in ff.expand(a))):
          targets.append((FuncFlow.of(repo, r.func), r.func, {'mean': pname, 'binding': b, 'call': c}))
  if not targets:
    targets.append((ff, fi, {'mean': None}))
  kind = ''
  for tff, tfi, info in targets:
    check.analysed(tfi)
    sites = sk.opt_apply_sites(tff, None)
    mean_sites = []
    for oc in sites:
      if info['mean'] is not None:
        if tff.param_of(oc.grads) == info['mean']:
          mean_sites.append(oc)
      else:
        if any(x is mean_call for x in tff.expand(oc.grads)):
          mean_sites.append(oc)
    if mean_sites:
      kind = 'optimizer'
      for oc in mean_sites:
        state_param = _state_param(tff, oc)
        ok_args = state_param is not None and _attr_of(tff, oc.opt_state, state_param) == 'opt_state' and _attr_of(
            tff, oc.params, state_param) == 'params'
        check.ob(rule + '.server-args', tfi, txt(oc.call)[:100], ok_args,
                 'server optimizer must be applied as apply(mean_delta, state.opt_state, state.params)', node=oc.call,
                 advisory=advisory)
        _check_state_ctor(check, tff, tfi, oc, rule, advisory)
        # the state passed to server_update is the round's input state
        if info.get('binding') is not None and state_param is not None:
          a = info['binding'].get(state_param)
          ok_state = a is not None and ff.param_of(a) == fi.positional_params[0]
          check.ob(rule + '.server-state', fi, txt(info['call'])[:80], ok_state,
                   'the server update must start from the state passed into this round', node=info['call'],
                   advisory=advisory)
    else:
      # Mime family: params = tree_map(lambda p, q: p - lr * q, state.params, mean)
      found = False
      for _, c in tff.calls():
        if tff.ext(c.func) in sk.TREE_MAPS and len(c.args) == 3 and isinstance(c.args[0], ast.Lambda):
          lam = c.args[0]
          uses_mean = (info['mean'] is not None and tff.param_of(c.args[2]) == info['mean']) or any(
              x is mean_call for x in tff.expand(c.args[2]))
          if not uses_mean:
            continue
          found = True
          kind = 'sgd-step'
          body = lam.body
          p, q = [a.arg for a in lam.args.args][:2]
          ok = (isinstance(body, ast.BinOp) and isinstance(body.op, ast.Sub) and isinstance(body.left, ast.Name) and
                body.left.id == p and isinstance(body.right, ast.BinOp) and isinstance(body.right.op, ast.Mult) and
                any(isinstance(z, ast.Name) and z.id == q for z in (body.right.left, body.right.right)))
          state_param = tfi.positional_params[0] if tfi.positional_params else None
          ok_p = state_param is not None and _attr_of(tff, c.args[1], state_param) == 'params'
          check.ob(rule + '.server-step', tfi, txt(c)[:100], ok and ok_p,
                   'server params must move by params - server_learning_rate * mean_delta', node=c, advisory=advisory)
      if not found:
        check.inconclusive(rule + '.server-args', tfi, 'server update', 'cannot find where the mean delta is applied')
  return kind


def _names_bound_to(ff: FuncFlow, call: ast.Call) -> List[str]:
  out = []
  for nid, ds in ff.rd.defs_at.items():
    for d in ds:
      if d.kind == 'assign' and d.value is call:
        out.append(d.name)
  return out


def _state_param(ff: FuncFlow, oc: sk.OptCall) -> Optional[str]:
  for e in (oc.opt_state, oc.params):
    for x in ff.expand(e):
      if isinstance(x, ast.Attribute):
        p = ff.param_of(x.value)
        if p is not None:
          return p
  return None


def _attr_of(ff: FuncFlow, e: ast.AST, param: str) -> Optional[str]:
  for x in ff.expand(e):
    if isinstance(x, ast.Attribute) and ff.param_of(x.value) == param:
      return x.attr
    return None
  return None


def _check_state_ctor(check, ff: FuncFlow, fi: FuncInfo, oc: sk.OptCall, rule: str, advisory: bool):
  """ServerState(params, opt_state, ...) receives the optimizer results in field order."""
  # every result of the optimizer call must flow into the returned state (constructor, .replace(...), dict ...)
  for res, what in ((oc.res_params, 'new params'), (oc.res_opt, 'new optimizer state')):
    if not isinstance(res, ast.Name) or res.id == '_':
      continue
    carried = False
    for _, rv in ff.returns():
      if rv is None:
        continue
      for x in ff.deep_walk(rv):
        if isinstance(x, ast.Name) and sk.derives_from_result(ff, x, res):
          carried = True
    check.ob(rule + '.state-carries', fi, f'{what} ({res.id}) in the returned state', carried,
             f'the {what} produced by the server optimizer must be part of the state that is returned: otherwise stateful '
             f'server optimizers (momentum, Adam) restart every round', node=oc.call, advisory=advisory)
  for _, rv in ff.returns():
    if rv is None:
      continue
    for x in ff.expand(rv):
      cands = [x]
      if isinstance(x, ast.Tuple):
        cands = list(x.elts)
      for c in cands:
        for y in ff.expand(c):
          if not isinstance(y, ast.Call):
            continue
          r = ff.callee(y)
          if r.kind != 'class':
            continue
          fields = [f for f, _, _ in r.cls.fields]
          if 'params' not in fields or 'opt_state' not in fields:
            continue
          b = call_args(y, fields)
          ok_p = 'params' in b and oc.res_params is not None and sk.derives_from_result(ff, b['params'], oc.res_params)
          ok_o = 'opt_state' in b and oc.res_opt is not None and sk.derives_from_result(ff, b['opt_state'], oc.res_opt)
          check.ob(rule + '.state-ctor', fi, txt(y)[:80], ok_p and ok_o,
                   f'{r.cls.name} fields are {fields}: `params` must receive the optimizer\'s new params and '
                   f'`opt_state` its new state', node=y, advisory=advisory)


def check_no_client_filter(check, repo: Repo, fi: FuncInfo, clients_param: str, rule: str = 'R-YIELD1.filter'):
  """Every client handed to the round takes part in it: no comprehension or generator over the clients argument (or over something
  built only from it) carries an `if` clause, and no loop over it skips iterations with `continue` before the client is used. A
  filtered cohort silently loses clients (no diagnostics entry, no state entry, a different weight total)."""
  ff = FuncFlow.of(repo, fi)
  n = 0
  for nd in ff.cfg.nodes:
    if nd.ast is None:
      continue
    for x in nd.walk():
      if not isinstance(x, (ast.ListComp, ast.SetComp, ast.DictComp, ast.GeneratorExp)):
        continue
      for g in x.generators:
        src = g.iter
        if isinstance(src, ast.Call) and txt(src.func) in ('enumerate', 'zip', 'list', 'tuple', 'iter', 'sorted') and src.args:
          src = src.args[0]
        if ff.param_of(src) != clients_param:
          continue
        n += 1
        check.ob(rule, fi, f'for ... in {clients_param}' + (f' if {txt(g.ifs[0])[:50]}' if g.ifs else ''), not g.ifs,
                 'the cohort is passed on whole: a filtered comprehension drops clients from the round (their diagnostics / state / weight)',
                 node=x, exact=True)
  return n

