"""R-DONATE: donated buffers are owned and never reused.

For every call g(a0..an) where g resolves to a jax.jit / jax.pmap wrapper with
donate_argnums containing i (or to a repo function summarised "donates
parameter j" because it forwards that parameter to such a call):
  D1 (ownership)  a_i shares no device buffer with a parameter of the
      enclosing function, with a captured variable, or with an element of a
      caller-supplied iterable (buffer-mode provenance, see rules/pure.py);
  D2 (liveness)   after the call, a_i (and plain copies of it) is rebound
      before any read on every path;
  D3 (who-may-call) module-private donating wrappers are referenced only in
      their defining module; public functions carry no donate_argnums.
"""
from __future__ import annotations

import ast
from dataclasses import dataclass
from typing import Dict, List, Optional, Set, Tuple

from fjsa.flow import FuncFlow, call_args, txt
from fjsa.model import FuncInfo, Ref, Repo
from fjsa.rules.pure import PurityAnalysis


@dataclass
class DonationSite:
  fi: FuncInfo
  call: ast.Call
  arg_index: int
  arg: ast.AST
  via: str  # description of the donating callee


class DonationAnalysis:

  def __init__(self, repo: Repo):
    self.repo = repo
    self.buf = PurityAnalysis(repo, mode='buffer')
    self._summary: Dict[int, Set[str]] = {}
    self._busy: Set[int] = set()

  def declared(self) -> List[Tuple[FuncInfo, Optional[ast.AST], str, Tuple[int, ...]]]:
    """All donation declarations in the repo: (owner function or None for a
    module level statement, node, description, argnums)."""
    out = []
    for m in self.repo.modules.values():
      for node in ast.walk(m.tree):
        if isinstance(node, ast.keyword) and node.arg == 'donate_argnums':
          try:
            v = ast.literal_eval(node.value)
          except Exception:  # pylint: disable=broad-except
            v = None
          nums = (v,) if isinstance(v, int) else tuple(v or ())
          out.append((m, node, txt(node.value), nums))
    return out

  def donated_params(self, fi: FuncInfo) -> Set[str]:
    """Parameters of `fi` that it passes at a donated position (summary)."""
    k = id(fi.node)
    if k in self._summary:
      return self._summary[k]
    if k in self._busy:
      return set()
    self._busy.add(k)
    try:
      ff = FuncFlow.of(self.repo, fi)
      out: Set[str] = set()
      for site in self._sites(ff):
        p = ff.param_of(site.arg)
        if p is not None:
          out.add(p)
      self._summary[k] = out
      return out
    finally:
      self._busy.discard(k)

  def _sites(self, ff: FuncFlow) -> List[DonationSite]:
    out = []
    seen = set()
    for _, c in ff.calls():
      if id(c) in seen:
        continue
      seen.add(id(c))
      r = ff.callee(c)
      if r.kind in ('func', 'wrapped'):
        nums = r.donated()
        offset = len(r.bound_args)
        for i in nums:
          j = i - offset
          if 0 <= j < len(c.args):
            out.append(DonationSite(ff.fi, c, j, c.args[j], r.describe() or txt(c.func)))
          elif r.kind == 'func':
            params = r.func.positional_params
            if i < len(params):
              for kw in c.keywords:
                if kw.arg == params[i]:
                  out.append(DonationSite(ff.fi, c, i, kw.value, r.describe()))
        if r.kind == 'func' and not nums:
          dp = self.donated_params(r.func)
          if dp:
            binding = call_args(c, r.func.positional_params, r.bound_args, r.bound_kwargs)
            for pname in dp:
              if pname in binding:
                idx = r.func.positional_params.index(pname)
                out.append(DonationSite(ff.fi, c, idx, binding[pname],
                                        f'{r.func.module.name}:{r.func.qualname} (donates {pname!r})'))
    return out

  def sites(self, fi: FuncInfo) -> List[DonationSite]:
    return self._sites(FuncFlow.of(self.repo, fi))

  def ownership(self, site: DonationSite) -> Set[str]:
    """Roots (parameters / captured names) whose buffers the donated value may
    share. Empty set = OWNED."""
    tags = self.buf.fn(site.fi).tags(site.arg)
    return {r for _, r in tags}

  def reads_after(self, site: DonationSite) -> List[Tuple[ast.AST, str]]:
    """Reads of the donated variable (or a plain copy) after the donation."""
    ff = FuncFlow.of(self.repo, site.fi)
    node = ff.node_of(site.call)
    out = []
    if node is None or not isinstance(site.arg, ast.Name):
      return out
    name = site.arg.id
    if not ff.is_local(site.arg):
      return out
    for n, x in ff.live_after(node, name):
      out.append((x, name))
    # reads in the same statement that are evaluated after the donating call (left-to-right; an inlined temporary keeps the
    # position of its original, earlier statement)
    if node.ast is not None:
      inside = {id(y) for y in ast.walk(site.call)}
      end = (getattr(site.call, 'end_lineno', 0) or 0, getattr(site.call, 'end_col_offset', 0) or 0)
      for y in node.walk():
        if isinstance(y, ast.Name) and y.id == name and isinstance(y.ctx, ast.Load) and id(y) not in inside and (y.lineno, y.col_offset) >= end:
          out.append((y, name))
    # plain copies  y = x  made before the donation, read after it
    donated_defs = ff.defs_for(site.arg)
    for nid, ds in ff.rd.defs_at.items():
      for d in ds:
        if d.kind == 'assign' and d.index is None and isinstance(d.value, ast.Name) and d.value.id == name and d.name != name:
          if ff.defs_for(d.value) & donated_defs:
            # is this copy still visible after the donation?
            for n2, x2 in ff.live_after(node, d.name):
              if d in ff.rd.reaching(n2, d.name):
                out.append((x2, d.name))
    return out
