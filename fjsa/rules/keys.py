"""R-KEY: PRNG keys are used linearly.

A *key identity* is either a version of a local name (its set of reaching
definitions) or an access path rooted at one (`state['rng']`, `agg.rng`,
`rngs[i]`). Identities are key-typed when they are operands or unpacked
results of jax.random.split / fold_in / PRNGKey, operands of jax.random
samplers or hk.PRNGSequence, parameters annotated PRNGKey, or plain copies of
those.

K-LINEAR  every load of a key identity is a *use* (split, consumption by a
          callee, or storage in a value); two uses of the same identity where
          the second is reachable from the first without the root name being
          rebound are a violation (includes a single use inside a loop or a
          comprehension/lambda whose key is defined outside of it).
K-CONST   no jax.random.PRNGKey(<literal>) inside round/step functions.
K-REPEAT  itertools.repeat(<key>) / [key] * n hand the same key to every element.
Paired uses (rotation + inverse rotation with one key) count as a single use.
"""
from __future__ import annotations

import ast
from dataclasses import dataclass
from typing import Dict, FrozenSet, List, Optional, Set, Tuple

from fjsa.cfg import Def, Node
from fjsa.flow import FuncFlow, call_args, txt, same
from fjsa.model import FuncInfo, Repo

SPLITTERS = {'jax.random.split', 'jax.random.fold_in'}
MAKERS = {'jax.random.PRNGKey', 'jax.random.key'}
SEQ = {'haiku.PRNGSequence'}
ROTATION_PAIR = {
    'fedjax.aggregators.walsh_hadamard:structured_rotation_pytree': 'rot',
    'fedjax.aggregators.walsh_hadamard:inverse_structured_rotation_pytree': 'inv',
    'fedjax.aggregators.walsh_hadamard:structured_rotation': 'rot',
    'fedjax.aggregators.walsh_hadamard:inverse_structured_rotation': 'inv',
}
# Frozen exceptions, one line of reason each (DESIGN.md appendix A.7).
LINEAR_EXCEPTIONS = {
    # function -> (reason, structural condition): every use of the doubly used key is a call of one and the same
    # captured gradient callable
    ('fedjax.algorithms.mime', 'create_train_for_each_client.client_step'):
        'control variate: both gradient evaluations must see identical randomness',
}
CAPTURED_KEY_EXCEPTIONS = {
    # function -> reason; condition: the captured key is consumed only by the rotation / inverse-rotation pair
    ('fedjax.aggregators.compression', 'rotated_uniform_stochastic_quantizer.apply.quantize_params_and_weight'):
        'shared public rotation for all clients of a round (algorithm definition)',
}


@dataclass
class Use:
  node: Node
  expr: ast.AST
  ident: tuple
  root: str
  kind: str  # split | consume | store | pair:rot | pair:inv
  call: Optional[ast.Call] = None
  inner: bool = False  # inside a lambda / comprehension (repeated evaluation)


@dataclass
class KeyIssue:
  fi: FuncInfo
  rule: str
  node: ast.AST
  construct: str
  detail: str


def _is_sampler(path: Optional[str]) -> bool:
  return bool(path) and path.startswith('jax.random.') and path not in SPLITTERS and path not in MAKERS and path not in (
      'jax.random.key_data', 'jax.random.wrap_key_data', 'jax.random.key_impl')


class KeyAnalysis:

  def __init__(self, repo: Repo):
    self.repo = repo
    self._typed: Dict[int, Set[str]] = {}

  # --- identity
  def ident(self, ff: FuncFlow, e: ast.AST) -> Optional[Tuple[tuple, str]]:
    """(identity, root name) for names and access paths; None otherwise."""
    path = []
    x = e
    index_names: List[ast.Name] = []
    while isinstance(x, (ast.Subscript, ast.Attribute)):
      if isinstance(x, ast.Subscript):
        path.append('[' + txt(x.slice) + ']')
        index_names += [n for n in ast.walk(x.slice) if isinstance(n, ast.Name)]
      else:
        path.append('.' + x.attr)
      x = x.value
    if not isinstance(x, ast.Name):
      return None
    if ff.is_local(x):
      ds = ff.defs_for(x)
      base = tuple(sorted(id(d) for d in ds))
    else:
      base = ('free', x.id)
    idx = tuple(sorted((n.id, tuple(sorted(id(d) for d in ff.defs_for(n)))) for n in index_names))
    return (base, ''.join(reversed(path)), idx), x.id

  # --- typing
  def typed_names(self, ff: FuncFlow) -> Tuple[Set[tuple], Set[str]]:
    """Key-typed identities and key-typed local names of a function."""
    idents: Set[tuple] = set()
    names: Set[str] = set()
    fi = ff.fi
    for p in fi.params:
      ann = fi.param_annotation(p)
      if ann is not None and txt(ann).split('.')[-1] == 'PRNGKey':
        names.add(p)
    def add_expr(e):
      r = self.ident(ff, e)
      if r is not None:
        idents.add(r[0])
        if isinstance(e, ast.Name):
          names.add(e.id)
    for _, c in ff.calls():
      p = ff.ext(c.func)
      if p in SPLITTERS or p in SEQ or _is_sampler(p):
        k = c.args[0] if c.args else next((kw.value for kw in c.keywords if kw.arg == 'key'), None)
        if k is not None:
          add_expr(k)
    # results of split / PRNGKey
    for nid, ds in ff.rd.defs_at.items():
      for d in ds:
        v = d.value
        if d.kind in ('assign',) and isinstance(v, ast.Call):
          p = ff.ext(v.func)
          if p in SPLITTERS or p in MAKERS:
            names.add(d.name)
        if d.kind == 'assign' and isinstance(v, ast.Name) and v.id in names:
          names.add(d.name)
    # second pass for copies
    changed = True
    while changed:
      changed = False
      for nid, ds in ff.rd.defs_at.items():
        for d in ds:
          if d.kind == 'assign' and isinstance(d.value, ast.Name) and d.value.id in names and d.name not in names:
            names.add(d.name)
            changed = True
    return idents, names

  def is_key_expr(self, ff: FuncFlow, e: ast.AST, idents: Set[tuple], names: Set[str]) -> bool:
    if isinstance(e, ast.Name):
      if e.id in names and ff.is_local(e):
        return True
    r = self.ident(ff, e)
    return r is not None and r[0] in idents

  # --- uses
  def uses(self, ff: FuncFlow) -> List[Use]:
    idents, names = self.typed_names(ff)
    out: List[Use] = []
    m = ff.module
    seen: Set[int] = set()
    for n in ff.cfg.nodes:
      if n.ast is None:
        continue
      for x in n.walk():
        if id(x) in seen:
          continue
        if not isinstance(x, (ast.Name, ast.Subscript, ast.Attribute)):
          continue
        if not isinstance(getattr(x, 'ctx', None), ast.Load):
          continue
        parent = m.parent_of.get(x)
        # only maximal access paths
        if isinstance(parent, (ast.Subscript, ast.Attribute)) and parent.value is x:
          if self.is_key_expr(ff, parent, idents, names) or not self.is_key_expr(ff, x, idents, names):
            continue
          # x is a key array and parent indexes it: the element is the use
          r = self.ident(ff, parent)
          if r is None:
            continue
          seen.add(id(x))
          out.append(self._mk_use(ff, n, parent, r, m))
          continue
        if not self.is_key_expr(ff, x, idents, names):
          continue
        r = self.ident(ff, x)
        if r is None:
          continue
        seen.add(id(x))
        out.append(self._mk_use(ff, n, x, r, m))
    return out

  def _mk_use(self, ff: FuncFlow, n: Node, x: ast.AST, r, m) -> Use:
    ident, root = r
    parent = m.parent_of.get(x)
    kind = 'store'
    call = None
    if isinstance(parent, ast.keyword):
      parent = m.parent_of.get(parent)
    if isinstance(parent, ast.Call) and x is not parent.func:
      call = parent
      p = ff.ext(parent.func)
      if p in SPLITTERS:
        kind = 'split'
      else:
        kind = 'consume'
        rr = ff.callee(parent)
        if rr.kind == 'func':
          key = f'{rr.func.module.name}:{rr.func.qualname}'
          if key in ROTATION_PAIR:
            kind = 'pair:' + ROTATION_PAIR[key]
        if p in ('builtins.len', 'builtins.isinstance', 'builtins.type', 'builtins.print', 'builtins.id'):
          kind = 'inspect'
    inner = ff.scope_at(x) is not ff.fi.scope
    return Use(n, x, ident, root, kind, call, inner)

  # --- rules
  def linear_issues(self, fi: FuncInfo) -> Tuple[List[KeyIssue], List[Use]]:
    ff = FuncFlow.of(self.repo, fi)
    uses = [u for u in self.uses(ff) if u.kind != 'inspect']
    issues: List[KeyIssue] = []
    # group by identity
    by: Dict[tuple, List[Use]] = {}
    for u in uses:
      by.setdefault(u.ident, []).append(u)
    for ident, us in by.items():
      root = us[0].root
      if (fi.module.name, fi.qualname) in LINEAR_EXCEPTIONS and self._same_captured_callee(ff, us):
        continue
      redefs = {nid for nid, ds in ff.rd.defs_at.items() if any(d.name == root for d in ds)}
      idx_names = {nm for nm, _ in ident[2]}
      idx_redefs = {nid for nid, ds in ff.rd.defs_at.items() if any(d.name in idx_names for d in ds)}
      flagged = False
      for i, a in enumerate(us):
        for j, b in enumerate(us):
          if flagged:
            break
          if i == j:
            # repeated evaluation of a single use
            if a.inner and ff.is_local(self._root_name_node(a.expr)) and not self._inner_binds_root(ff, a):
              if ident[2] and self._index_varies_inner(ff, a):
                continue
              issues.append(KeyIssue(fi, 'K-LINEAR', a.expr, txt(a.expr),
                                     f'key {txt(a.expr)} defined outside a comprehension/lambda is used for every '
                                     f'element inside it ({a.kind})'))
              flagged = True
              continue
            if a.node.id in redefs or a.node.id in idx_redefs:
              continue  # the statement itself re-derives the key (x, k = f(k))
            if self._reaches(ff, a.node, a.node, redefs | idx_redefs):
              issues.append(KeyIssue(fi, 'K-LINEAR', a.expr, txt(a.expr),
                                     f'key {txt(a.expr)} is used ({a.kind}) in a loop without being re-derived: '
                                     f'every iteration sees the same key'))
              flagged = True
            continue
          if j < i:
            continue
          if {a.kind, b.kind} == {'pair:rot', 'pair:inv'}:
            continue
          same_node = a.node is b.node
          if same_node or self._reaches(ff, a.node, b.node, redefs) or self._reaches(ff, b.node, a.node, redefs):
            first, second = (a, b)
            issues.append(KeyIssue(fi, 'K-LINEAR', second.expr, txt(second.expr),
                                   f'key {txt(a.expr)} is used twice without re-splitting: {first.kind} at line '
                                   f'{getattr(first.expr, "lineno", 0)} and {second.kind} at line '
                                   f'{getattr(second.expr, "lineno", 0)}'))
            flagged = True
    return issues, uses

  def _same_captured_callee(self, ff: FuncFlow, us: List[Use]) -> bool:
    """All uses are consumptions by calls of one captured (free-variable) callable."""
    names = set()
    for u in us:
      if u.kind != 'consume' or u.call is None or not isinstance(u.call.func, ast.Name) or ff.is_local(u.call.func):
        return False
      names.add(u.call.func.id)
    return len(names) == 1

  def _root_name_node(self, e: ast.AST) -> ast.Name:
    x = e
    while isinstance(x, (ast.Subscript, ast.Attribute)):
      x = x.value
    return x

  def _inner_binds_root(self, ff: FuncFlow, u: Use) -> bool:
    """The root is bound by the inner scope itself (comp variable / lambda param)."""
    x = self._root_name_node(u.expr)
    sc = ff.scope_at(x)
    b = sc.lookup_scope(x.id)
    return b is not None and b is not ff.fi.scope

  def _index_varies_inner(self, ff: FuncFlow, u: Use) -> bool:
    for n in ast.walk(u.expr):
      if isinstance(n, ast.Name) and n is not self._root_name_node(u.expr):
        sc = ff.scope_at(n)
        b = sc.lookup_scope(n.id)
        if b is not None and b is not ff.fi.scope and b.kind in ('comp', 'lambda'):
          return True
    return False

  def _reaches(self, ff: FuncFlow, a: Node, b: Node, avoid: Set[int]) -> bool:
    starts = [s for s, lab in a.succ]
    seen: Set[int] = set()
    stack = [s for s in starts]
    while stack:
      n = stack.pop()
      if n.id in seen:
        continue
      seen.add(n.id)
      if n is b:
        return True
      if n.id in avoid:
        continue
      stack.extend(s for s, _ in n.succ)
    return False

  def const_key_issues(self, fi: FuncInfo) -> List[KeyIssue]:
    ff = FuncFlow.of(self.repo, fi)
    out = []
    for _, c in ff.calls():
      p = ff.ext(c.func)
      if p in MAKERS and c.args and isinstance(c.args[0], ast.Constant):
        out.append(KeyIssue(fi, 'K-CONST', c, txt(c), 'a literal-seeded key inside a round/step function yields the '
                            'same randomness on every call'))
      if p == 'itertools.repeat' and c.args:
        idents, names = self.typed_names(ff)
        if self.is_key_expr(ff, c.args[0], idents, names) or self._captured_key(ff, c.args[0]):
          out.append(KeyIssue(fi, 'K-REPEAT', c, txt(c), 'the same key is handed to every element'))
    return out

  def _captured_key(self, ff: FuncFlow, e: ast.AST) -> bool:
    return isinstance(e, ast.Name) and not ff.is_local(e) and e.id in self.enclosing_key_names(ff.fi)

  def enclosing_key_names(self, fi: FuncInfo) -> Set[str]:
    out: Set[str] = set()
    s = fi.scope.parent
    while s is not None:
      if s.kind == 'function':
        outer = s.module.funcs_by_node[s.node]
        _, names = self.typed_names(FuncFlow.of(self.repo, outer))
        out |= names
      s = s.parent
    return out

  def captured_key_issues(self, fi: FuncInfo) -> List[KeyIssue]:
    """A nested function that consumes a key captured from its enclosing
    function sees the same key on every call."""
    ff = FuncFlow.of(self.repo, fi)
    outer_names = self.enclosing_key_names(fi)
    out = []
    if not outer_names:
      return out
    m = ff.module
    seen = set()
    for n in ff.cfg.nodes:
      if n.ast is None:
        continue
      for x in n.walk():
        if isinstance(x, ast.Name) and isinstance(x.ctx, ast.Load) and x.id in outer_names and id(x) not in seen:
          seen.add(id(x))
          sc = ff.scope_at(x)
          b = sc.lookup_scope(x.id)
          if b is None or b is ff.fi.scope or b.kind != 'function':
            continue
          if sc.lookup_scope(x.id) is not b:
            continue
          # is it shadowed by an own parameter/local? (lookup_scope says no)
          parent = m.parent_of.get(x)
          if isinstance(parent, ast.keyword):
            parent = m.parent_of.get(parent)
          if (fi.module.name, fi.qualname) in CAPTURED_KEY_EXCEPTIONS and isinstance(parent, ast.Call):
            rr = ff.callee(parent)
            if rr.kind == 'func' and f'{rr.func.module.name}:{rr.func.qualname}' in ROTATION_PAIR:
              continue
          if isinstance(parent, ast.Call) and x is not parent.func:
            out.append(KeyIssue(fi, 'K-CAPTURED', x, f'{x.id} in {txt(parent)[:60]}',
                                f'key {x.id!r} captured from the enclosing function is consumed inside '
                                f'{fi.qualname}, which runs once per client/step: all of them see the same key'))
    return out


def check_function(check, ka: KeyAnalysis, fi: FuncInfo, rule_prefix: str = 'R-KEY', step_like: bool = True,
                   advisory: bool = False) -> int:
  """Runs the key rules on one function; returns number of key uses seen."""
  issues, uses = ka.linear_issues(fi)
  if step_like:
    issues += ka.const_key_issues(fi)
    issues += ka.captured_key_issues(fi)
  by_expr = {}
  for u in uses:
    by_expr.setdefault(txt(u.expr), []).append(u.kind)
  if issues:
    for it in issues:
      check.ob(f'{rule_prefix}.{it.rule}', fi, it.construct, False, it.detail, node=it.node, advisory=advisory, exact=True)
  elif uses:
    check.ob(f'{rule_prefix}.K-LINEAR', fi, '; '.join(f'{k}:{"/".join(v)}' for k, v in sorted(by_expr.items())), True,
             f'{len(uses)} key uses, each identity used once per path')
  return len(uses)


def check_aggregator_state_keys(check, repo: Repo, aggs, rule: str = 'R-KEY.K3'):
  """The rng field of the next aggregator state is a split output of the
  previous state's rng and is used nowhere else."""
  ka = KeyAnalysis(repo)
  n = 0
  for a in aggs:
    fi = a.apply
    ff = FuncFlow.of(repo, fi)
    state_param = fi.positional_params[1] if len(fi.positional_params) > 1 else None
    # constructor calls of a state class with an `rng` field in the return value
    for _, rv in ff.returns():
      if not isinstance(rv, ast.Tuple) or len(rv.elts) != 2:
        continue
      for s in ff.expand(rv.elts[1]):
        if not isinstance(s, ast.Call):
          if state_param is not None and ff.param_of(s) == state_param:
            # state returned unchanged: fine only for a state without a key
            continue
          continue
        if isinstance(s.func, ast.Attribute) and s.func.attr == 'replace' and ff.param_of(s.func.value) == state_param:
          kw = {k.arg: k.value for k in s.keywords}
          n += 1
          if 'rng' not in kw:
            check.ob(rule, fi, f'{txt(s)[:60]}', False,
                     'the next state is the previous one with only some fields replaced: the previous random key is carried over, '
                     'so every round quantizes with the same randomness', node=s)
          else:
            ok, why = _is_split_descendant(ff, kw['rng'], state_param, 'rng')
            check.ob(rule, fi, f'replace(rng={txt(kw["rng"])})', ok, why, node=s)
          continue
        r = ff.callee(s)
        if r.kind != 'class':
          continue
        fields = [f for f, _, _ in r.cls.fields]
        if 'rng' not in fields:
          continue
        b = call_args(s, fields)
        k = b.get('rng')
        if k is None:
          continue
        n += 1
        ok, why = _is_split_descendant(ff, k, state_param, 'rng')
        check.ob(rule, fi, f'{r.cls.name}(rng={txt(k)})', ok, why, node=s)
    issues, uses = ka.linear_issues(fi)
    for it in issues:
      check.ob(rule + '.linear', fi, it.construct, False, it.detail, node=it.node, exact=True)
    if not issues and uses:
      check.ob(rule + '.linear', fi, f'{len(uses)} key uses in {fi.qualname}', True,
               'every key identity is split/consumed/stored at most once per path')
  check.floor(rule, 'stateful aggregator states with rng', n, 4)


def _is_split_descendant(ff: FuncFlow, e: ast.AST, state_param: Optional[str], field: str, depth: int = 6):
  """e is an unpacked output of split(...split(<state>.rng))."""
  if depth == 0:
    return False, 'split chain too deep'
  if not isinstance(e, ast.Name):
    return False, f'{txt(e)} is not a split output (the previous key would be carried over)'
  ds = ff.defs_for(e)
  if not ds:
    return False, f'{txt(e)} is not a local split output'
  for d in ds:
    v = d.value
    if not (d.kind == 'assign' and isinstance(v, ast.Call) and ff.ext(v.func) in SPLITTERS and v.args):
      return False, f'{e.id} is defined by {txt(v) if v is not None else d.kind}, not by a split'
    src = v.args[0]
    if isinstance(src, ast.Attribute) and src.attr == field and isinstance(src.value, ast.Name) and src.value.id == state_param:
      continue
    ok, why = _is_split_descendant(ff, src, state_param, field, depth - 1)
    if not ok:
      return False, why
  return True, f'{e.id} is an output of a split chain rooted at {state_param}.{field}'
