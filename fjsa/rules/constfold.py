"""R-CONST: a small constant folder over repository source.

Evaluates integer arithmetic, len() of literals, tuple/list literals, names
bound to such values (module level, class level, function locals and
parameter defaults), and calls of repo functions whose bodies consist only of
those (e.g. shakespeare._build_look_up_table) - from *source*, without
importing the module.
"""
from __future__ import annotations

import ast
import operator
from typing import Any, Dict, Optional

from fjsa.flow import txt
from fjsa.model import FuncInfo, Module, Repo, Scope


class Unknown:

  def __repr__(self):
    return 'UNKNOWN'


UNKNOWN = Unknown()

BINOPS = {ast.Add: operator.add, ast.Sub: operator.sub, ast.Mult: operator.mul, ast.FloorDiv: operator.floordiv,
          ast.Mod: operator.mod, ast.Pow: operator.pow, ast.LShift: operator.lshift}


class ConstFolder:

  def __init__(self, repo: Repo):
    self.repo = repo

  def eval(self, scope: Scope, e: ast.AST, env: Optional[Dict[str, Any]] = None, depth: int = 0) -> Any:
    env = env or {}
    if depth > 12:
      return UNKNOWN
    if isinstance(e, ast.Constant):
      return e.value
    if isinstance(e, ast.UnaryOp) and isinstance(e.op, ast.USub):
      v = self.eval(scope, e.operand, env, depth + 1)
      return -v if isinstance(v, (int, float)) else UNKNOWN
    if isinstance(e, ast.BinOp) and type(e.op) in BINOPS:
      l, r = self.eval(scope, e.left, env, depth + 1), self.eval(scope, e.right, env, depth + 1)
      if isinstance(l, Unknown) or isinstance(r, Unknown):
        return UNKNOWN
      try:
        return BINOPS[type(e.op)](l, r)
      except Exception:  # pylint: disable=broad-except
        return UNKNOWN
    if isinstance(e, (ast.Tuple, ast.List)):
      vals = [self.eval(scope, x, env, depth + 1) for x in e.elts]
      return tuple(vals)
    if isinstance(e, ast.Name):
      if e.id in env:
        return env[e.id]
      return self._name(scope, e, depth, env)
    if isinstance(e, ast.Attribute):
      r = self.repo.resolve(scope, e)
      if r.kind == 'local' and len(r.bindings) == 1 and r.bindings[0].value is not None and r.scope is not None:
        b = r.bindings[0]
        v = self.eval(r.scope, b.value, {}, depth + 1)
        if b.index:
          return self._index(v, b.index)
        return v
      # class attribute: Cls.CONST / self.CONST
      base = self.repo.resolve(scope, e.value)
      ci = None
      if base.kind == 'class':
        ci = base.cls
      elif base.kind == 'param' and base.name == 'self' and base.scope is not None and base.scope.parent is not None and base.scope.parent.kind == 'class':
        ci = base.scope.module.classes_by_node.get(base.scope.parent.node)
      if ci is not None:
        return self.class_const(ci, e.attr, depth)
      return UNKNOWN
    if isinstance(e, ast.Call):
      f = self.repo.resolve(scope, e.func)
      if f.kind == 'ext' and f.path == 'builtins.len' and e.args:
        v = self.eval(scope, e.args[0], env, depth + 1)
        return len(v) if isinstance(v, (bytes, str, tuple, list)) else UNKNOWN
      if f.kind == 'ext' and f.path in ('builtins.int', 'builtins.float') and e.args:
        v = self.eval(scope, e.args[0], env, depth + 1)
        return v if not isinstance(v, Unknown) else UNKNOWN
      if f.kind == 'func':
        args = {}
        params = f.func.positional_params
        for p, a in zip(params, e.args):
          args[p] = self.eval(scope, a, env, depth + 1)
        for k in e.keywords:
          if k.arg:
            args[k.arg] = self.eval(scope, k.value, env, depth + 1)
        return self.eval_function(f.func, args, depth + 1)
      return UNKNOWN
    if isinstance(e, ast.Subscript):
      v = self.eval(scope, e.value, env, depth + 1)
      i = self.eval(scope, e.slice, env, depth + 1)
      if isinstance(v, (tuple, list, bytes, str)) and isinstance(i, int):
        try:
          return v[i]
        except IndexError:
          return UNKNOWN
      return UNKNOWN
    return UNKNOWN

  def _index(self, v, index):
    for i in index:
      if isinstance(v, (tuple, list)) and -len(v) <= i < len(v):
        v = v[i]
      else:
        return UNKNOWN
    return v

  def _name(self, scope: Scope, e: ast.Name, depth: int, env: Optional[Dict[str, Any]] = None):
    sc = scope.lookup_scope(e.id)
    if sc is None:
      return UNKNOWN
    bs = [b for b in sc.bindings.get(e.id, []) if b.kind != 'del']
    if len(bs) != 1:
      return UNKNOWN
    b = bs[0]
    if b.kind == 'param' and sc.kind == 'function':
      owner = sc.module.funcs_by_node[sc.node]
      d = owner.param_default(e.id)
      if d is not None:
        return self.eval(sc.parent, d, {}, depth + 1)
      return UNKNOWN
    if b.kind == 'assign' and b.value is not None:
      # parameter overrides (env) stay visible while folding other locals of the same function
      v = self.eval(sc, b.value, dict(env) if (env and sc.kind == 'function') else {}, depth + 1)
      if b.index:
        return self._index(v, b.index)
      return v
    if b.kind == 'import-symbol':
      r = self.repo.resolve(scope, e)
      if r.kind == 'local' and len(r.bindings) == 1 and r.bindings[0].value is not None:
        return self.eval(r.scope, r.bindings[0].value, {}, depth + 1)
    return UNKNOWN

  def class_const(self, ci, name: str, depth: int = 0):
    for st in ci.node.body:
      if isinstance(st, ast.Assign) and len(st.targets) == 1 and isinstance(st.targets[0], ast.Name) and st.targets[0].id == name:
        return self.eval(ci.scope, st.value, {}, depth + 1)
    for b in self.repo.class_bases(ci):
      if b.kind == 'class':
        v = self.class_const(b.cls, name, depth + 1)
        if not isinstance(v, Unknown):
          return v
    return UNKNOWN

  def eval_function(self, fi: FuncInfo, args: Dict[str, Any], depth: int = 0):
    """Straight-line interpretation; loops/other statements invalidate the names they bind."""
    env: Dict[str, Any] = {}
    for p in fi.positional_params:
      if p in args:
        env[p] = args[p]
      else:
        d = fi.param_default(p)
        env[p] = self.eval(fi.scope.parent, d, {}, depth + 1) if d is not None else UNKNOWN
    for st in fi.node.body:
      if isinstance(st, ast.Expr):
        continue
      if isinstance(st, ast.Assign) and len(st.targets) == 1 and isinstance(st.targets[0], ast.Name):
        env[st.targets[0].id] = self.eval(fi.scope, st.value, env, depth + 1)
        continue
      if isinstance(st, ast.Return):
        return self.eval(fi.scope, st.value, env, depth + 1) if st.value is not None else None
      # anything else: invalidate names it may bind
      for x in ast.walk(st):
        if isinstance(x, ast.Name) and isinstance(x.ctx, ast.Store):
          env[x.id] = UNKNOWN
    return UNKNOWN

  def locals_of(self, fi: FuncInfo, overrides: Optional[Dict[str, Any]] = None) -> Dict[str, Any]:
    """Top-level straight-line constants of a function body (defaults for parameters)."""
    env: Dict[str, Any] = {}
    for p in fi.params:
      d = fi.param_default(p)
      env[p] = self.eval(fi.scope.parent, d, {}) if d is not None else UNKNOWN
    env.update(overrides or {})
    for st in fi.node.body:
      if isinstance(st, ast.Assign) and len(st.targets) == 1 and isinstance(st.targets[0], ast.Name):
        v = self.eval(fi.scope, st.value, env)
        name = st.targets[0].id
        if name in env and not isinstance(env[name], Unknown) and isinstance(v, Unknown):
          continue
        env.setdefault(name, v) if isinstance(v, Unknown) else env.__setitem__(name, v)
    return env
