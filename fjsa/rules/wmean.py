"""R-WMEAN: the aggregation is a zero-guarded weighted mean with paired weights.

Recognised idioms for the value that reaches the server optimizer (or that an
aggregator returns):
  (i)   loop accumulators   S = zeros; W = 0
                            for id, out in for_each_client(...):
                              S = tree_add(S, tree_weight(x, w)); W += w
                            tree_inverse_weight(S, W)
        (+ indexed variant S[c], W[c] for HypCluster)
  (ii)  tree_mean(pairs)    pairs built element-wise as (f(x), w), w unchanged
  (iii) pair sum            num, den = tree_sum(outputs); tree_inverse_weight(num, den)
A recognised idiom with a broken side condition is a VIOLATION; a form that is
not recognised at all is INCONCLUSIVE (exit 2).
"""
from __future__ import annotations

import ast
from dataclasses import dataclass, field
from typing import Dict, List, Optional, Tuple

from fjsa.cfg import Def, Node
from fjsa.flow import FuncFlow, call_args, same, txt
from fjsa.model import FuncInfo, Repo
from fjsa.rules.atomic import same_value

TU = 'fedjax.core.tree_util'
ZEROS = {f'{TU}:tree_zeros_like'}
ADD = {f'{TU}:tree_add'}
WEIGHT = {f'{TU}:tree_weight'}
INV = {f'{TU}:tree_inverse_weight', f'{TU}:_tree_inverse_weight_eq'}
MEAN = {f'{TU}:tree_mean'}
SUM = {f'{TU}:tree_sum'}
CLIP = {f'{TU}:tree_clip_by_global_norm'}
TREE_MAPS = {'jax.tree_util.tree_map', 'jax.tree.map', 'jax.tree_map'}
ZERO_LEAF = {'jax.numpy.zeros_like', 'numpy.zeros_like'}


def repo_fn(ff: FuncFlow, call: ast.AST) -> Optional[str]:
  if not isinstance(call, ast.Call):
    return None
  r = ff.callee(call)
  if r.kind == 'func':
    return f'{r.func.module.name}:{r.func.qualname}'
  return None


def is_zeros(ff: FuncFlow, e: ast.AST) -> bool:
  if not isinstance(e, ast.Call):
    return False
  if repo_fn(ff, e) in ZEROS:
    return True
  if ff.ext(e.func) in TREE_MAPS and e.args:
    return ff.ext(e.args[0]) in ZERO_LEAF
  return False


def is_zero_const(e: ast.AST) -> bool:
  return isinstance(e, ast.Constant) and isinstance(e.value, (int, float)) and not isinstance(e.value, bool) and e.value == 0


@dataclass
class LoopMean:
  inv_call: ast.Call
  loop: Optional[ast.For] = None
  S: Optional[ast.AST] = None
  W: Optional[ast.AST] = None
  x: Optional[ast.AST] = None  # tree that is weighted
  w_sum: Optional[ast.AST] = None  # weight inside tree_weight
  w_cnt: Optional[ast.AST] = None  # weight added to W
  index: Optional[ast.AST] = None  # S[index] for the indexed variant
  problems: List[Tuple[str, str, ast.AST]] = field(default_factory=list)  # (kind, text, node)
  unrecognised: Optional[str] = None
  facts: List[str] = field(default_factory=list)


def _acc_target_key(t: ast.AST) -> Optional[Tuple[str, Optional[ast.AST]]]:
  if isinstance(t, ast.Name):
    return t.id, None
  if isinstance(t, ast.Subscript) and isinstance(t.value, ast.Name):
    return t.value.id, t.slice
  return None


def _stores_to(ff: FuncFlow, name: str) -> List[Tuple[Node, ast.AST, ast.AST, Optional[ast.AST], str]]:
  """All stores `name = v`, `name[i] = v`, `name += v`, `name[i] += v`:
  (node, stmt, value, index, kind)."""
  out = []
  seen = set()
  for n in ff.cfg.nodes:
    a = n.ast
    if n.kind != 'stmt' or a is None or id(a) in seen:
      continue
    if isinstance(a, ast.Assign):
      for t in a.targets:
        k = _acc_target_key(t)
        if k and k[0] == name:
          seen.add(id(a))
          out.append((n, a, a.value, k[1], 'assign'))
    elif isinstance(a, ast.AugAssign):
      k = _acc_target_key(a.target)
      if k and k[0] == name:
        seen.add(id(a))
        out.append((n, a, a.value, k[1], 'aug:' + type(a.op).__name__))
  return out


def _loop_of(ff: FuncFlow, node: ast.AST) -> Optional[ast.For]:
  m = ff.module
  child = node
  n = m.parent_of.get(node)
  while n is not None and n is not ff.fi.node:
    if isinstance(n, ast.While):
      return n
    if isinstance(n, ast.For):
      # the iterable (and the target) of a for statement is evaluated once, outside the repetition
      if not (child is n.iter or child is n.target):
        return n
    child, n = n, m.parent_of.get(n)
  return None


def analyse_loop_mean(ff: FuncFlow, inv_call: ast.Call) -> LoopMean:
  """Recognises idiom (i) around `tree_inverse_weight(S, W)`."""
  lm = LoopMean(inv_call)
  if len(inv_call.args) < 2:
    lm.unrecognised = 'tree_inverse_weight call without two positional arguments'
    return lm
  S, W = inv_call.args[0], inv_call.args[1]
  lm.S, lm.W = S, W
  sk = _acc_target_key(S) if isinstance(S, (ast.Name, ast.Subscript)) else None
  if sk is None:
    lm.unrecognised = f'sum operand {txt(S)} is not an accumulator variable'
    return lm
  sname = sk[0]
  # If S is a loop variable over zip(list_S, list_W) (HypCluster finalisation), follow to the lists.
  if isinstance(S, ast.Name) and isinstance(W, ast.Name):
    ds, dw = ff.defs_for(S), ff.defs_for(W)
    if len(ds) == 1 and len(dw) == 1:
      d1, d2 = next(iter(ds)), next(iter(dw))
      if d1.kind == 'for' and d2.kind == 'for' and d1.node is d2.node and isinstance(d1.value, ast.Call) and ff.ext(
          d1.value.func) == 'builtins.zip' and len(d1.value.args) == 2 and d1.index and d2.index:
        z = d1.value
        a0, a1 = z.args[d1.index[0]], z.args[d2.index[0]]
        if isinstance(a0, ast.Name) and isinstance(a1, ast.Name):
          lm.facts.append(f'per-cluster finalisation over zip({a0.id}, {a1.id})')
          return _analyse_acc(ff, lm, a0.id, a1.id, indexed=True)
  if not isinstance(W, (ast.Name, ast.Subscript)):
    if isinstance(W, ast.Call) and ff.ext(W.func) == 'builtins.len':
      lm.problems.append(('normaliser', f'normaliser {txt(W)} counts clients instead of summing their weights', W))
      return lm
    if isinstance(W, ast.Constant):
      lm.problems.append(('normaliser', f'normaliser is the constant {txt(W)}', W))
      return lm
    # total taken from a dict keyed by client id (sum(d.values())) while the weighted sum adds up every occurrence delivered by the
    # stream: a client id that occurs twice in the cohort is counted once in the total
    for w in ff.deep_walk(W):
      if isinstance(w, ast.Call) and isinstance(w.func, ast.Attribute) and w.func.attr == 'values' and isinstance(w.func.value, ast.Name):
        if any(isinstance(v, (ast.DictComp, ast.Dict)) or (isinstance(v, ast.Call) and ff.ext(v.func) == 'builtins.dict') for v in ff.expand(w.func.value)):
          lm.problems.append(('normaliser', f'normaliser {txt(W)[:60]} sums a dict keyed by client id (each id once) while the weighted sum '
                              'adds every occurrence in the stream: the two disagree as soon as an id occurs twice', W))
          return lm
    lm.unrecognised = f'normaliser {txt(W)} is not an accumulator variable'
    return lm
  wk = _acc_target_key(W)
  return _analyse_acc(ff, lm, sname, wk[0], indexed=sk[1] is not None)


def _analyse_acc(ff: FuncFlow, lm: LoopMean, sname: str, wname: str, indexed: bool) -> LoopMean:
  s_stores = _stores_to(ff, sname)
  w_stores = _stores_to(ff, wname)
  s_init = [s for s in s_stores if _loop_of(ff, s[1]) is None or not _reads_name(s[2], sname)]
  s_acc = [s for s in s_stores if _reads_name(s[2], sname) or s[4].startswith('aug')]
  w_init = [s for s in w_stores if not s[4].startswith('aug') and not _reads_name(s[2], wname)]
  w_acc = [s for s in w_stores if s[4].startswith('aug') or _reads_name(s[2], wname)]
  if not s_acc:
    lm.unrecognised = f'{sname} is never accumulated'
    return lm
  if not w_acc:
    # W never accumulated: e.g. W = len(clients)
    vals = [txt(s[2]) for s in w_stores]
    if w_stores and all(isinstance(s[2], (ast.Constant, ast.Call)) for s in w_stores):
      lm.problems.append(('normaliser', f'{wname} is not the running sum of the weights (defined as {vals})',
                          w_stores[0][1]))
      return lm
    lm.unrecognised = f'{wname} is never accumulated'
    return lm
  # initial values
  for n, st, v, idx, kind in s_init:
    ok = is_zeros(ff, v) or (indexed and isinstance(v, (ast.ListComp, ast.List)) and (
        all(is_zeros(ff, e) for e in ([v.elt] if isinstance(v, ast.ListComp) else v.elts))))
    if not ok:
      lm.problems.append(('init', f'{sname} starts from {txt(v)[:60]}, not from zeros', st))
  for n, st, v, idx, kind in w_init:
    ok = is_zero_const(v) or (indexed and isinstance(v, (ast.ListComp, ast.List)) and all(
        is_zero_const(e) for e in ([v.elt] if isinstance(v, ast.ListComp) else v.elts)))
    if not ok:
      lm.problems.append(('init', f'{wname} starts from {txt(v)[:40]}, not from 0', st))
  if not s_init:
    lm.problems.append(('init', f'{sname} has no zero initialisation', s_acc[0][1]))
  if not w_init:
    lm.problems.append(('init', f'{wname} has no zero initialisation', w_acc[0][1]))
  if len(s_acc) != 1 or len(w_acc) != 1:
    lm.unrecognised = f'{len(s_acc)} accumulation statements for {sname}, {len(w_acc)} for {wname}'
    return lm
  sn, sst, sv, sidx, skind = s_acc[0]
  wn, wst, wv, widx, wkind = w_acc[0]
  loop_s, loop_w = _loop_of(ff, sst), _loop_of(ff, wst)
  if loop_s is None or loop_s is not loop_w:
    lm.problems.append(('pairing', f'{sname} and {wname} are not accumulated in the same loop', wst))
    return lm
  lm.loop = loop_s
  # shape of S update: tree_add(S, tree_weight(x, w)) in either order
  x = w1 = None
  if isinstance(sv, ast.Call) and repo_fn(ff, sv) in ADD and len(sv.args) == 2:
    a, b = sv.args
    for prev, term in ((a, b), (b, a)):
      if _is_acc_ref(prev, sname, sidx) and isinstance(term, ast.Call) and repo_fn(ff, term) in WEIGHT and len(term.args) >= 2:
        x, w1 = term.args[0], term.args[1]
    if x is None:
      for prev, term in ((a, b), (b, a)):
        if _is_acc_ref(prev, sname, sidx):
          lm.problems.append(('weighting', f'term added to {sname} is {txt(term)[:60]}: not weighted by tree_weight(x, w)', sst))
          return lm
  if x is None:
    lm.unrecognised = f'update of {sname} is {txt(sv)[:70]}, not tree_add({sname}, tree_weight(x, w))'
    return lm
  # shape of W update
  w2 = None
  if wkind == 'aug:Add':
    w2 = wv
  elif wkind == 'assign' and isinstance(wv, ast.BinOp) and isinstance(wv.op, ast.Add):
    if _is_acc_ref(wv.left, wname, widx):
      w2 = wv.right
    elif _is_acc_ref(wv.right, wname, widx):
      w2 = wv.left
  if w2 is None:
    lm.unrecognised = f'update of {wname} is {txt(wst)[:60]}, not {wname} += w'
    return lm
  lm.x, lm.w_sum, lm.w_cnt = x, w1, w2
  if indexed:
    if sidx is None or widx is None or not same(sidx, widx):
      lm.problems.append(('pairing', f'{sname}[{txt(sidx) if sidx else ""}] and {wname}[{txt(widx) if widx else ""}] '
                          f'are updated under different indices', wst))
    lm.index = sidx
  # same weight in both places
  if not same_value(ff, w1, w2):
    lm.problems.append(('pairing', f'tree is weighted by {txt(w1)} but the normaliser adds {txt(w2)}', wst))
  # both updates on every iteration (a path may skip both only when the weight is zero)
  skip_s = not _on_every_iteration(ff, loop_s, sn)
  skip_w = not _on_every_iteration(ff, loop_s, wn)
  if skip_s or skip_w:
    ok_skip = skip_s and skip_w and _skips_only_zero_weight(ff, loop_s, [sst, wst], w2)
    if not ok_skip:
      which = sname if skip_s and not skip_w else wname if skip_w and not skip_s else f'{sname} and {wname}'
      lm.problems.append(('every-path', f'update of {which} is skipped on some path of the loop body '
                          f'(a client is dropped from the mean or sum and normaliser get out of step)', sst))
  lm.facts.append(f'{sname} += tree_weight({txt(x)}, {txt(w1)}); {wname} += {txt(w2)} in loop over {txt(loop_s.iter)[:50]}')
  return lm


def _reads_name(e: ast.AST, name: str) -> bool:
  return any(isinstance(x, ast.Name) and x.id == name for x in ast.walk(e))


def _is_acc_ref(e: ast.AST, name: str, idx: Optional[ast.AST]) -> bool:
  if idx is None:
    return isinstance(e, ast.Name) and e.id == name
  return isinstance(e, ast.Subscript) and isinstance(e.value, ast.Name) and e.value.id == name and same(e.slice, idx)


def _on_every_iteration(ff: FuncFlow, loop: ast.AST, node: Node) -> bool:
  """Every path from the loop's bind node back to its header passes `node`."""
  heads = [n for n in ff.cfg.nodes if n.kind in ('for', 'while') and n.ast is loop]
  binds = [n for n in ff.cfg.nodes if n.kind == 'for-bind' and n.ast is loop]
  if not heads:
    return False
  head = heads[0]
  starts = binds or [s for s, lab in head.succ if lab == 'true']
  reach = ff.cfg.reachable_from(starts, avoid={node.id}, labels_excluded=('exc', 'raise', 'reraise'))
  return head.id not in reach and ff.cfg.exit.id not in reach


def _zero_test(ff: FuncFlow, test: ast.AST, w: ast.AST) -> Optional[bool]:
  """True if `test` holds exactly when w is non-zero/positive, False if it
  holds exactly when w is zero; None if it is another condition."""
  if isinstance(test, ast.UnaryOp) and isinstance(test.op, ast.Not):
    r = _zero_test(ff, test.operand, w)
    return None if r is None else (not r)
  if same(test, w):
    return True
  if isinstance(test, ast.Compare) and len(test.ops) == 1:
    l, op, r = test.left, test.ops[0], test.comparators[0]
    if same(l, w) and is_zero_const(r):
      if isinstance(op, (ast.Gt, ast.NotEq)):
        return True
      if isinstance(op, (ast.Eq, ast.LtE)):
        return False
    if same(r, w) and is_zero_const(l):
      if isinstance(op, (ast.Lt, ast.NotEq)):
        return True
      if isinstance(op, (ast.Eq, ast.GtE)):
        return False
  return None


def _skips_only_zero_weight(ff: FuncFlow, loop: ast.AST, stmts: List[ast.stmt], w: ast.AST) -> bool:
  """Every way around the accumulation statements is a branch taken only
  when the weight is zero."""
  m = ff.module
  # (a) enclosing ifs of the accumulation statements
  for st in stmts:
    child, n = st, m.parent_of.get(st)
    while n is not None and n is not loop:
      if isinstance(n, ast.If):
        z = _zero_test(ff, n.test, w)
        in_body = any(child is x for x in n.body)
        if z is None or (in_body and z is not True) or ((not in_body) and z is not False):
          return False
      elif isinstance(n, (ast.For, ast.While, ast.Try, ast.With)):
        return False
      child, n = n, m.parent_of.get(n)
  # (b) continue / break statements in the loop body
  for x in ast.walk(loop):
    if isinstance(x, (ast.Continue, ast.Break)) and _loop_of(ff, x) is loop:
      if isinstance(x, ast.Break):
        return False
      child, n = x, m.parent_of.get(x)
      guarded = False
      while n is not None and n is not loop:
        if isinstance(n, ast.If):
          z = _zero_test(ff, n.test, w)
          in_body = any(child is y for y in n.body)
          if (in_body and z is False) or ((not in_body) and z is True):
            guarded = True
          else:
            return False
        child, n = n, m.parent_of.get(n)
      if not guarded:
        return False
  return True


# ---------------------------------------------------------------- provenance of x and w
def loop_targets(loop: ast.For) -> List[ast.AST]:
  t = loop.target
  return list(t.elts) if isinstance(t, (ast.Tuple, ast.List)) else [t]


def derives_from_loop_elem(ff: FuncFlow, e: ast.AST, loop: ast.For, elem: int, allow_clip: bool = True) -> Tuple[bool, str]:
  """e is loop target #elem, a field of it, or tree_clip_by_global_norm of it."""
  tg = loop_targets(loop)
  if elem >= len(tg) or not isinstance(tg[elem], ast.Name):
    return False, 'loop target is not a tuple of names'
  tname = tg[elem].id
  seen = set()
  work = [e]
  via = []
  while work:
    cur = work.pop()
    if id(cur) in seen:
      continue
    seen.add(id(cur))
    if isinstance(cur, ast.Name):
      if cur.id == tname:
        ds = ff.defs_for(cur)
        if any(d.kind == 'for' and d.node.ast is loop for d in ds):
          if all(d.kind == 'for' and d.node.ast is loop for d in ds):
            continue
          # some definitions come from elsewhere (e.g. clipped in a branch): check them too
          for d in ds:
            if not (d.kind == 'for' and d.node.ast is loop) and d.value is not None:
              work.append(d.value)
          continue
      ds = ff.defs_for(cur)
      if not ds:
        return False, f'{cur.id} does not derive from the client output'
      for d in ds:
        if d.kind == 'for' and d.node.ast is loop and cur.id == tname:
          continue
        if d.kind == 'assign' and d.value is not None and d.index is None:
          work.append(d.value)
        else:
          return False, f'{cur.id} is not derived from this client\'s output'
      continue
    if isinstance(cur, ast.Subscript) and isinstance(cur.slice, ast.Constant):
      via.append(f'[{cur.slice.value!r}]')
      work.append(cur.value)
      continue
    if isinstance(cur, ast.Attribute):
      via.append('.' + cur.attr)
      work.append(cur.value)
      continue
    if isinstance(cur, ast.Call) and allow_clip and repo_fn(ff, cur) in CLIP and cur.args:
      via.append('clip')
      work.append(cur.args[0])
      continue
    return False, f'{txt(cur)[:50]} is not the client output'
  return True, 'client output' + (' via ' + ','.join(via) if via else '')


def weight_is_len_of_same_client(ff: FuncFlow, w: ast.AST, loop: ast.For, clients_param: str) -> Tuple[Optional[bool], str]:
  """w == table[<loop client id>] with table = {cid: len(ds) for cid, ds, _ in clients}."""
  tg = loop_targets(loop)
  idname = tg[0].id if isinstance(tg[0], ast.Name) else None
  for e in ff.expand(w):
    if not isinstance(e, ast.Subscript):
      if isinstance(e, ast.Constant):
        return False, f'weight is the constant {txt(e)}: clients are not weighted by their number of examples'
      if isinstance(e, ast.Call) and ff.ext(e.func) == 'builtins.len':
        return None, f'weight {txt(e)} is a len() of something else'
      # a per-client lookup wrapped in a clamp / arithmetic: the weight is no longer the example count
      if isinstance(e, (ast.Call, ast.BinOp)):
        inner = [x for x in ast.walk(e) if isinstance(x, ast.Subscript) and isinstance(x.slice, ast.Name) and x.slice.id == idname]
        if inner and all(weight_is_len_of_same_client(ff, x, loop, clients_param)[0] is True for x in inner):
          return False, (f'weight {txt(e)[:50]} modifies the client\'s example count (e.g. a clamp to >= 1 gives a client without examples a '
                         'non-zero weight)')
      # paired with the generator's output by position (zip / enumerate over a list built from the clients): the generator need not
      # yield clients in input order (the pmap backend sorts them by number of batches)
      if isinstance(e, ast.Name):
        ds_ = ff.defs_for(e)
        if ds_ and all(d.kind == 'for' and d.node.ast is loop for d in ds_) and isinstance(loop.iter, ast.Call) and ff.ext(loop.iter.func) in (
            'builtins.zip', 'builtins.enumerate'):
          return False, (f'weight {e.id} is paired with the client outputs by position ({txt(loop.iter.func)}), not looked up under the yielded '
                         'client id: backends may yield clients in a different order than they were passed in')
      return None, f'weight {txt(e)[:40]} is not a per-client lookup'
    key = e.slice
    if not (isinstance(key, ast.Name) and key.id == idname and all(
        d.kind == 'for' and d.node.ast is loop for d in ff.defs_for(key))):
      return False, f'weight is looked up under {txt(key)}, not under the id of the client whose update is weighted'
    tabs = ff.expand(e.value)
    for t in tabs:
      ok, why = _is_len_table(ff, t, clients_param)
      if ok is not True:
        return ok, why
  return True, f'len(dataset) of the same client id'


def _is_len_table(ff: FuncFlow, t: ast.AST, clients_param: str) -> Tuple[Optional[bool], str]:
  if not isinstance(t, ast.DictComp) or len(t.generators) != 1:
    return None, f'weight table {txt(t)[:50]} is not a dict comprehension over the clients'
  g = t.generators[0]
  if ff.param_of(g.iter) != clients_param:
    return None, f'weight table iterates {txt(g.iter)}, not the `{clients_param}` argument'
  if not isinstance(g.target, (ast.Tuple, ast.List)) or len(g.target.elts) < 2:
    return None, 'weight table target is not a (client_id, dataset, ...) tuple'
  cid, ds = g.target.elts[0], g.target.elts[1]
  if not (isinstance(t.key, ast.Name) and isinstance(cid, ast.Name) and t.key.id == cid.id):
    return False, f'weight table is keyed by {txt(t.key)}, not by the client id'
  v = t.value
  if isinstance(v, ast.Call) and ff.ext(v.func) == 'builtins.len' and v.args and isinstance(
      v.args[0], ast.Name) and isinstance(ds, ast.Name) and v.args[0].id == ds.id:
    return True, 'len(dataset)'
  if isinstance(v, ast.Constant):
    return False, f'every client gets the constant weight {txt(v)}'
  return False, f'weight table value is {txt(v)[:40]}, not len(dataset)'


# ---------------------------------------------------------------- idiom (ii): tree_mean(pairs)
def pair_function_passes_weight(ff_outer: FuncFlow, fn: FuncInfo, repo: Repo) -> Tuple[Optional[bool], str]:
  """fn(elem, ...) returns (f(params), weight) where `_, params, weight = elem`."""
  ff = FuncFlow.of(repo, fn)
  params = fn.positional_params
  if not params:
    return None, 'pair function has no parameters'
  rets = ff.returns()
  if not rets:
    return None, 'pair function has no return'
  for _, rv in rets:
    if not isinstance(rv, ast.Tuple) or len(rv.elts) != 2:
      return None, f'pair function returns {txt(rv)[:40] if rv is not None else None}, not a pair'
    w = rv.elts[1]
    ok = False
    why = f'second component {txt(w)} is not the weight taken from the input triple'
    if isinstance(w, ast.Name):
      ds = ff.defs_for(w)
      if len(ds) == 1:
        d = next(iter(ds))
        if d.kind == 'assign' and d.index == (2,) and ff.param_of(d.value) == params[0]:
          ok = True
        elif d.kind == 'assign' and d.index == (1,) and ff.param_of(d.value) == params[0]:
          ok = True  # (params, weight) pairs
        elif d.kind == 'param' and w.id in params[1:]:
          ok = True  # starmap(f, pairs): weight passed positionally
    elif isinstance(w, ast.Subscript) and ff.param_of(w.value) == params[0]:
      ok = True
    if not ok:
      return False, why
  return True, 'weight of the input element is returned unchanged'
