"""Canonical form applied to every module right after parsing (positions are kept).

C1  t = V ; return t            ->  return V          when t is assigned once and read once in its function
C2  t = V ; <stmt using t once> ->  <stmt with V>     (level 2 only; same conditions, the use is in the header/expression of the
                                                      very next statement, not inside a nested body, lambda or comprehension)

C3  if not c: A else: B         ->  if c: B else: A;  x if not c else y -> y if c else x;  with an else arm the test is also
                                    made positive:  `is not` -> `is`, `!=` -> `==`, `not in` -> `in`  (arms swapped)
C4  a > b -> b < a ;  a >= b -> b <= a   (single-operator comparisons)
C6  x = x + e -> x += e  (also - and *), marked `_fjsa_rebind` (it creates a new object: not an in-place update of a list)
C8  an if/else one of whose arms always leaves (return / raise / continue / break) loses its else: the leaving arm stays under
    the if (the raising arm if both leave, the test negated if necessary) and the other arm follows the if
C9  calls of helper functions the rules do not know (not in fjsa/known_defs.json: a new private function, method or local
    closure of the same module) are replaced by the helper's body (fjsa/inline.py)
C5  module-level import aliases are renamed to the conventional name (import numpy as anything -> np, jax.numpy -> jnp,
    haiku -> hk, tensorflow -> tf, `from p import m as x` -> m) when that name is free in the file

Behaviour-preserving rewrites of this kind must not change any verdict; the checks only ever see the canonical form.
Level is taken from FJSA_CANON (default 3; 0 disables).
"""
from __future__ import annotations

import ast
import os
from typing import Dict, List

LEVEL = int(os.environ.get('FJSA_CANON', '3'))


def _own_nodes(fn):
  """Nodes of fn's own scope, plus - from nested scopes - the names that can refer to fn's locals (free there)."""
  stack = list(ast.iter_child_nodes(fn))
  while stack:
    n = stack.pop()
    if isinstance(n, (ast.FunctionDef, ast.AsyncFunctionDef, ast.ClassDef, ast.Lambda, ast.ListComp, ast.SetComp, ast.DictComp, ast.GeneratorExp)):
      if isinstance(n, (ast.FunctionDef, ast.AsyncFunctionDef, ast.ClassDef)):
        yield ast.Name(id=n.name, ctx=ast.Store())
      bound = set()
      nonlocal_ = set()
      for x in ast.walk(n):
        if isinstance(x, ast.arg):
          bound.add(x.arg)
        elif isinstance(x, ast.Name) and isinstance(x.ctx, (ast.Store, ast.Del)):
          bound.add(x.id)
        elif isinstance(x, (ast.Nonlocal, ast.Global)):
          nonlocal_.update(x.names)
      bound -= nonlocal_
      for x in ast.walk(n):
        if x is n:
          continue
        if isinstance(x, ast.Name) and x.id not in bound:
          yield x
        elif isinstance(x, (ast.Nonlocal, ast.Global)):
          yield x
      continue
    yield n
    stack.extend(ast.iter_child_nodes(n))


def _header_exprs(st: ast.stmt) -> List[ast.AST]:
  """Expressions evaluated by the statement itself (not its nested bodies)."""
  if isinstance(st, (ast.Return, ast.Expr)):
    return [st.value] if st.value is not None else []
  if isinstance(st, ast.Assign):
    return [st.value]
  if isinstance(st, ast.AugAssign):
    return [st.value]
  if isinstance(st, ast.AnnAssign):
    return [st.value] if st.value is not None else []
  return []


class _Subst(ast.NodeTransformer):

  def __init__(self, name: str, value: ast.AST):
    self.name, self.value, self.done, self.blocked = name, value, 0, False

  def visit_Lambda(self, node):
    return node

  def _comp(self, node):
    return node
  visit_ListComp = visit_SetComp = visit_DictComp = visit_GeneratorExp = _comp

  def visit_Name(self, node):
    if node.id == self.name and isinstance(node.ctx, ast.Load):
      self.done += 1
      return self.value
    return node


CONVENTIONAL = {'numpy': 'np', 'jax.numpy': 'jnp', 'haiku': 'hk', 'tensorflow': 'tf'}
_POS = {ast.IsNot: ast.Is, ast.NotEq: ast.Eq, ast.NotIn: ast.In}
_FLIP = {ast.Gt: ast.Lt, ast.GtE: ast.LtE}


def _positive(test: ast.AST):
  """(test', swapped) with test' free of a leading `not` / negative comparison operator."""
  swapped = False
  while True:
    if isinstance(test, ast.UnaryOp) and isinstance(test.op, ast.Not):
      test = test.operand
      swapped = not swapped
      continue
    if isinstance(test, ast.Compare) and len(test.ops) == 1 and type(test.ops[0]) in _POS:
      test = ast.copy_location(ast.Compare(left=test.left, ops=[_POS[type(test.ops[0])]()], comparators=test.comparators), test)
      swapped = not swapped
      continue
    return test, swapped


class _Polarity(ast.NodeTransformer):

  def visit_If(self, node):
    self.generic_visit(node)
    if node.orelse:
      t, sw = _positive(node.test)
      if sw:
        node.test = t
        node.body, node.orelse = node.orelse, node.body
    return node

  def visit_IfExp(self, node):
    self.generic_visit(node)
    t, sw = _positive(node.test)
    if sw:
      node.test = t
      node.body, node.orelse = node.orelse, node.body
    return node

  def visit_Assign(self, node):
    self.generic_visit(node)
    v = node.value
    if (len(node.targets) == 1 and isinstance(node.targets[0], ast.Name) and isinstance(v, ast.BinOp) and isinstance(v.op, (ast.Add, ast.Sub, ast.Mult))
        and isinstance(v.left, ast.Name) and v.left.id == node.targets[0].id):
      new = ast.copy_location(ast.AugAssign(target=node.targets[0], op=v.op, value=v.right), node)
      new._fjsa_rebind = True
      return new
    return node

  def visit_Compare(self, node):
    self.generic_visit(node)
    if len(node.ops) == 1 and type(node.ops[0]) in _FLIP:
      return ast.copy_location(ast.Compare(left=node.comparators[0], ops=[_FLIP[type(node.ops[0])]()], comparators=[node.left]), node)
    return node


_NEG = {ast.Is: ast.IsNot, ast.Eq: ast.NotEq, ast.In: ast.NotIn, ast.IsNot: ast.Is, ast.NotEq: ast.Eq, ast.NotIn: ast.In,
        ast.Lt: ast.GtE, ast.LtE: ast.Gt, ast.Gt: ast.LtE, ast.GtE: ast.Lt}


def _negate(test: ast.AST) -> ast.AST:
  if isinstance(test, ast.UnaryOp) and isinstance(test.op, ast.Not):
    return test.operand
  if isinstance(test, ast.Compare) and len(test.ops) == 1 and type(test.ops[0]) in (ast.Is, ast.Eq, ast.In, ast.IsNot, ast.NotEq, ast.NotIn):
    return ast.copy_location(ast.Compare(left=test.left, ops=[_NEG[type(test.ops[0])]()], comparators=test.comparators), test)
  return ast.copy_location(ast.UnaryOp(op=ast.Not(), operand=test), test)


_LEAVE = (ast.Return, ast.Raise, ast.Continue, ast.Break)


def _leaves(block) -> bool:
  if not block:
    return False
  last = block[-1]
  if isinstance(last, _LEAVE):
    return True
  if isinstance(last, ast.If) and last.orelse:
    return _leaves(last.body) and _leaves(last.orelse)
  return False


def _flatten_else(node):
  """C8, bottom-up over statement lists."""
  for f in ('body', 'orelse', 'finalbody'):
    v = getattr(node, f, None)
    if not (isinstance(v, list) and v and isinstance(v[0], ast.stmt)):
      continue
    for st in v:
      if not isinstance(st, (ast.FunctionDef, ast.AsyncFunctionDef, ast.ClassDef)) or True:
        _flatten_else(st)
    i = 0
    while i < len(v):
      st = v[i]
      if isinstance(st, ast.If) and st.orelse:
        lb, lo = _leaves(st.body), _leaves(st.orelse)
        swap = None
        if lb and lo:
          rb, ro = isinstance(st.body[-1], ast.Raise), isinstance(st.orelse[-1], ast.Raise)
          if ro and not rb:
            swap = True
          elif rb and not ro:
            swap = False
          else:
            swap = len(st.orelse) < len(st.body)
        elif lb:
          swap = False
        elif lo and not (f == 'orelse' and len(v) == 1 and isinstance(node, ast.If)):
          # (not for the last `elif ... else: raise` of a dispatch chain: its arms stay where they are)
          swap = True
        if swap is not None:
          if swap:
            st.test = _negate(st.test)
            st.body, st.orelse = st.orelse, st.body
          rest = st.orelse
          st.orelse = []
          v[i + 1:i + 1] = rest
      i += 1
  for h in getattr(node, 'handlers', []) or []:
    _flatten_else(h)


class _SplitTuples(ast.NodeTransformer):
  """C10: a, b = (x, y) -> a = x; b = y  when no target is read by any right-hand element (so it is not a swap)."""

  def _split(self, stmts):
    out = []
    for st in stmts:
      if (isinstance(st, ast.Assign) and len(st.targets) == 1 and isinstance(st.targets[0], (ast.Tuple, ast.List)) and
          isinstance(st.value, (ast.Tuple, ast.List)) and len(st.targets[0].elts) == len(st.value.elts) and
          all(isinstance(t, ast.Name) for t in st.targets[0].elts) and not any(isinstance(e, ast.Starred) for e in st.value.elts)):
        tnames = {t.id for t in st.targets[0].elts}
        reads = {x.id for e in st.value.elts for x in ast.walk(e) if isinstance(x, ast.Name)}
        if not (tnames & reads) and len(tnames) == len(st.targets[0].elts):
          for t, e in zip(st.targets[0].elts, st.value.elts):
            out.append(ast.copy_location(ast.Assign(targets=[t], value=e), st))
          continue
      out.append(st)
    return out

  def generic_visit(self, node):
    super().generic_visit(node)
    for f in ('body', 'orelse', 'finalbody'):
      v = getattr(node, f, None)
      if isinstance(v, list) and v and isinstance(v[0], ast.stmt):
        setattr(node, f, self._split(v))
    return node


def _aliases(tree: ast.Module):
  bound = {}
  for x in ast.walk(tree):
    if isinstance(x, ast.Name) and isinstance(x.ctx, (ast.Store, ast.Del)):
      bound[x.id] = bound.get(x.id, 0) + 1
    elif isinstance(x, ast.arg):
      bound[x.arg] = bound.get(x.arg, 0) + 1
    elif isinstance(x, (ast.FunctionDef, ast.AsyncFunctionDef, ast.ClassDef)):
      bound[x.name] = bound.get(x.name, 0) + 1
    elif isinstance(x, ast.ExceptHandler) and x.name:
      bound[x.name] = bound.get(x.name, 0) + 1
    elif isinstance(x, (ast.Import, ast.ImportFrom)):
      for al in x.names:
        b = al.asname or al.name.split('.')[0]
        bound[b] = bound.get(b, 0) + 1
  ren = {}
  for st in tree.body:
    if isinstance(st, ast.Import):
      for al in st.names:
        if al.asname and al.name in CONVENTIONAL and al.asname != CONVENTIONAL[al.name]:
          want = CONVENTIONAL[al.name]
          if bound.get(al.asname) == 1 and want not in bound:
            ren[al.asname] = want
            al.asname = want
            bound[want] = 1
    elif isinstance(st, ast.ImportFrom) and st.level == 0:
      for al in st.names:
        if al.asname and al.asname != al.name and al.name != '*':
          want = al.name
          if bound.get(al.asname) == 1 and want not in bound:
            ren[al.asname] = want
            al.asname = None
            bound[want] = 1
  if ren:
    for x in ast.walk(tree):
      if isinstance(x, ast.Name) and x.id in ren:
        x.id = ren[x.id]
  return tree


def canonicalise(tree: ast.Module, level=None, relpath: str = None) -> ast.Module:
  level = LEVEL if level is None else level
  if level <= 0:
    return tree
  if level >= 3 and relpath is not None:
    from fjsa import inline
    try:
      tree = inline.inline_unknown_helpers(tree, relpath)
    except RecursionError:
      pass
  if level >= 3:
    tree = _aliases(tree)
    # C11: an annotated assignment inside a function (x: T = e, self.f: T = e) is the plain assignment (class-level fields keep theirs)
    for fn in [n for n in ast.walk(tree) if isinstance(n, (ast.FunctionDef, ast.AsyncFunctionDef))]:
      for holder in ast.walk(fn):
        for fld in ('body', 'orelse', 'finalbody'):
          blk = getattr(holder, fld, None)
          if isinstance(blk, list) and not isinstance(holder, ast.ClassDef):
            for i, st in enumerate(blk):
              if isinstance(st, ast.AnnAssign) and st.value is not None:
                blk[i] = ast.copy_location(ast.Assign(targets=[st.target], value=st.value, type_comment=None), st)
    # C13: `if c: r = a  else: r = b` for the result variable of an inlined helper (guard-clause returns) is `r = a if c else b`
    for holder in list(ast.walk(tree)):
      for fld in ('body', 'orelse', 'finalbody'):
        blk = getattr(holder, fld, None)
        if not isinstance(blk, list):
          continue
        for i, st in enumerate(blk):
          if (isinstance(st, ast.If) and len(st.body) == 1 and len(st.orelse) == 1 and all(
              isinstance(b, ast.Assign) and len(b.targets) == 1 and isinstance(b.targets[0], ast.Name) for b in (st.body[0], st.orelse[0]))
              and st.body[0].targets[0].id == st.orelse[0].targets[0].id and st.body[0].targets[0].id.startswith('ret__i')
              and not any(isinstance(x, ast.Name) and x.id == st.body[0].targets[0].id for x in ast.walk(st.test))):
            new = ast.Assign(targets=[st.body[0].targets[0]],
                             value=ast.IfExp(test=st.test, body=st.body[0].value, orelse=st.orelse[0].value), type_comment=None)
            ast.copy_location(new, st.body[0])
            ast.copy_location(new.value, st)
            blk[i] = new
    # C12: x[0:n] is x[:n]
    for sl in [n for n in ast.walk(tree) if isinstance(n, ast.Slice)]:
      if isinstance(sl.lower, ast.Constant) and sl.lower.value == 0 and not isinstance(sl.lower.value, bool):
        sl.lower = None
    tree = _Polarity().visit(tree)
    tree = _SplitTuples().visit(tree)
    ast.fix_missing_locations(tree)
    _flatten_else(tree)
  for fn in [n for n in ast.walk(tree) if isinstance(n, (ast.FunctionDef, ast.AsyncFunctionDef))]:
    stores: Dict[str, int] = {}
    loads: Dict[str, int] = {}
    for n in _own_nodes(fn):
      if isinstance(n, ast.Name):
        d = stores if isinstance(n.ctx, (ast.Store, ast.Del)) else loads
        d[n.id] = d.get(n.id, 0) + 1
      elif isinstance(n, ast.arg):
        stores[n.arg] = stores.get(n.arg, 0) + 1
      elif isinstance(n, (ast.Global, ast.Nonlocal)):
        for nm in n.names:
          stores[nm] = stores.get(nm, 0) + 2
      elif isinstance(n, ast.ExceptHandler) and n.name:
        stores[n.name] = stores.get(n.name, 0) + 1
    _blocks(fn, stores, loads, level)
  if level >= 3:
    # C14: `return a if c else b` is `if c: return a` / `return b` (every return statement yields one value)
    for holder in list(ast.walk(tree)):
      for fld in ('body', 'orelse', 'finalbody'):
        blk = getattr(holder, fld, None)
        if not isinstance(blk, list):
          continue
        i = 0
        while i < len(blk):
          st = blk[i]
          if isinstance(st, ast.Return) and isinstance(st.value, ast.IfExp):
            t_, sw_ = _positive(st.value.test)
            a_, b_ = (st.value.orelse, st.value.body) if sw_ else (st.value.body, st.value.orelse)
            r1 = ast.copy_location(ast.Return(value=a_), st)
            r2 = ast.copy_location(ast.Return(value=b_), st)
            iff = ast.copy_location(ast.If(test=t_, body=[r1], orelse=[]), st)
            blk[i:i + 1] = [iff, r2]
          else:
            i += 1
    tree = _Polarity().visit(tree)      # tests exposed by the inlining above (t = a not in b; x if t else y)
    tree = _SplitTuples().visit(tree)   # tuple assignments exposed by the inlining above
    ast.fix_missing_locations(tree)
  return tree


def _set_header(st: ast.stmt, new: List[ast.AST]):
  if isinstance(st, (ast.Return, ast.Expr, ast.Assign, ast.AugAssign, ast.AnnAssign)):
    st.value = new[0]
  elif isinstance(st, ast.For):
    st.iter = new[0]
  elif isinstance(st, ast.If):
    st.test = new[0]
  elif isinstance(st, ast.Raise):
    st.exc = new[0]
  elif isinstance(st, ast.Assert):
    st.test = new[0]
  elif isinstance(st, ast.With):
    for it, e in zip(st.items, new):
      it.context_expr = e


def _header_exprs2(st: ast.stmt) -> List[ast.AST]:
  hs = _header_exprs(st)
  if hs:
    return hs
  if isinstance(st, ast.For):
    return [st.iter]
  if isinstance(st, ast.If):
    return [st.test]
  if isinstance(st, ast.Raise) and st.exc is not None:
    return [st.exc]
  if isinstance(st, ast.Assert):
    return [st.test]
  if isinstance(st, ast.With):
    return [it.context_expr for it in st.items]
  return []


def _names_loaded(e: ast.AST) -> set:
  return {x.id for x in ast.walk(e) if isinstance(x, ast.Name)}


def _names_stored(st: ast.stmt) -> set:
  out = set()
  for x in ast.walk(st):
    if isinstance(x, ast.Name) and isinstance(x.ctx, (ast.Store, ast.Del)):
      out.add(x.id)
    elif isinstance(x, (ast.FunctionDef, ast.ClassDef)):
      out.add(x.name)
  return out


def _blocks(node, stores, loads, level):
  for f in ('body', 'orelse', 'finalbody', 'handlers'):
    v = getattr(node, f, None)
    if not isinstance(v, list):
      continue
    if v and isinstance(v[0], ast.stmt):
      i = 0
      while i + 1 < len(v):
        a = v[i]
        if (isinstance(a, ast.Assign) and len(a.targets) == 1 and isinstance(a.targets[0], ast.Name) and
            stores.get(a.targets[0].id) == 1 and loads.get(a.targets[0].id) == 1 and
            not isinstance(a.value, (ast.Yield, ast.YieldFrom, ast.Await, ast.NamedExpr, ast.Constant))):
          # (a name bound to a literal is a label, e.g. bos = 1: it stays)
          t = a.targets[0].id
          used = _names_loaded(a.value)
          merged = False
          # the single read of t: in the header of a later statement of the same block, with nothing in between that rebinds a name
          # the value depends on (level 1: only the immediately following `return t`)
          for j in range(i + 1, len(v)):
            b = v[j]
            if level == 1 and not (j == i + 1 and isinstance(b, ast.Return) and isinstance(b.value, ast.Name)):
              break
            hs = _header_exprs2(b)
            reads_here = any(isinstance(x, ast.Name) and x.id == t and isinstance(x.ctx, ast.Load) for h in hs for x in ast.walk(h))
            if reads_here:
              sub = _Subst(t, a.value)
              new_hs = [sub.visit(h) for h in hs]
              if sub.done == 1:
                _set_header(b, new_hs)
                if j == i + 1:
                  b.lineno, b.col_offset = a.lineno, a.col_offset
                del v[i]
                merged = True
              break
            # t read somewhere inside b (a nested body): leave it
            if any(isinstance(x, ast.Name) and x.id == t for x in ast.walk(b)):
              break
            if _names_stored(b) & (used | {t}):
              break
            # a value that calls something is not moved past a statement that writes to the heap (self.x += 1, d[k] = v): the order
            # of the two effects is part of what some rules decide (and the write may change what the call reads)
            if any(isinstance(x, ast.Call) for x in ast.walk(a.value)) and any(
                isinstance(x, (ast.Attribute, ast.Subscript)) and isinstance(x.ctx, (ast.Store, ast.Del)) for x in ast.walk(b)):
              break
            # statements with calls in between may have side effects on what the value reads: only skip over plain assignments of
            # other names and expression statements when the value itself is call-free or j is adjacent
            if j > i + 1 and any(isinstance(x, ast.Call) for x in ast.walk(a.value)) and any(isinstance(x, ast.Call) for x in ast.walk(b)) and False:
              break
          if merged:
            continue
        i += 1
    for ch in v:
      if isinstance(ch, ast.AST) and not isinstance(ch, (ast.FunctionDef, ast.AsyncFunctionDef, ast.ClassDef)):
        _blocks(ch, stores, loads, level)


def positionalise(repo) -> int:
  """C7 (needs the resolver, so it runs once all modules are loaded): in a call that resolves to a repository function, method
  or class, keyword arguments that continue the positional prefix become positional:  f(a, y=2, x=1) with def f(p, x, y) ->
  f(a, 1, 2). Calls with * / ** arguments or functools.partial bindings are left alone."""
  if LEVEL < 3:
    return 0
  n = 0
  for m in repo.modules.values():
    for c in [x for x in ast.walk(m.tree) if isinstance(x, ast.Call)]:
      if not c.keywords or any(k.arg is None for k in c.keywords) or any(isinstance(a, ast.Starred) for a in c.args):
        continue
      try:
        r = repo.resolve(m.enclosing_scope(c), c.func)
      except Exception:  # pylint: disable=broad-except
        continue
      pos = None
      if r.kind == 'func' and not r.bound_args and not r.bound_kwargs and isinstance(r.func.node, (ast.FunctionDef, ast.AsyncFunctionDef)):
        g = r.func
        if g.node.args.vararg is not None:
          continue
        pos = list(g.positional_params)
        if pos and pos[0] in ('self', 'cls') and isinstance(c.func, ast.Attribute):
          try:
            base = repo.resolve(m.enclosing_scope(c), c.func.value)
          except Exception:  # pylint: disable=broad-except
            continue
          if base.kind != 'class':
            pos = pos[1:]
      elif r.kind == 'class' and r.cls is not None:
        init = r.cls.methods.get('__init__')
        if init is not None:
          if init.node.args.vararg is not None:
            continue
          pos = list(init.positional_params)[1:]
        elif getattr(r.cls, 'fields', None):
          pos = [f for f, _, _ in r.cls.fields]
      if not pos:
        continue
      kw = {k.arg: k for k in c.keywords}
      i = len(c.args)
      moved = False
      while i < len(pos) and pos[i] in kw:
        k = kw.pop(pos[i])
        c.args.append(k.value)
        c.keywords.remove(k)
        m.parent_of[k.value] = c
        i += 1
        moved = True
      if moved:
        n += 1
  return n
