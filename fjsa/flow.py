"""Per-function flow facts: def-use, provenance expansion, call binding."""
from __future__ import annotations

import ast
from typing import Dict, FrozenSet, Iterable, Iterator, List, Optional, Sequence, Set, Tuple

from fjsa.cfg import CFG, Def, Node, ReachingDefs
from fjsa.model import FuncInfo, Module, Ref, Repo, Scope, walk_local


def _within(root: ast.AST, chain) -> bool:
  return any(x is root for x in chain)


def dump(e: ast.AST) -> str:
  """Structure dump ignoring load/store context and positions."""
  return ast.dump(e, annotate_fields=False, include_attributes=False).replace(
      'Load()', '').replace('Store()', '')


def same(a: ast.AST, b: ast.AST) -> bool:
  return dump(a) == dump(b)


def txt(e) -> str:
  try:
    return ast.unparse(e)
  except Exception:  # pylint: disable=broad-except
    return repr(e)


def names_in(e: ast.AST) -> Set[str]:
  return {x.id for x in ast.walk(e) if isinstance(x, ast.Name)}


def is_const(e: ast.AST, *values) -> bool:
  if isinstance(e, ast.Constant):
    return not values or any(
        type(e.value) in (int, float) and e.value == v and type(v) in (int, float) or e.value is v
        for v in values)
  if isinstance(e, ast.UnaryOp) and isinstance(e.op, ast.USub) and isinstance(e.operand, ast.Constant):
    return not values or any(-e.operand.value == v for v in values)
  return False


def call_args(call: ast.Call, params: Sequence[str],
              bound_args: Sequence[ast.AST] = (),
              bound_kwargs: Optional[Dict[str, ast.AST]] = None) -> Dict[str, ast.AST]:
  """Binds call arguments to parameter names (positional + keyword)."""
  out: Dict[str, ast.AST] = {}
  pos = list(bound_args) + [a for a in call.args if not isinstance(a, ast.Starred)]
  for p, a in zip(params, pos):
    out[p] = a
  for k, v in (bound_kwargs or {}).items():
    out[k] = v
  for k in call.keywords:
    if k.arg:
      out[k.arg] = k.value
  return out


def arg_at(call: ast.Call, index: int, name: Optional[str] = None) -> Optional[ast.AST]:
  pos = [a for a in call.args]
  if index < len(pos) and not isinstance(pos[index], ast.Starred):
    return pos[index]
  if name:
    for k in call.keywords:
      if k.arg == name:
        return k.value
  return None


class FuncFlow:
  """CFG + reaching definitions + resolver for one function."""

  _cache: Dict[int, 'FuncFlow'] = {}

  def __init__(self, repo: Repo, fi: FuncInfo):
    self.repo = repo
    self.fi = fi
    self.module: Module = fi.module
    self.cfg = CFG(fi.node)
    self.rd: ReachingDefs = self.cfg.reaching_defs()
    self._node_of: Dict[int, Node] = {}
    for n in self.cfg.nodes:
      if n.ast is None:
        continue
      for x in n.walk():
        self._node_of.setdefault(id(x), n)

  @classmethod
  def of(cls, repo: Repo, fi: FuncInfo) -> 'FuncFlow':
    k = id(fi.node)
    ff = cls._cache.get(k)
    if ff is None or ff.repo is not repo:
      ff = cls(repo, fi)
      cls._cache[k] = ff
    return ff

  # --- locating
  def node_of(self, expr: ast.AST) -> Optional[Node]:
    return self._node_of.get(id(expr))

  def nodes_of(self, expr: ast.AST) -> List[Node]:
    out = []
    for n in self.cfg.nodes:
      if n.ast is None:
        continue
      for x in n.walk():
        if x is expr:
          out.append(n)
          break
    return out

  def scope_at(self, expr: ast.AST) -> Scope:
    """Innermost scope (lambda/comprehension aware) in which expr evaluates."""
    m = self.module
    chain = [expr]
    n = m.parent_of.get(expr)
    while n is not None:
      if n in m.scope_of_node and n is not self.module.tree:
        child = chain[-1]
        if isinstance(n, (ast.FunctionDef, ast.AsyncFunctionDef, ast.Lambda)):
          a = n.args
          if child in getattr(n, 'decorator_list', []) or child is a and len(chain) >= 2 and (
              chain[-2] in a.defaults or chain[-2] in a.kw_defaults):
            chain.append(n)
            n = m.parent_of.get(n)
            continue
        if isinstance(n, ast.ClassDef):
          if child in n.decorator_list or child in n.bases:
            chain.append(n)
            n = m.parent_of.get(n)
            continue
        if isinstance(n, (ast.ListComp, ast.SetComp, ast.GeneratorExp, ast.DictComp)):
          # the first iterable is evaluated in the enclosing scope
          if child is n.generators[0] and len(chain) >= 2 and _within(n.generators[0].iter, chain):
            chain.append(n)
            n = m.parent_of.get(n)
            continue
        return m.scope_of_node[n]
      chain.append(n)
      n = m.parent_of.get(n)
    return m.scope

  def resolve(self, expr: ast.AST) -> Ref:
    return self.repo.resolve(self.scope_at(expr), expr)

  def callee(self, call: ast.Call) -> Ref:
    return self.repo.resolve(self.scope_at(call), call.func)

  def ext(self, expr: ast.AST) -> Optional[str]:
    r = self.resolve(expr)
    return r.path if r.kind == 'ext' else None

  def is_call_to(self, e: ast.AST, *paths: str) -> bool:
    """e is a call whose callee resolves to an external dotted path in paths,
    or to a repo function `module:qualname` in paths."""
    if not isinstance(e, ast.Call):
      return False
    r = self.callee(e)
    if r.kind == 'ext':
      return r.path in paths
    if r.kind == 'func':
      return f'{r.func.module.name}:{r.func.qualname}' in paths
    return False

  # --- iteration
  def calls(self, include_nested: bool = False) -> Iterator[Tuple[Node, ast.Call]]:
    for n in self.cfg.nodes:
      if n.ast is None:
        continue
      for c in n.calls():
        yield n, c

  def statements(self) -> Iterator[Node]:
    for n in self.cfg.nodes:
      if n.ast is not None:
        yield n

  def returns(self) -> List[Tuple[Node, Optional[ast.AST]]]:
    out = []
    seen = set()
    for n in self.cfg.nodes:
      if n.kind == 'stmt' and isinstance(n.ast, ast.Return) and id(n.ast) not in seen:
        seen.add(id(n.ast))
        out.append((n, n.ast.value))
    return out

  def yields(self) -> List[Tuple[Node, ast.AST]]:
    out = []
    seen = set()
    for n in self.cfg.nodes:
      if n.ast is None:
        continue
      for x in n.walk():
        if isinstance(x, (ast.Yield, ast.YieldFrom)) and id(x) not in seen:
          seen.add(id(x))
          out.append((n, x))
    return out

  # --- def-use
  def defs_for(self, name: ast.Name) -> FrozenSet[Def]:
    """Reaching definitions for a Name load inside this function.

    Names bound in an inner scope (lambda/comprehension) return an empty set.
    Free variables (not local to this function) return an empty set.
    """
    n = self.node_of(name)
    if n is None:
      return frozenset()
    sc = self.scope_at(name)
    if sc is not self.fi.scope:
      bs = sc.lookup_scope(name.id)
      if bs is not self.fi.scope:
        return frozenset()
    return self.rd.reaching(n, name.id)

  def is_local(self, name: ast.Name) -> bool:
    sc = self.scope_at(name)
    return sc.lookup_scope(name.id) is self.fi.scope

  def single_def(self, name: ast.Name) -> Optional[Def]:
    ds = self.defs_for(name)
    if len(ds) == 1:
      return next(iter(ds))
    return None

  def def_values(self, name: ast.Name) -> List[Def]:
    return sorted(self.defs_for(name), key=lambda d: (d.node.id if d.node else -1))

  def expand(self, e: ast.AST, depth: int = 8, _seen=None) -> List[ast.AST]:
    """Follows plain-name copies: returns the set of defining value exprs.

    A Name whose every reaching def is a simple `name = value` (no unpacking)
    is replaced by the expansion of those values; anything else is returned
    as is.
    """
    if _seen is None:
      _seen = set()
    if isinstance(e, ast.Name) and depth > 0 and isinstance(e.ctx, ast.Load):
      ds = self.defs_for(e)
      if ds and all(d.kind == 'assign' and d.index is None and d.value is not None for d in ds):
        out = []
        for d in sorted(ds, key=lambda d: d.node.id):
          k = (id(d.value))
          if k in _seen:
            continue
          _seen.add(k)
          out.extend(self.expand(d.value, depth - 1, _seen))
        return out
    return [e]

  def deep_walk(self, e: ast.AST, depth: int = 6, _seen=None) -> Iterator[ast.AST]:
    """Walks e and, through local names bound only by plain assignments,
    the expressions that define them (provenance closure)."""
    if _seen is None:
      _seen = set()
    for x in ast.walk(e):
      yield x
      if isinstance(x, ast.Name) and isinstance(x.ctx, ast.Load) and depth > 0:
        ds = self.defs_for(x)
        if ds and all(d.kind == 'assign' and d.value is not None for d in ds):
          for d in ds:
            if id(d.value) in _seen:
              continue
            _seen.add(id(d.value))
            yield from self.deep_walk(d.value, depth - 1, _seen)

  def expand1(self, e: ast.AST) -> Optional[ast.AST]:
    xs = self.expand(e)
    return xs[0] if len(xs) == 1 else None

  def param_of(self, e: ast.AST) -> Optional[str]:
    """If e is (a copy of) a parameter of this function, returns its name."""
    xs = self.expand(e)
    if len(xs) == 1 and isinstance(xs[0], ast.Name):
      ds = self.defs_for(xs[0])
      if len(ds) == 1 and next(iter(ds)).kind == 'param':
        return xs[0].id
    return None

  def live_after(self, node: Node, name: str, d: Optional[Def] = None) -> List[Tuple[Node, ast.Name]]:
    """Loads of `name` reachable from `node` that may still see the value
    that reaches node's entry (i.e. before any rebinding)."""
    out = []
    before = self.rd.reaching(node, name)
    if not before:
      return out
    # Defs made at this node itself kill the value for successors.
    if any(dd.name == name for dd in self.rd.defs_at[node.id]):
      return out
    seen = set()
    stack = [s for s, _ in node.succ]
    while stack:
      n = stack.pop()
      if n.id in seen:
        continue
      seen.add(n.id)
      reach = self.rd.reaching(n, name)
      if not (reach & before):
        continue
      if n.ast is not None:
        for x in n.walk():
          if isinstance(x, ast.Name) and x.id == name and isinstance(x.ctx, ast.Load):
            if self.is_local(x):
              out.append((n, x))
      if any(dd.name == name for dd in self.rd.defs_at[n.id]):
        continue
      stack.extend(s for s, _ in n.succ)
    return out


def enclosing_loops(ff: FuncFlow, node: ast.AST) -> List[ast.AST]:
  out = []
  n = ff.module.parent_of.get(node)
  while n is not None and n is not ff.fi.node:
    if isinstance(n, (ast.For, ast.While, ast.AsyncFor)):
      out.append(n)
    n = ff.module.parent_of.get(n)
  return out


def stmt_of(ff: FuncFlow, node: ast.AST) -> Optional[ast.stmt]:
  return ff.module.enclosing_stmt(node)


def lt_form(t: ast.AST) -> Optional[Tuple[ast.AST, bool, ast.AST]]:
  """(small, strict, big) for a single-operator ordering comparison, whichever way round it is written:
  a < b, b > a -> (a, True, b);  a <= b, b >= a -> (a, False, b)."""
  if isinstance(t, ast.Compare) and len(t.ops) == 1:
    op, l, r = t.ops[0], t.left, t.comparators[0]
    if isinstance(op, ast.Lt):
      return l, True, r
    if isinstance(op, ast.LtE):
      return l, False, r
    if isinstance(op, ast.Gt):
      return r, True, l
    if isinstance(op, ast.GtE):
      return r, False, l
  return None


def guards_of(ff: FuncFlow, node: ast.AST, implied: bool = True) -> List[Tuple[ast.AST, bool]]:
  """(test, polarity) of enclosing if/ifexp/while conditions of `node`.

  Tests are reported in positive form: `not c`, `a is not b`, `a != b`, `a not in b` become (c | a is b | a == b | a in b) with
  the polarity flipped - so `if x is not None: S` guards S by (x is None, False).

  With `implied` (default) the early-exit style is read like if/else: a statement that follows `if c: ...return/raise/continue/break`
  (an if without else whose body always leaves) in the same block is guarded by (c, False)."""
  from fjsa.canon import _positive
  raw = _guards_raw(ff, node, implied)
  out = []
  for t, pol in raw:
    t2, sw = _positive(t)
    out.append((t2, (not pol) if sw else pol))
  return out


def _guards_raw(ff: FuncFlow, node: ast.AST, implied: bool = True) -> List[Tuple[ast.AST, bool]]:
  out = []
  if implied:
    from fjsa.canon import _leaves
    mm = ff.module
    ch = node
    par = mm.parent_of.get(ch)
    while par is not None and par is not ff.fi.node.__class__:
      for fld in ('body', 'orelse', 'finalbody'):
        blk = getattr(par, fld, None)
        if isinstance(blk, list) and any(ch is s_ for s_ in blk):
          for s_ in blk:
            if s_ is ch:
              break
            if isinstance(s_, ast.If) and not s_.orelse and _leaves(s_.body):
              out.append((s_.test, False))
      if par is ff.fi.node or isinstance(par, (ast.FunctionDef, ast.AsyncFunctionDef, ast.Lambda)):
        break
      ch, par = par, mm.parent_of.get(par)
  m = ff.module
  child = node
  n = m.parent_of.get(node)
  while n is not None and n is not ff.fi.node:
    if isinstance(n, ast.If):
      if any(child is s for s in n.body):
        out.append((n.test, True))
      elif any(child is s for s in n.orelse):
        out.append((n.test, False))
    elif isinstance(n, ast.IfExp):
      if child is n.body:
        out.append((n.test, True))
      elif child is n.orelse:
        out.append((n.test, False))
    elif isinstance(n, ast.While):
      if any(child is s for s in n.body):
        out.append((n.test, True))
    elif isinstance(n, (ast.FunctionDef, ast.Lambda, ast.AsyncFunctionDef)):
      break
    child, n = n, m.parent_of.get(n)
  return out


def carried_reads(ff: FuncFlow, loop: ast.AST, name: str) -> List[ast.Name]:
  """Reads of `name` inside `loop` (a For/While statement) that a value from a previous iteration (or from before the loop) can
  reach: on some path from the start of an iteration to the read, `name` is not assigned. Empty list = the variable is fresh in
  every iteration."""
  cfg = ff.cfg
  head = next((n for n in cfg.nodes if n.ast is loop and n.kind in ('for', 'while')), None)
  if head is None:
    return []
  body = cfg.loop_body_nodes(head)
  entry = [s for s, lab in head.succ if lab == 'true']
  defines = {}
  for nid in body:
    n = cfg.nodes[nid]
    defines[nid] = any(d.name == name and d.kind != 'del' for d in ff.rd.defs_at.get(nid, []))
  IN = {nid: True for nid in body}
  for e in entry:
    IN[e.id] = False
  changed = True
  while changed:
    changed = False
    for nid in body:
      n = cfg.nodes[nid]
      if any(n is e for e in entry):
        val = False
      else:
        preds = [p for p, _ in n.pred if p.id in body]
        val = all((IN[p.id] or defines[p.id]) for p in preds) if preds else False
      if val != IN[nid]:
        IN[nid] = val
        changed = True
  out = []
  for nid in body:
    n = cfg.nodes[nid]
    if n.ast is None or IN[nid]:
      continue
    for x in n.walk():
      if isinstance(x, ast.Name) and x.id == name and isinstance(x.ctx, ast.Load):
        out.append(x)
      elif isinstance(x, ast.AugAssign) and isinstance(x.target, ast.Name) and x.target.id == name:
        out.append(x.target)
  return out


def bound_args(ff: FuncFlow, call: ast.Call) -> Dict[str, ast.AST]:
  """parameter name -> argument expression for a call that resolves to a repository function, method or class (dataclass
  fields or __init__), whichever way (positionally / by keyword) the arguments are written. Keyword arguments are always
  included, so for unresolved callees the result is just the keywords."""
  out: Dict[str, ast.AST] = {k.arg: k.value for k in call.keywords if k.arg}
  try:
    r = ff.callee(call)
  except Exception:  # pylint: disable=broad-except
    return out
  pos = None
  if r.kind == 'func' and isinstance(r.func.node, (ast.FunctionDef, ast.AsyncFunctionDef)):
    pos = list(r.func.positional_params)
    if pos and pos[0] in ('self', 'cls') and isinstance(call.func, ast.Attribute):
      base = ff.repo.resolve(ff.scope_at(call), call.func.value)
      is_cm = any(txt(d) == 'classmethod' for d in r.func.node.decorator_list)
      if base.kind != 'class' or is_cm:
        pos = pos[1:]
    pos = pos[len(r.bound_args):]
    for k, v in (r.bound_kwargs or {}).items():
      out.setdefault(k, v)
  elif r.kind == 'class' and r.cls is not None:
    init = r.cls.methods.get('__init__')
    if init is not None:
      pos = list(init.positional_params)[1:]
    elif getattr(r.cls, 'fields', None):
      pos = [f for f, _, _ in r.cls.fields]
  if pos:
    for p, a in zip(pos, [a for a in call.args if not isinstance(a, ast.Starred)]):
      out[p] = a
  return out


def ntxt(e: ast.AST) -> str:
  """Source text with the operands of products and sums in sorted order (a * b == b * a, a + b + c == c + a + b): for comparing
  arithmetic expressions whose operand order is immaterial."""
  if isinstance(e, ast.BinOp) and isinstance(e.op, (ast.Mult, ast.Add)):
    ops: List[ast.AST] = []

    def flat(x):
      if isinstance(x, ast.BinOp) and type(x.op) is type(e.op):
        flat(x.left)
        flat(x.right)
      else:
        ops.append(x)
    flat(e)
    sym = ' * ' if isinstance(e.op, ast.Mult) else ' + '
    parts = sorted(ntxt(o) if not isinstance(o, ast.BinOp) else '(' + ntxt(o) + ')' for o in ops)
    return sym.join(parts)
  if isinstance(e, ast.BinOp):
    l = ntxt(e.left) if not isinstance(e.left, ast.BinOp) else '(' + ntxt(e.left) + ')'
    r = ntxt(e.right) if not isinstance(e.right, ast.BinOp) else '(' + ntxt(e.right) + ')'
    return f'{l} {_OPSYM.get(type(e.op), "?")} {r}'
  return txt(e)


_OPSYM = {ast.Sub: '-', ast.Div: '/', ast.FloorDiv: '//', ast.Mod: '%', ast.Pow: '**', ast.LShift: '<<', ast.RShift: '>>',
          ast.BitAnd: '&', ast.BitOr: '|', ast.BitXor: '^', ast.MatMult: '@'}


def atxt(ff: FuncFlow, e: ast.AST, depth: int = 4) -> str:
  """Text of e with every name that is a plain copy of another name (a = b) replaced by the name it copies."""
  import copy as _copy

  def origin(n: ast.Name, d: int) -> str:
    if d == 0:
      return n.id
    try:
      ds = [x for x in ff.defs_for(n)]
    except Exception:  # pylint: disable=broad-except
      return n.id
    if len(ds) == 1 and ds[0].kind == 'assign' and ds[0].index is None and isinstance(ds[0].value, ast.Name):
      return origin(ds[0].value, d - 1)
    return n.id

  class T(ast.NodeTransformer):
    def visit_Name(self, node):
      if isinstance(node.ctx, ast.Load):
        o = origin(node, depth)
        if o != node.id:
          return ast.copy_location(ast.Name(id=o, ctx=node.ctx), node)
      return node
  # names inside e must keep their identity for defs_for: compute the mapping first on the original nodes
  mapping = {}
  for x in ast.walk(e):
    if isinstance(x, ast.Name) and isinstance(x.ctx, ast.Load):
      mapping[id(x)] = origin(x, depth)
  e2 = _copy.deepcopy(e)
  for x_old, x_new in zip(ast.walk(e), ast.walk(e2)):
    if isinstance(x_old, ast.Name) and id(x_old) in mapping:
      x_new.id = mapping[id(x_old)]
  return txt(e2)


def self_txt(ff: 'FuncFlow', e: ast.AST) -> str:
  """Text of `e` with local aliases of attributes of self resolved: a name whose only definition is `name = self.attr` (or, in the
  method that stores it, the parameter p of `self.attr = p`) is written as `self.attr`. `round_num = self._round_num; f(round_num)`
  and `f(self._round_num)` read the same."""
  import copy
  fi = ff.fi
  stored = {}
  for st in ast.walk(fi.node):
    if isinstance(st, ast.Assign) and len(st.targets) == 1 and isinstance(st.targets[0], ast.Attribute) and isinstance(
        st.targets[0].value, ast.Name) and st.targets[0].value.id == 'self' and isinstance(st.value, ast.Name) and st.value.id in fi.params:
      stored.setdefault(st.value.id, st.targets[0])

  class R(ast.NodeTransformer):
    def visit_Name(self, node):
      if not isinstance(node.ctx, ast.Load):
        return node
      try:
        ds = ff.defs_for(node)
      except Exception:  # pylint: disable=broad-except
        ds = []
      if len(ds) == 1:
        d = next(iter(ds))
        v = d.value
        if d.kind == 'assign' and d.index is None and isinstance(v, ast.Attribute) and isinstance(v.value, ast.Name) and v.value.id == 'self':
          return copy.deepcopy(v)
        if d.kind == 'param' and node.id in stored:
          return copy.deepcopy(stored[node.id])
      return node
  # the transformer needs the original nodes for reaching definitions: map copies back by position
  orig = {}
  for x in ast.walk(e):
    if isinstance(x, ast.Name):
      orig[(x.lineno, x.col_offset, x.id)] = x

  class R2(R):
    def visit_Name(self, node):
      o = orig.get((getattr(node, 'lineno', None), getattr(node, 'col_offset', None), node.id))
      return R.visit_Name(self, o) if o is not None else node
  return txt(R2().visit(copy.deepcopy(e)))

