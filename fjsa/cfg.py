"""Statement-level control-flow graph for python functions, plus dataflow.

Hand built because no CFG library exists for Python in this sandbox. It
covers the statement kinds that occur in fedjax: If / For / While / Try
(except, else, finally) / With / Return / Raise / Break / Continue / Yield /
Assert and simple statements.

Exception model: statements in a `try` body have an 'exc' edge to the
exception target of that try (handlers and/or an exceptional copy of the
finally block). Outside a try no exception edges are added (rules about
"normal" paths use the normal edges; rules about cleanup look at try/finally).
Generators: every node containing a `yield` inside a try body gets the same
'exc' edge (GeneratorExit / thrown exception); all yield nodes are flagged.
"""
from __future__ import annotations

import ast
from typing import Callable, Dict, FrozenSet, Iterable, Iterator, List, Optional, Set, Tuple

from fjsa.model import target_names, walk_local


class Node:
  __slots__ = ('id', 'kind', 'ast', 'succ', 'pred', 'label')

  def __init__(self, nid: int, kind: str, node: Optional[ast.AST], label: str = ''):
    self.id = nid
    self.kind = kind
    self.ast = node
    self.succ: List[Tuple['Node', str]] = []
    self.pred: List[Tuple['Node', str]] = []
    self.label = label

  @property
  def lineno(self) -> int:
    return getattr(self.ast, 'lineno', 0) if self.ast is not None else 0

  def __repr__(self):
    t = ''
    if self.ast is not None:
      try:
        t = ast.unparse(self.ast).split('\n')[0][:60]
      except Exception:  # pylint: disable=broad-except
        t = type(self.ast).__name__
    return f'<N{self.id} {self.kind} L{self.lineno} {t}>'

  # --- expressions evaluated *at this node* (not nested statement bodies)
  def exprs(self) -> List[ast.AST]:
    n = self.ast
    k = self.kind
    if n is None:
      return []
    if k == 'stmt':
      if isinstance(n, (ast.FunctionDef, ast.AsyncFunctionDef)):
        return list(n.decorator_list) + list(n.args.defaults) + [
            x for x in n.args.kw_defaults if x
        ]
      if isinstance(n, ast.ClassDef):
        return list(n.decorator_list) + list(n.bases)
      return [n]
    if k in ('if', 'while'):
      return [n.test]
    if k == 'for-iter':
      return [n.iter]
    if k == 'for-bind':
      return [n.target]
    if k == 'with':
      out = []
      for it in n.items:
        out.append(it.context_expr)
        if it.optional_vars is not None:
          out.append(it.optional_vars)
      return out
    if k == 'except':
      return [n.type] if n.type is not None else []
    return []

  def walk(self) -> Iterator[ast.AST]:
    """All AST nodes evaluated at this CFG node (lambdas included)."""
    for e in self.exprs():
      if isinstance(e, (ast.stmt,)):
        yield e
        yield from walk_local(e)
      else:
        yield e
        yield from _walk_expr(e)

  def calls(self) -> List[ast.Call]:
    return [x for x in self.walk() if isinstance(x, ast.Call)]

  @property
  def is_yield(self) -> bool:
    return any(isinstance(x, (ast.Yield, ast.YieldFrom)) for x in self.walk())


def _walk_expr(e: ast.AST) -> Iterator[ast.AST]:
  stack = list(ast.iter_child_nodes(e))
  while stack:
    n = stack.pop()
    yield n
    stack.extend(ast.iter_child_nodes(n))


class _TryCtx:

  def __init__(self, exc_target: Node, finalbody: Optional[List[ast.stmt]]):
    self.exc_target = exc_target
    self.finalbody = finalbody


class _LoopCtx:

  def __init__(self, head: Node, try_depth: int):
    self.head = head
    self.breaks: List[Tuple[Node, str]] = []
    self.try_depth = try_depth


class CFG:

  def __init__(self, func: ast.AST):
    self.func = func
    self.nodes: List[Node] = []
    self.entry = self._new('entry', None)
    self.exit = self._new('exit', None)
    self.raise_exit = self._new('raise', None)
    self._loops: List[_LoopCtx] = []
    self._tries: List[_TryCtx] = []
    body = func.body if not isinstance(func, ast.Lambda) else [
        ast.Return(value=func.body, lineno=func.lineno, col_offset=0)
    ]
    ends = self._block(body, [(self.entry, '')])
    self._connect(ends, self.exit)
    self._dom = None
    self._pdom = None
    self._rd = None

  # --- construction
  def _new(self, kind, node, label='') -> Node:
    n = Node(len(self.nodes), kind, node, label)
    self.nodes.append(n)
    return n

  def _edge(self, a: Node, b: Node, label: str = ''):
    a.succ.append((b, label))
    b.pred.append((a, label))

  def _connect(self, preds: List[Tuple[Node, str]], node: Node):
    for p, lab in preds:
      self._edge(p, node, lab)

  def _exc_target(self) -> Node:
    return self._tries[-1].exc_target if self._tries else self.raise_exit

  def _add_exc(self, node: Node):
    if self._tries:
      self._edge(node, self._tries[-1].exc_target, 'exc')

  def _run_finallies(self, preds, down_to: int) -> List[Tuple[Node, str]]:
    """Routes a jump (return/break/continue) through enclosing finally blocks."""
    cur = preds
    saved = self._tries
    for i in range(len(saved) - 1, down_to - 1, -1):
      ctx = saved[i]
      if ctx.finalbody:
        self._tries = saved[:i]
        cur = self._block(ctx.finalbody, cur)
    self._tries = saved
    return cur

  def _block(self, stmts: List[ast.stmt], preds) -> List[Tuple[Node, str]]:
    cur = preds
    for st in stmts:
      if not cur:
        break  # unreachable code
      cur = self._stmt(st, cur)
    return cur

  def _stmt(self, st: ast.stmt, preds) -> List[Tuple[Node, str]]:
    if isinstance(st, ast.If):
      t = self._new('if', st)
      self._connect(preds, t)
      self._add_exc(t)
      a = self._block(st.body, [(t, 'true')])
      b = self._block(st.orelse, [(t, 'false')]) if st.orelse else [(t, 'false')]
      return a + b
    if isinstance(st, (ast.For, ast.AsyncFor)):
      it = self._new('for-iter', st)
      self._connect(preds, it)
      self._add_exc(it)
      head = self._new('for', st)
      self._edge(it, head, '')
      self._add_exc(head)
      bind = self._new('for-bind', st)
      self._edge(head, bind, 'true')
      loop = _LoopCtx(head, len(self._tries))
      self._loops.append(loop)
      body_end = self._block(st.body, [(bind, '')])
      self._loops.pop()
      for p, lab in body_end:
        self._edge(p, head, lab or 'back')
      out = [(head, 'false')]
      if st.orelse:
        out = self._block(st.orelse, out)
      return out + loop.breaks
    if isinstance(st, ast.While):
      head = self._new('while', st)
      self._connect(preds, head)
      self._add_exc(head)
      loop = _LoopCtx(head, len(self._tries))
      self._loops.append(loop)
      body_end = self._block(st.body, [(head, 'true')])
      self._loops.pop()
      for p, lab in body_end:
        self._edge(p, head, lab or 'back')
      const_true = isinstance(st.test, ast.Constant) and bool(st.test.value)
      out = [] if const_true else [(head, 'false')]
      if st.orelse and out:
        out = self._block(st.orelse, out)
      return out + loop.breaks
    if isinstance(st, (ast.With, ast.AsyncWith)):
      w = self._new('with', st)
      self._connect(preds, w)
      self._add_exc(w)
      ends = self._block(st.body, [(w, '')])
      x = self._new('with-exit', st)
      self._connect(ends, x)
      return [(x, '')]
    if isinstance(st, ast.Try) or type(st).__name__ == 'TryStar':
      return self._try(st, preds)
    if isinstance(st, ast.Return):
      n = self._new('stmt', st)
      self._connect(preds, n)
      self._add_exc(n)
      ends = self._run_finallies([(n, 'return')], 0)
      self._connect(ends, self.exit)
      return []
    if isinstance(st, ast.Raise):
      n = self._new('stmt', st)
      self._connect(preds, n)
      self._edge(n, self._exc_target(), 'raise')
      return []
    if isinstance(st, ast.Break):
      n = self._new('stmt', st)
      self._connect(preds, n)
      loop = self._loops[-1]
      ends = self._run_finallies([(n, 'break')], loop.try_depth)
      loop.breaks.extend(ends)
      return []
    if isinstance(st, ast.Continue):
      n = self._new('stmt', st)
      self._connect(preds, n)
      loop = self._loops[-1]
      ends = self._run_finallies([(n, 'continue')], loop.try_depth)
      for p, lab in ends:
        self._edge(p, loop.head, lab)
      return []
    if isinstance(st, ast.Assert):
      n = self._new('stmt', st)
      self._connect(preds, n)
      self._add_exc(n)
      return [(n, '')]
    if isinstance(st, ast.Match):
      # Not used by fedjax; treat as opaque branching over the case bodies.
      n = self._new('stmt', st)
      self._connect(preds, n)
      out = [(n, '')]
      for c in st.cases:
        out += self._block(c.body, [(n, 'case')])
      return out
    n = self._new('stmt', st)
    self._connect(preds, n)
    self._add_exc(n)
    return [(n, '')]

  def _try(self, st, preds):
    finalbody = st.finalbody or None
    handlers = st.handlers
    outer_tries = list(self._tries)
    # Exception dispatch node for this try.
    dispatch = self._new('exc-dispatch', st)
    catch_all = any(
        h.type is None or (isinstance(h.type, ast.Name) and
                           h.type.id in ('BaseException',)) for h in handlers)
    # try body
    self._tries = outer_tries + [_TryCtx(dispatch, finalbody)]
    t = self._new('try', st)
    self._connect(preds, t)
    body_end = self._block(st.body, [(t, '')])
    if st.orelse:
      # else-clause exceptions are not caught by this try's handlers
      self._tries = outer_tries + [_TryCtx(self._mk_finally_exc(finalbody, outer_tries), finalbody)] if finalbody else outer_tries
      body_end = self._block(st.orelse, body_end)
    # handlers: exceptions raised inside go through finally (exc copy) outward
    handler_ends = []
    if finalbody:
      fin_exc_entry = self._mk_finally_exc(finalbody, outer_tries)
    else:
      fin_exc_entry = None
    outer_target = outer_tries[-1].exc_target if outer_tries else self.raise_exit
    for h in handlers:
      hn = self._new('except', h)
      self._edge(dispatch, hn, 'exc')
      self._tries = outer_tries + ([_TryCtx(fin_exc_entry, finalbody)] if finalbody else [])
      handler_ends += self._block(h.body, [(hn, '')])
    if not catch_all:
      self._edge(dispatch, fin_exc_entry if fin_exc_entry is not None else outer_target, 'exc')
    self._tries = outer_tries
    ends = body_end + handler_ends
    if finalbody:
      ends = self._block(finalbody, ends)
    return ends

  def _mk_finally_exc(self, finalbody, outer_tries) -> Node:
    """Exceptional copy of a finally block: runs it, then re-raises outward."""
    saved = self._tries
    self._tries = outer_tries
    entry = self._new('finally-exc', None)
    ends = self._block(finalbody, [(entry, '')])
    target = outer_tries[-1].exc_target if outer_tries else self.raise_exit
    for p, lab in ends:
      self._edge(p, target, 'reraise')
    self._tries = saved
    return entry

  # --- queries
  def stmt_nodes(self) -> List[Node]:
    return [n for n in self.nodes if n.ast is not None]

  def nodes_for(self, stmt: ast.AST) -> List[Node]:
    return [n for n in self.nodes if n.ast is stmt]

  def node_of_expr(self, module, expr: ast.AST) -> List[Node]:
    """CFG nodes at which `expr` is evaluated."""
    out = []
    for n in self.nodes:
      if n.ast is None:
        continue
      for x in n.walk():
        if x is expr:
          out.append(n)
          break
    return out

  def reachable_from(self, start: Iterable[Node], avoid: Optional[Set[int]] = None,
                     labels_excluded: Tuple[str, ...] = ()) -> Set[int]:
    avoid = avoid or set()
    seen: Set[int] = set()
    stack = [n for n in start if n.id not in avoid]
    while stack:
      n = stack.pop()
      if n.id in seen:
        continue
      seen.add(n.id)
      for s, lab in n.succ:
        if lab in labels_excluded:
          continue
        if s.id not in avoid and s.id not in seen:
          stack.append(s)
    return seen

  def reaches(self, a: Node, b: Node, avoid: Optional[Set[int]] = None,
              labels_excluded: Tuple[str, ...] = ()) -> bool:
    """True if b is reachable from a's successors without touching `avoid`."""
    starts = [s for s, lab in a.succ if lab not in labels_excluded]
    return b.id in self.reachable_from(starts, avoid, labels_excluded)

  def dominators(self) -> Dict[int, Set[int]]:
    if self._dom is None:
      self._dom = _dominators(self.nodes, self.entry, lambda n: [p for p, _ in n.pred],
                              lambda n: [s for s, _ in n.succ])
    return self._dom

  def dominates(self, a: Node, b: Node) -> bool:
    return a.id in self.dominators().get(b.id, set())

  def postdominators(self, normal_only: bool = True) -> Dict[int, Set[int]]:
    """Post-dominators w.r.t. the normal exit (exceptional edges ignored)."""
    if self._pdom is None:
      excl = ('exc', 'raise', 'reraise') if normal_only else ()
      self._pdom = _dominators(
          self.nodes, self.exit,
          lambda n: [s for s, lab in n.succ if lab not in excl],
          lambda n: [p for p, lab in n.pred if lab not in excl])
    return self._pdom

  def in_loop(self, node: Node) -> bool:
    return self.reaches(node, node)

  def loop_body_nodes(self, head: Node) -> Set[int]:
    """Nodes of the loop whose header is `head` (reach head again w/o exit)."""
    body_starts = [s for s, lab in head.succ if lab == 'true']
    fwd = self.reachable_from(body_starts, avoid={head.id})
    out = set()
    for nid in fwd:
      n = self.nodes[nid]
      if head.id in self.reachable_from([n], avoid=set()) and self._reaches_no_exit(n, head):
        out.add(nid)
    return out

  def _reaches_no_exit(self, n: Node, head: Node) -> bool:
    seen = set()
    stack = [n]
    while stack:
      x = stack.pop()
      if x.id in seen:
        continue
      seen.add(x.id)
      for s, _ in x.succ:
        if s is head:
          return True
        stack.append(s)
    return False

  # --- reaching definitions
  def reaching_defs(self) -> 'ReachingDefs':
    if self._rd is None:
      self._rd = ReachingDefs(self)
    return self._rd


def _dominators(nodes, root, preds, succs) -> Dict[int, Set[int]]:
  # Iterative dataflow; graphs are small (< 200 nodes).
  reach = set()
  stack = [root]
  while stack:
    n = stack.pop()
    if n.id in reach:
      continue
    reach.add(n.id)
    stack.extend(succs(n))
  allset = set(reach)
  dom = {nid: set(allset) for nid in reach}
  dom[root.id] = {root.id}
  changed = True
  order = [n for n in nodes if n.id in reach and n is not root]
  while changed:
    changed = False
    for n in order:
      ps = [p for p in preds(n) if p.id in reach]
      if ps:
        new = set.intersection(*(dom[p.id] for p in ps))
      else:
        new = set()
      new = new | {n.id}
      if new != dom[n.id]:
        dom[n.id] = new
        changed = True
  return dom


class Def:
  """A definition of a local name at a CFG node."""
  __slots__ = ('name', 'node', 'kind', 'value', 'index', 'target')

  def __init__(self, name, node: Optional[Node], kind, value=None, index=None, target=None):
    self.name = name
    self.node = node
    self.kind = kind  # param | assign | aug | for | with | except | import | def | class | del | unbound | walrus
    self.value = value
    self.index = index
    self.target = target

  def __repr__(self):
    return f'<Def {self.name} {self.kind} @{self.node}>'


def node_defs(n: Node) -> List[Def]:
  """Names (re)bound at CFG node n."""
  out: List[Def] = []
  a = n.ast
  k = n.kind
  if a is None:
    return out
  if k == 'stmt':
    if isinstance(a, ast.Assign):
      for t in a.targets:
        for name, idx, tn in target_names(t):
          out.append(Def(name, n, 'assign', a.value, idx or None, tn))
    elif isinstance(a, ast.AnnAssign):
      if isinstance(a.target, ast.Name) and a.value is not None:
        out.append(Def(a.target.id, n, 'assign', a.value, None, a.target))
    elif isinstance(a, ast.AugAssign):
      if isinstance(a.target, ast.Name):
        out.append(Def(a.target.id, n, 'aug', a, None, a.target))
    elif isinstance(a, (ast.FunctionDef, ast.AsyncFunctionDef)):
      out.append(Def(a.name, n, 'def', a))
    elif isinstance(a, ast.ClassDef):
      out.append(Def(a.name, n, 'class', a))
    elif isinstance(a, ast.Import):
      for al in a.names:
        out.append(Def((al.asname or al.name).split('.')[0], n, 'import', a))
    elif isinstance(a, ast.ImportFrom):
      for al in a.names:
        out.append(Def(al.asname or al.name, n, 'import', a))
    elif isinstance(a, ast.Delete):
      for t in a.targets:
        if isinstance(t, ast.Name):
          out.append(Def(t.id, n, 'del', None))
    # walrus anywhere in the statement
    for x in n.walk():
      if isinstance(x, ast.NamedExpr):
        out.append(Def(x.target.id, n, 'walrus', x.value, None, x.target))
  elif k == 'for-bind':
    for name, idx, tn in target_names(a.target):
      out.append(Def(name, n, 'for', a.iter, idx or None, tn))
  elif k == 'with':
    for it in a.items:
      if it.optional_vars is not None:
        for name, idx, tn in target_names(it.optional_vars):
          out.append(Def(name, n, 'with', it.context_expr, idx or None, tn))
  elif k == 'except':
    if a.name:
      out.append(Def(a.name, n, 'except', a.type))
  elif k in ('if', 'while', 'for-iter'):
    for x in n.walk():
      if isinstance(x, ast.NamedExpr):
        out.append(Def(x.target.id, n, 'walrus', x.value, None, x.target))
  return out


class ReachingDefs:
  """Classic reaching definitions over local names of one function."""

  def __init__(self, cfg: CFG):
    self.cfg = cfg
    func = cfg.func
    self.param_defs: Dict[str, Def] = {}
    a = func.args
    names = [x.arg for x in a.posonlyargs + a.args + a.kwonlyargs]
    if a.vararg:
      names.append(a.vararg.arg)
    if a.kwarg:
      names.append(a.kwarg.arg)
    for nm in names:
      self.param_defs[nm] = Def(nm, cfg.entry, 'param')
    self.defs_at: Dict[int, List[Def]] = {n.id: node_defs(n) for n in cfg.nodes}
    self.local_names: Set[str] = set(names)
    for ds in self.defs_at.values():
      for d in ds:
        self.local_names.add(d.name)
    self.unbound: Dict[str, Def] = {
        nm: Def(nm, cfg.entry, 'unbound') for nm in self.local_names if nm not in self.param_defs
    }
    # IN sets: node id -> name -> frozenset[Def]
    self.IN: Dict[int, Dict[str, FrozenSet[Def]]] = {}
    self._solve()

  def _solve(self):
    cfg = self.cfg
    entry_state: Dict[str, FrozenSet[Def]] = {}
    for nm, d in self.param_defs.items():
      entry_state[nm] = frozenset([d])
    for nm, d in self.unbound.items():
      entry_state[nm] = frozenset([d])
    OUT: Dict[int, Dict[str, FrozenSet[Def]]] = {}
    self.IN[cfg.entry.id] = entry_state
    OUT[cfg.entry.id] = entry_state
    work = [s for s, _ in cfg.entry.succ]
    inwork = {n.id for n in work}
    while work:
      n = work.pop(0)
      inwork.discard(n.id)
      preds = [p for p, _ in n.pred if p.id in OUT]
      if not preds:
        continue
      merged: Dict[str, FrozenSet[Def]] = {}
      for p in preds:
        for nm, ds in OUT[p.id].items():
          if nm in merged:
            if merged[nm] is not ds:
              merged[nm] = merged[nm] | ds
          else:
            merged[nm] = ds
      self.IN[n.id] = merged
      out = dict(merged)
      for d in self.defs_at[n.id]:
        if d.kind == 'aug':
          out[d.name] = frozenset([d])
        else:
          out[d.name] = frozenset([d])
      if OUT.get(n.id) != out:
        OUT[n.id] = out
        for s, _ in n.succ:
          if s.id not in inwork:
            work.append(s)
            inwork.add(s.id)
    self.OUT = OUT

  def reaching(self, node: Node, name: str) -> FrozenSet[Def]:
    """Definitions of `name` that reach the *entry* of `node`."""
    return self.IN.get(node.id, {}).get(name, frozenset())

  def out(self, node: Node, name: str) -> FrozenSet[Def]:
    return self.OUT.get(node.id, {}).get(name, frozenset())

  def uses_of(self, d: Def) -> List[Tuple[Node, ast.Name]]:
    """All (node, Name) loads that `d` may reach."""
    out = []
    for n in self.cfg.nodes:
      if n.ast is None:
        continue
      reach = self.IN.get(n.id, {}).get(d.name, frozenset())
      if d not in reach:
        continue
      for x in n.walk():
        if isinstance(x, ast.Name) and x.id == d.name and isinstance(x.ctx, (ast.Load, ast.Del)):
          out.append((n, x))
      # AugAssign target is also a use
      if n.kind == 'stmt' and isinstance(n.ast, ast.AugAssign) and isinstance(
          n.ast.target, ast.Name) and n.ast.target.id == d.name:
        out.append((n, n.ast.target))
    return out


def name_loads(node: Node) -> List[ast.Name]:
  return [x for x in node.walk() if isinstance(x, ast.Name) and isinstance(x.ctx, ast.Load)]


def solve_forward(cfg: CFG, init, transfer: Callable, join: Callable,
                  edge_filter: Optional[Callable[[Node, Node, str], bool]] = None,
                  edge_transfer: Optional[Callable] = None, max_iter: int = 10000):
  """Generic forward dataflow.

  transfer(node, in_state) -> out_state; join(a, b) -> state;
  edge_transfer(src, dst, label, state) -> state or None (edge infeasible).
  Returns (IN, OUT) keyed by node id.
  """
  IN = {cfg.entry.id: init}
  OUT = {cfg.entry.id: transfer(cfg.entry, init)}
  work = [s for s, _ in cfg.entry.succ]
  it = 0
  while work:
    it += 1
    if it > max_iter:
      raise RuntimeError('dataflow did not converge')
    n = work.pop(0)
    states = []
    for p, lab in n.pred:
      if p.id not in OUT:
        continue
      if edge_filter is not None and not edge_filter(p, n, lab):
        continue
      st = OUT[p.id]
      if edge_transfer is not None:
        st = edge_transfer(p, n, lab, st)
        if st is None:
          continue
      states.append(st)
    if not states:
      continue
    cur = states[0]
    for s in states[1:]:
      cur = join(cur, s)
    if n.id in IN and IN[n.id] == cur and n.id in OUT:
      continue
    IN[n.id] = cur
    out = transfer(n, cur)
    if OUT.get(n.id) != out or n.id not in OUT:
      OUT[n.id] = out
      for s, _ in n.succ:
        if s not in work:
          work.append(s)
  return IN, OUT
