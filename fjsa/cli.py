"""Command line: ./check <property> --tier quick|thorough [--replay f]."""
from __future__ import annotations

import argparse
import importlib
import json
import os
import sys
import traceback

from fjsa import report
from fjsa.model import AnalysisError, Repo


def _forwarding(check, prop: str, mod):
  """R-FORWARD over the property's anchor files and every function its own rules analysed."""
  from fjsa.rules import forward
  repo = check.repo
  check.rule('R-FORWARD', 'for the functions that carry this property\'s configuration (table SCOPES in rules/forward.py): every parameter is '
             'read or explicitly discarded with `del`; a function holding parameter p passes it to every repository callee that also takes p '
             '(frozen exceptions with reasons); optional numbers are not tested by truthiness; same-named arguments are not swapped; **kwargs '
             'forwarded with ** are not filtered on the way')
  funcs = forward.scoped_functions(repo, prop)
  forward.check_forwarding(check, funcs)
  from fjsa.rules import lints
  check.rule('R-DISCARD', 'in the same functions: no bare expression statement calls a value-returning repository function or .replace(); '
             'overriding methods keep the positional parameters and defaults of the method they override (R-OVERRIDE); Iterable[...] parameters '
             'are consumed at most once per path and never inside a loop unless materialised first (R-ONEPASS); tree_map copies use a copying '
             'function, not an arithmetic identity (R-COPY)')
  lints.check_lints(check, funcs)


def _isolated(mod):
  """`mod.run` with every top-level statement guarded separately: a rule group that cannot find its anchor (or fails on code it
  was not written for) is recorded and the remaining groups still run, so one renamed helper does not switch the whole check off.
  A later statement that needs a name the failed one would have bound is recorded as skipped."""
  cached = getattr(mod, '_fjsa_isolated_run', None)
  if cached is not None:
    return cached
  import ast, inspect, textwrap
  src = inspect.getsource(mod.run)
  first = mod.run.__code__.co_firstlineno
  tree = ast.parse(textwrap.dedent(src))
  fn = tree.body[0]
  ast.increment_lineno(tree, first - 1)
  body = []
  for i, st in enumerate(fn.body):
    if isinstance(st, ast.Expr) and isinstance(st.value, ast.Constant):
      body.append(st)
      continue
    names = sorted({n.id for n in ast.walk(st) if isinstance(n, ast.Name) and isinstance(n.ctx, ast.Store)} |
                   {a.asname or a.name.split('.')[0] for n in ast.walk(st) if isinstance(n, (ast.Import, ast.ImportFrom)) for a in n.names} |
                   ({st.name} if isinstance(st, (ast.FunctionDef, ast.ClassDef)) else set()))
    handler = ast.ExceptHandler(
        type=ast.Name('Exception', ast.Load()), name='_fjsa_e',
        body=[ast.Expr(ast.Call(ast.Name('_fjsa_fail', ast.Load()),
                                [ast.Name(fn.args.args[0].arg, ast.Load()), ast.Name('_fjsa_e', ast.Load()), ast.Constant(tuple(names)),
                                 ast.Constant(st.lineno)], []))])
    t = ast.Try(body=[st], handlers=[handler], orelse=[], finalbody=[])
    ast.copy_location(t, st)
    body.append(t)
  fn.body = body
  fn.name = '_fjsa_isolated_run'
  ast.fix_missing_locations(tree)
  ns = mod.__dict__
  ns['_fjsa_fail'] = _fail
  exec(compile(tree, mod.__file__, 'exec'), ns)   # pylint: disable=exec-used
  return ns['_fjsa_isolated_run']


def _fail(check, e, names, lineno):
  failed = check.__dict__.setdefault('_failed_names', set())
  if isinstance(e, (NameError, UnboundLocalError)):
    nm = getattr(e, 'name', None)
    if nm is None:
      import re
      mm = re.search(r"'(\w+)'", str(e))
      nm = mm.group(1) if mm else None
    if nm in failed:
      failed.update(names)
      check.error(f'skipped: the rule group at {check.prop.lower()}.py:{lineno} needs `{nm}`, which an earlier failed step would have bound')
      return
  failed.update(names)
  from fjsa.model import AnchorMissing
  if isinstance(e, AnchorMissing):
    check.error(f'AnchorMissing:{e}', hard=e.public)
  elif isinstance(e, report.Inconclusive):
    check.error(f'inconclusive:{e}')
  elif isinstance(e, AnalysisError):
    check.error(f'{type(e).__name__}:{e}')
  else:
    tb = traceback.extract_tb(e.__traceback__)
    at = f'{os.path.basename(tb[-1].filename)}:{tb[-1].lineno}' if tb else '?'
    check.error(f'internal:{type(e).__name__}:{e} (at {at}; rule group at {check.prop.lower()}.py:{lineno})')


def run_property(prop: str, tier: str, repo_root: str, seed: int = 0):
  from fjsa.flow import FuncFlow
  FuncFlow._cache.clear()   # per-run cache: flows of an earlier repository copy must not accumulate (self-validation runs many)
  repo = Repo(repo_root)
  check = report.Check(prop, tier, repo, seed)
  mod = importlib.import_module(f'fjsa.props.{prop.lower()}')
  try:
    _isolated(mod)(check)
    _forwarding(check, prop, mod)
  except report.Inconclusive as e:
    check.error(f'inconclusive:{e}')
  except AnalysisError as e:
    check.error(f'{type(e).__name__}:{e}', hard=getattr(e, 'public', False))
  return check, mod


def main(argv=None) -> int:
  ap = argparse.ArgumentParser()
  ap.add_argument('property')
  ap.add_argument('--tier', default=os.environ.get('VERIF_TIER', 'quick'),
                  choices=['quick', 'thorough'])
  ap.add_argument('--repo', default=os.environ.get('FJSA_REPO', '/repo'))
  ap.add_argument('--replay', default=None)
  ap.add_argument('--evidence-dir', default=None)
  ap.add_argument('--no-selftest', action='store_true')
  ap.add_argument('--quiet', action='store_true')
  args = ap.parse_args(argv)
  prop = args.property.upper()
  try:
    seed = int(os.environ.get('VERIF_SEED', '0') or 0)
  except ValueError:
    seed = 0
  evidence_dir = args.evidence_dir or os.path.join(report.VERIF_ROOT, 'evidence')
  try:
    replay_filter = None
    if args.replay:
      with open(args.replay) as f:
        replay_filter = json.load(f)
      if replay_filter.get('property') != prop:
        print(f'ANALYSIS-ERROR property={prop} reason=replay file is for '
              f'{replay_filter.get("property")}')
        return 2
    check, mod = run_property(prop, args.tier, args.repo, seed)
    selftest = None
    if args.tier == 'thorough' and not args.no_selftest and replay_filter is None:
      from fjsa.selftest import harness
      selftest = harness.run_selftest(prop, args.repo)
    return report.finish(check, evidence_dir, replay_filter, selftest, args.quiet)
  except AnalysisError as e:
    print(f'ANALYSIS-ERROR property={prop} reason={type(e).__name__}:{e}')
    return 2
  except Exception as e:  # pylint: disable=broad-except
    tb = traceback.format_exc().strip().splitlines()
    print(f'ANALYSIS-ERROR property={prop} reason=internal:{type(e).__name__}:{e}')
    for ln in tb[-8:]:
      print('  ' + ln)
    return 2


if __name__ == '__main__':
  sys.exit(main())
