"""C02 - all for_each_client backends equal the sequential per-client fold."""
from __future__ import annotations

import ast
from typing import List, Optional, Tuple

from fjsa.flow import FuncFlow, call_args, guards_of, same, txt
from fjsa.model import FuncInfo
from fjsa.report import Check
from fjsa.rules import api, wmean
from fjsa.rules.donate import DonationAnalysis

MOD = 'fedjax.core.for_each_client'
TREE_MAPS = wmean.TREE_MAPS
WHERE = {'jax.numpy.where', 'numpy.where'}


def _yield_nodes(ff: FuncFlow):
  return [(n, y) for n, y in ff.yields() if isinstance(y, ast.Yield)]


def run(check: Check):
  repo = check.repo
  check.rule('R-DONATE', 'values at donated positions of the jit/pmap backends are owned (copied state, results of donating '
             'calls) and dead afterwards; shared_input, client_input and batches are never donated or aliased by a donated value')
  check.rule('R-YIELD1', 'each backend\'s generator reaches exactly one yield of (client id, output, step results) per client '
             'on every normal path; the no-step-result wrapper drops exactly the third component')
  check.rule('R-MASK', 'pmap: both results of the user step pass where(mask, new, old|zeros); padding clients are skipped by '
             'client_mask; step results are truncated to the real batch count; _blockify pairs every padding client/batch '
             'with False and every real one with True')
  check.rule('R-SCOPE', 'backend choice lives in a threading.local; the context manager saves the old value before try, '
             'yields inside try and restores in finally; only the setter and BackendChoice write the attribute')
  check.rule('R-API', 'every jax/numpy attribute and keyword used by the backends exists in the installed package')
  check.undecided('equality of values across backends; behaviour of user step functions on zero padding beyond "result '
                  'discarded by where"; device-count arithmetic')
  check.assume('A1: jax.pmap outputs are fresh buffers (checked by hand on jax 0.11.2); A2: a donating client_step does not '
               'forward its batch argument into the returned state; jax.jit forwards inputs returned unchanged')
  m = repo.module(MOD)
  da = DonationAnalysis(repo)
  # ---------------- R-DONATE
  decl = [d for d in da.declared() if d[0] is m]
  check.floor('R-DONATE', 'donation declarations', len(decl), 4)
  n_sites = 0
  for fi in m.functions():
    for s in da.sites(fi):
      n_sites += 1
      check.analysed(fi)
      roots = da.ownership(s)
      reads = da.reads_after(s)
      check.ob('R-DONATE.own', fi, txt(s.call)[:80], not roots,
               f'donated {txt(s.arg)} may share buffers with {sorted(roots)} (caller-owned): they would be invalidated'
               if roots else f'donated {txt(s.arg)} is owned (copied at init / result of the previous donating call)',
               node=s.call)
      check.ob('R-DONATE.dead', fi, txt(s.call)[:80], not reads,
               f'{txt(s.arg)} read after donation at {[getattr(x, "lineno", 0) for x, _ in reads]}' if reads else
               f'{txt(s.arg)} rebound or dead after the donation', node=s.call)
  check.floor('R-DONATE', 'donation sites', n_sites, 4)
  # non-donated positions carry caller values: shared_input / client_input / batch never at a donated index
  jit_call = repo.func(MOD, 'ForEachClientJitBackend.__call__')
  init = jit_call.nested('jit_client_init')
  iff = FuncFlow.of(repo, init)
  from fjsa.rules.pure import PurityAnalysis
  buf = PurityAnalysis(repo, mode='buffer')
  for _, rv in iff.returns():
    tags = buf.fn(init).tags(rv)
    check.ob('R-DONATE.copy', init, txt(rv), not tags,
             'the initial state handed to the donating step must be a fresh copy: client_init may return (parts of) '
             'shared_input/client_input and jax.jit forwards inputs unchanged' +
             (f' - shares buffers with {sorted(r for _, r in tags)}' if tags else ''), node=rv)
  # ---------------- R-YIELD1
  _jit_like(check, repo.func(MOD, 'ForEachClientJitBackend.__call__').nested('run'))
  _jit_like(check, repo.func(MOD, 'ForEachClientDebugBackend.__call__').nested('run'))
  _run_client(check, repo.func(MOD, 'ForEachClientJitBackend.__call__').nested('run_client'))
  _debug_fold(check, repo.func(MOD, 'ForEachClientDebugBackend.__call__').nested('run'))
  _backend_runs(check)
  _pmap(check)
  _shim_leaves(check)
  _wrapper(check)
  # ---------------- R-SCOPE
  _scope(check)
  # ---------------- R-API
  st = api.ApiStats()
  issues = api.check_module(repo, m, st)
  for i in issues:
    check.ob('R-API', i.fi or m, i.construct, False, i.detail, node=i.node)
  if not issues:
    check.ob('R-API', m, f'{st.chains} third-party attribute chains, {st.calls_with_keywords} keyword calls', True,
             'all resolve in the installed packages (hasattr-guarded compatibility branches accepted)', nontrivial=True)
  check.floor('R-API', 'attribute chains checked', st.chains, 20)


def _jit_like(check: Check, fi: FuncInfo):
  """for cid, batches, cin in clients: ...; yield cid, output, step_results (once per iteration)."""
  repo = check.repo
  ff = FuncFlow.of(repo, fi)
  check.analysed(fi)
  ys = _yield_nodes(ff)
  p_clients = fi.positional_params[1]
  loops = [n.ast for n in ff.cfg.nodes if n.kind == 'for' and ff.param_of(n.ast.iter) == p_clients]
  if len(loops) != 1 or not ys:
    check.inconclusive('R-YIELD1', fi, 'generator', 'expected one loop over `clients` with a yield')
    return
  loop = loops[0]
  tg = wmean.loop_targets(loop)
  seen = set()
  ys = [(n, y) for n, y in ys if not (id(y) in seen or seen.add(id(y)))]
  if len(ys) != 1:
    check.ob('R-YIELD1', fi, 'yield', False, f'{len(ys)} yield sites: a client may be yielded more than once')
    return
  n, y = ys[0]
  every = wmean._on_every_iteration(ff, loop, n)
  in_loop = wmean._loop_of(ff, y) is loop
  v = y.value
  ok_shape = isinstance(v, ast.Tuple) and len(v.elts) == 3 and isinstance(v.elts[0], ast.Name) and isinstance(
      tg[0], ast.Name) and v.elts[0].id == tg[0].id
  check.ob('R-YIELD1', fi, txt(y), every and in_loop and ok_shape,
           f'one yield per client on every normal path (ok={every and in_loop}); yields (this client\'s id, output, '
           f'step_results) (ok={ok_shape})', node=y)
  # no continue/break in the loop
  jumps = [x for x in ast.walk(loop) if isinstance(x, (ast.Continue, ast.Break)) and wmean._loop_of(ff, x) is loop]
  check.ob('R-YIELD1.nojump', fi, 'continue/break in client loop', not jumps,
           'no client may be skipped' if not jumps else f'{len(jumps)} continue/break statement(s) can skip clients')


def _run_client(check: Check, fi: FuncInfo):
  """state = init(shared, cin); for batch in batches: state, r = step(state, batch); results.append(r); final(shared, state)."""
  repo = check.repo
  ff = FuncFlow.of(repo, fi)
  check.analysed(fi)
  p_shared, p_batches, p_cin = fi.positional_params[:3]
  loops = [n.ast for n in ff.cfg.nodes if n.kind == 'for' and ff.param_of(n.ast.iter) == p_batches]
  if len(loops) != 1:
    check.inconclusive('R-FOLD', fi, 'batch loop', 'expected one loop over client_batches')
    return
  loop = loops[0]
  ok_step = ok_append = False
  step_call = None
  for st in loop.body:
    if isinstance(st, ast.Assign) and isinstance(st.value, ast.Call) and isinstance(st.targets[0], ast.Tuple) and len(st.targets[0].elts) == 2:
      c = st.value
      t0, t1 = st.targets[0].elts
      if len(c.args) == 2 and isinstance(c.args[0], ast.Name) and isinstance(t0, ast.Name) and c.args[0].id == t0.id and isinstance(
          c.args[1], ast.Name) and isinstance(loop.target, ast.Name) and c.args[1].id == loop.target.id:
        ok_step = True
        step_call = (c, t0.id, t1.id if isinstance(t1, ast.Name) else None)
  if step_call:
    for st in loop.body:
      if isinstance(st, ast.Expr) and isinstance(st.value, ast.Call) and isinstance(st.value.func, ast.Attribute) and st.value.func.attr == 'append':
        a = st.value.args[0] if st.value.args else None
        if isinstance(a, ast.Name) and a.id == step_call[2]:
          ok_append = True
  check.ob('R-FOLD', fi, 'state, r = step(state, batch); results.append(r)', ok_step and ok_append,
           f'the state is threaded through every batch in order (ok={ok_step}) and each step result is recorded once '
           f'(ok={ok_append})', node=loop)
  # init / final bracket the loop
  calls = [c for _, c in ff.calls()]
  init_ok = any(len(c.args) == 2 and ff.param_of(c.args[0]) == p_shared and ff.param_of(c.args[1]) == p_cin for c in calls)
  final_ok = False
  for _, rv in ff.returns():
    if isinstance(rv, ast.Tuple) and len(rv.elts) == 2:
      for x in ff.expand(rv.elts[0]):
        if isinstance(x, ast.Call) and len(x.args) == 2 and ff.param_of(x.args[0]) == p_shared and isinstance(
            x.args[1], ast.Name) and step_call and x.args[1].id == step_call[1]:
          final_ok = True
  check.ob('R-FOLD.bracket', fi, 'init(shared, client_input) ... final(shared, state)', init_ok and final_ok,
           f'fold starts from init(shared_input, client_input) (ok={init_ok}) and ends with final(shared_input, last state) '
           f'(ok={final_ok})')


def _debug_fold(check: Check, fi: FuncInfo):
  repo = check.repo
  ff = FuncFlow.of(repo, fi)
  user = set()
  s = fi.scope.parent
  # client_init / client_step / client_final are parameters of __call__
  owner = s.module.funcs_by_node[s.node]
  ps = owner.positional_params[1:4]
  calls = {p: [] for p in ps}
  for _, c in ff.calls():
    if isinstance(c.func, ast.Name) and c.func.id in calls:
      calls[c.func.id].append(c)
  ok = all(len(v) == 1 for v in calls.values())
  detail = {k: len(v) for k, v in calls.items()}
  order_ok = False
  if ok:
    ci, cs, cf = (calls[p][0] for p in ps)
    ni, ns, nf = ff.node_of(ci), ff.node_of(cs), ff.node_of(cf)
    order_ok = ff.cfg.dominates(ni, ns) and ff.cfg.dominates(ni, nf) and wmean._loop_of(ff, cs) is not None and wmean._loop_of(
        ff, cs) is not wmean._loop_of(ff, cf)
  check.ob('R-FOLD', fi, 'debug backend fold', ok and order_ok,
           f'each user function is called at exactly one site ({detail}); init dominates step and final; step runs in the '
           f'batch loop, final after it (ok={order_ok})')


def _shim_leaves(check: Check):
  """R-LEAF.scalar: the pmap placement shims map over the leaves of user pytrees (shared input, per-client inputs), and the jit and
  debug backends accept Python scalars as leaves. A function mapped over those leaves may therefore pass a leaf to array functions
  (jnp.stack, jnp.asarray ...) but never read an attribute of it (`a.shape`, `a.dtype`, `a.astype`): a float has none."""
  repo = check.repo
  n = 0
  for name in ('_device_put_sharded', '_device_put_replicated'):
    try:
      fi = repo.func(MOD, name)
    except Exception:
      fi = None
    if fi is None:
      continue   # the shim is a repair of this checker's finding; its absence is decided by R-API
    ff = FuncFlow.of(repo, fi)
    check.analysed(fi)
    for _, c in ff.calls():
      if ff.ext(c.func) not in ('jax.tree_util.tree_map', 'jax.tree_map', 'jax.tree.map') or not c.args:
        continue
      fn = c.args[0]
      if not isinstance(fn, ast.Lambda):
        continue
      n += 1
      a = fn.args
      leaves = {x.arg for x in a.posonlyargs + a.args} | ({a.vararg.arg} if a.vararg else set())
      bad = [x for x in ast.walk(fn.body) if isinstance(x, ast.Attribute) and isinstance(x.value, ast.Name) and x.value.id in leaves]
      # elements of *xs: `for x in xs` / xs[0] followed by an attribute
      bad += [x for x in ast.walk(fn.body) if isinstance(x, ast.Attribute) and isinstance(x.value, ast.Subscript) and
              isinstance(x.value.value, ast.Name) and x.value.value.id in leaves]
      check.ob('R-LEAF.scalar', fi, f'tree_map({txt(fn)[:70]}, ...)', not bad,
               'the mapped function hands leaves to array functions only' if not bad else
               f'`{txt(bad[0])}` reads an attribute of a leaf; leaves of the shared / client input may be Python scalars (the jit and debug '
               'backends accept them), so the pmap backend alone fails on such inputs', node=bad[0] if bad else fn, exact=True)
  check.floor('R-LEAF.scalar', 'placement shims mapped over user leaves', n, 2)


def _pmap(check: Check):
  repo = check.repo
  call = repo.func(MOD, 'ForEachClientPmapBackend.__call__')
  step = call.nested('p_client_step')
  run = call.nested('run')
  run_block = call.nested('run_block')
  for f in (step, run, run_block):
    check.analysed(f)
  sff = FuncFlow.of(repo, step)
  sp = step.positional_params
  if len(sp) != 3:
    check.inconclusive('R-MASK', step, 'signature', 'expected (state, batch, mask)')
    return
  p_state, p_batch, p_mask = sp
  # user step result
  user_call = None
  for _, c in sff.calls():
    if isinstance(c.func, ast.Name) and not sff.is_local(c.func) and len(c.args) == 2 and sff.param_of(c.args[0]) == p_state and sff.param_of(c.args[1]) == p_batch:
      user_call = c
  if user_call is None:
    check.inconclusive('R-MASK', step, 'client_step(state, batch)', 'user step call not found')
    return
  st = sff.module.enclosing_stmt(user_call)
  raw = [t for t in st.targets[0].elts] if isinstance(st, ast.Assign) and isinstance(st.targets[0], ast.Tuple) else []
  rets = sff.returns()
  ok_state = ok_res = False
  why_s = why_r = 'returned value is not a where-masked tree_map of the user result'
  for _, rv in rets:
    if not (isinstance(rv, ast.Tuple) and len(rv.elts) == 2 and len(raw) == 2):
      continue
    for pos, elt in enumerate(rv.elts):
      for x in sff.expand(elt):
        if not (isinstance(x, ast.Call) and sff.ext(x.func) in TREE_MAPS):
          continue
        f = x.args[0]
        trees = x.args[1:]
        first_is_raw = bool(trees) and isinstance(trees[0], ast.Name) and sk_derives(sff, trees[0], raw[pos])
        if pos == 0:
          # where(mask, new, old)
          r = sff.resolve(f)
          part = r.kind == 'ext' and r.path in WHERE and len(r.bound_args) == 1 and sff.param_of(r.bound_args[0]) == p_mask
          lam = _where_lambda(sff, f, p_mask)
          if first_is_raw and len(trees) == 2 and sff.param_of(trees[1]) == p_state and (part or lam == 'new-old'):
            ok_state = True
          why_s = f'{txt(x)[:80]}'
        else:
          lam = _where_lambda(sff, f, p_mask)
          if first_is_raw and len(trees) == 1 and lam == 'new-zeros':
            ok_res = True
          why_r = f'{txt(x)[:80]}'
  check.ob('R-MASK.state', step, 'next_state = where(mask, new, old)', ok_state,
           f'where the batch mask is False the previous state must be kept leaf by leaf: {why_s}')
  check.ob('R-MASK.result', step, 'step_result = where(mask, r, 0)', ok_res,
           f'where the batch mask is False the step result must be zeroed: {why_r}')
  # run_block: mask passed is the batch's own mask
  bff = FuncFlow.of(repo, run_block)
  okm = False
  for _, c in bff.calls():
    rr = bff.callee(c)
    if rr.kind == 'func' and rr.func is step and len(c.args) == 3:
      loop = wmean._loop_of(bff, c)
      if isinstance(loop, ast.For):
        tg = wmean.loop_targets(loop)
        names = [t.id for t in tg if isinstance(t, ast.Name)]
        def inner_name(e):
          xs = [z.id for z in ast.walk(e) if isinstance(z, ast.Name)]
          return xs
        okm = len(names) == 2 and names[0] in inner_name(c.args[1]) and names[1] in inner_name(c.args[2]) and isinstance(
            loop.iter, ast.Attribute) and loop.iter.attr == 'masked_batches'
      check.ob('R-MASK.pairing', run_block, txt(c)[:80], okm,
               'each padded batch is stepped together with its own mask from block.masked_batches', node=c)
  # run: skipping padding clients, truncation, one yield per appended output
  rff = FuncFlow.of(repo, run)
  # the list that collects (client id, output, step results): the append whose argument is a 3-tuple
  appends = [c for _, c in rff.calls() if isinstance(c.func, ast.Attribute) and c.func.attr == 'append' and isinstance(
      c.func.value, ast.Name) and c.args and isinstance(c.args[0], ast.Tuple) and len(c.args[0].elts) == 3]
  seen_a = set()
  appends = [c for c in appends if not (id(c) in seen_a or seen_a.add(id(c)))]
  OUT = appends[0].func.value.id if appends else None
  if len(appends) != 1:
    check.inconclusive('R-MASK.skip', run, 'outputs.append', f'{len(appends)} append sites')
    return
  ap = appends[0]
  loop = wmean._loop_of(rff, ap)
  idx = loop.target.id if isinstance(loop, ast.For) and isinstance(loop.target, ast.Name) else None
  mask_name = None
  if isinstance(loop, ast.For) and isinstance(loop.target, ast.Tuple) and len(loop.target.elts) == 2 and all(
      isinstance(t, ast.Name) for t in loop.target.elts) and isinstance(loop.iter, ast.Call) and rff.ext(loop.iter.func) == 'builtins.enumerate' and \
      loop.iter.args and isinstance(loop.iter.args[0], ast.Attribute) and loop.iter.args[0].attr == 'client_mask':
    # for i, is_real in enumerate(block.client_mask)
    idx, mask_name = loop.target.elts[0].id, loop.target.elts[1].id
  if idx is None:
    for r_ in ('R-MASK.skip', 'R-MASK.id', 'R-MASK.truncate'):
      check.ob(r_, run, 'split loop over the slots of a block', None, 'the loop that splits a block into per-client outputs is not in a recognised form')
    return
  # guard: a `continue` (or enclosing if) on block.client_mask[idx]
  guarded = False
  for x in ast.walk(loop):
    if isinstance(x, ast.If):
      t = x.test
      neg = isinstance(t, ast.UnaryOp) and isinstance(t.op, ast.Not)
      core = t.operand if neg else t
      is_mask = (isinstance(core, ast.Subscript) and isinstance(core.value, ast.Attribute) and core.value.attr == 'client_mask' and isinstance(
          core.slice, ast.Name) and core.slice.id == idx) or (mask_name is not None and isinstance(core, ast.Name) and core.id == mask_name)
      if is_mask:
        if neg and any(isinstance(s, ast.Continue) for s in x.body):
          guarded = True
        if not neg and any(ap is z for s in x.body for z in ast.walk(s)):
          guarded = True
  check.ob('R-MASK.skip', run, 'if not block.client_mask[i]: continue', guarded,
           'outputs of padding clients must never be appended/yielded')
  tup = ap.args[0] if ap.args else None
  ok_id = ok_trunc = False
  if isinstance(tup, ast.Tuple) and len(tup.elts) == 3:
    e0, e1, e2 = tup.elts
    ok_id = isinstance(e0, ast.Subscript) and isinstance(e0.value, ast.Attribute) and e0.value.attr == 'client_id' and isinstance(
        e0.slice, ast.Name) and e0.slice.id == idx
    if isinstance(e2, ast.Subscript) and isinstance(e2.slice, ast.Slice) and e2.slice.lower is None and e2.slice.step is None:
      up = e2.slice.upper
      ok_trunc = isinstance(up, ast.Subscript) and isinstance(up.value, ast.Attribute) and up.value.attr == 'num_batches' and isinstance(
          up.slice, ast.Name) and up.slice.id == idx
  check.ob('R-MASK.id', run, txt(tup)[:80] if tup is not None else 'append', ok_id,
           'the output is labelled with block.client_id[i] of the same slot')
  check.ob('R-MASK.truncate', run, 'step_results[:block.num_batches[i]]', ok_trunc,
           'step results are truncated to the number of real batches of the same client')
  every = wmean._on_every_iteration(rff, loop, rff.node_of(ap)) if guarded else False
  # with a `continue` guard the append is not on *every* path; check that the only skip is the mask guard
  jumps = [x for x in ast.walk(loop) if isinstance(x, (ast.Continue, ast.Break)) and wmean._loop_of(rff, x) is loop]
  check.ob('R-YIELD1.append', run, 'one append per real client', guarded and len(jumps) <= 1 and not any(
      isinstance(j, ast.Break) for j in jumps), f'{len(jumps)} jump(s) in the split loop; only the padding guard may skip')
  # tree_map(lambda x: x[i], (p_client_output, p_step_results)) selects slot i of both
  sel_ok = False
  for _, c in rff.calls():
    if rff.ext(c.func) in TREE_MAPS and c.args and isinstance(c.args[0], ast.Lambda):
      b = c.args[0].body
      if isinstance(b, ast.Subscript) and isinstance(b.slice, ast.Name) and b.slice.id == idx and wmean._loop_of(rff, c) is loop:
        sel_ok = True
  check.ob('R-MASK.slot', run, 'lambda x: x[i]', sel_ok, 'outputs and step results are taken from the same device slot i')
  # yield loop: range(len(outputs)) pops
  ys = _yield_nodes(rff)
  seen = set()
  ys = [(n, y) for n, y in ys if not (id(y) in seen or seen.add(id(y)))]
  ok_y = False
  why = f'{len(ys)} yield sites'
  if len(ys) == 1:
    n, y = ys[0]
    yl = wmean._loop_of(rff, y)
    if isinstance(yl, ast.For) and isinstance(yl.iter, ast.Call) and rff.ext(yl.iter.func) == 'builtins.range' and yl.iter.args:
      a = yl.iter.args[0]
      cnt_ok = isinstance(a, ast.Call) and rff.ext(a.func) == 'builtins.len' and isinstance(a.args[0], ast.Name) and a.args[0].id == OUT
      pops = [c for c in ast.walk(yl) if isinstance(c, ast.Call) and isinstance(c.func, ast.Attribute) and c.func.attr == 'pop' and isinstance(
          c.func.value, ast.Name) and c.func.value.id == OUT]
      every = wmean._on_every_iteration(rff, yl, n)
      v = y.value
      shape_ok = isinstance(v, ast.Tuple) and len(v.elts) == 3
      rev = any(isinstance(c.func, ast.Attribute) and c.func.attr == 'reverse' and isinstance(c.func.value, ast.Name) and
                c.func.value.id == OUT for _, c in rff.calls())
      pop_last = len(pops) == 1 and not pops[0].args
      ok_y = cnt_ok and len(pops) == 1 and every and shape_ok and (rev == pop_last)
      why = f'count=len(outputs):{cnt_ok}, pops={len(pops)}, every-iteration={every}, 3-tuple={shape_ok}, reverse+pop() order preserved={rev == pop_last}'
    elif isinstance(yl, ast.While) and isinstance(yl.test, ast.Name) and yl.test.id == OUT:
      # while outputs: yield outputs.pop()
      pops = [c for c in ast.walk(yl) if isinstance(c, ast.Call) and isinstance(c.func, ast.Attribute) and c.func.attr == 'pop' and isinstance(
          c.func.value, ast.Name) and c.func.value.id == OUT]
      every = wmean._on_every_iteration(rff, yl, n)
      v = y.value
      shape_ok = isinstance(v, ast.Tuple) and len(v.elts) == 3
      rev = any(isinstance(c.func, ast.Attribute) and c.func.attr == 'reverse' and isinstance(c.func.value, ast.Name) and
                c.func.value.id == OUT for _, c in rff.calls())
      pop_last = len(pops) == 1 and not pops[0].args
      ok_y = len(pops) == 1 and every and shape_ok and (rev == pop_last)
      why = f'while {OUT}: pops={len(pops)}, every-iteration={every}, 3-tuple={shape_ok}, reverse+pop() order preserved={rev == pop_last}'
    else:
      ok_y = None
      why = 'the loop that yields the collected outputs is not in a recognised form'
  check.ob('R-YIELD1', run, 'yield per popped output', ok_y, why)
  # _blockify
  _blockify(check)


def sk_derives(ff: FuncFlow, e: ast.AST, target: ast.AST) -> bool:
  from fjsa.rules import skeleton as sk
  return sk.derives_from_result(ff, e, target)


def _where_lambda(ff: FuncFlow, f: ast.AST, mask: str) -> Optional[str]:
  if not isinstance(f, ast.Lambda):
    return None
  b = f.body
  if not (isinstance(b, ast.Call) and ff.ext(b.func) in WHERE and len(b.args) == 3):
    return None
  if not (isinstance(b.args[0], ast.Name) and b.args[0].id == mask):
    return None
  ps = [a.arg for a in f.args.args]
  x, y = b.args[1], b.args[2]
  if isinstance(x, ast.Name) and x.id == ps[0]:
    if isinstance(y, ast.Call) and ff.ext(y.func) in ('jax.numpy.zeros_like', 'numpy.zeros_like') and isinstance(
        y.args[0], ast.Name) and y.args[0].id == ps[0]:
      return 'new-zeros'
    if len(ps) == 2 and isinstance(y, ast.Name) and y.id == ps[1]:
      return 'new-old'
  return None


def _blockify(check: Check):
  repo = check.repo
  fi = repo.func(MOD, '_blockify')
  ff = FuncFlow.of(repo, fi)
  check.analysed(fi)
  # ---- roles from the ClientBlock(...) constructor that is yielded
  ctor = None
  for _, y in ff.yields():
    if isinstance(y.value, ast.Call) and ff.callee(y.value).kind == 'class':
      ctor = y.value
  if ctor is None:
    check.inconclusive('R-MASK.blockify', fi, 'yield ClientBlock(...)', 'block constructor not found')
    return
  fields = [f for f, _, _ in ff.callee(ctor).cls.fields]
  kw = call_args(ctor, fields)
  def name_of(field):
    v = kw.get(field)
    return v.id if isinstance(v, ast.Name) else None
  M, NB, MB = name_of('client_mask'), name_of('num_batches'), name_of('masked_batches')
  BLK = None
  cid = kw.get('client_id')
  if isinstance(cid, ast.ListComp) and isinstance(cid.generators[0].iter, ast.Name):
    BLK = cid.generators[0].iter.id
  ok_ctor = all([M, NB, MB, BLK]) and isinstance(kw.get('client_input'), ast.ListComp) and txt(kw['client_input'].generators[0].iter) == BLK
  check.ob('R-MASK.blockify-ctor', fi, txt(ctor)[:90], ok_ctor,
           'the block carries the client ids / inputs of the padded client list and the masks and counts computed for it')
  _padding_templates(check, fi, ff)
  # the block's first client is used as the longest one (num_batches[0]): the descending sort by batch count is unconditional
  sorts = [(n, c) for n, c in ff.calls() if isinstance(c.func, ast.Attribute) and c.func.attr == 'sort'] + [
      (n, c) for n, c in ff.calls() if ff.ext(c.func) == 'builtins.sorted']
  uses_first = any(isinstance(x, ast.Subscript) and isinstance(x.value, ast.Name) and x.value.id == NB and txt(x.slice) == '0'
                   for nd in ff.cfg.nodes if nd.ast is not None for x in nd.walk()) if NB else False
  if uses_first:
    ok_sort = False
    for n, c in sorts:
      desc = any(k.arg == 'reverse' and isinstance(k.value, ast.Constant) and k.value.value is True for k in c.keywords)
      by_len = any(k.arg == 'key' and any(isinstance(y, ast.Call) and ff.ext(y.func) == 'builtins.len' for y in ast.walk(k.value)) for k in c.keywords)
      uncond = not guards_of(ff, c, implied=False) and wmean._loop_of(ff, c) is None
      ok_sort = ok_sort or (desc and by_len and uncond)
    check.ob('R-MASK.blockify-max', fi, f'{NB}[0] is the maximum', ok_sort,
             f'`{NB}[0]` is taken as the largest batch count of the block: that needs an unconditional descending sort of the clients by '
             'batch count (a block whose first client is not the longest silently drops the extra batches of the others)')
  # client ids are only required to be hashable: a sort key that contains the id compares ids of equal-length clients (TypeError
  # for ids of different types, and a different block layout than the other backends' order)
  for n, c in sorts:
    for k in c.keywords:
      if k.arg == 'key' and isinstance(k.value, ast.Lambda) and k.value.args.args:
        a = k.value.args.args[0].arg
        bad = [x for x in ast.walk(k.value.body) if isinstance(x, ast.Subscript) and isinstance(x.value, ast.Name) and x.value.id == a and txt(
            x.slice) in ('0', '-3')] + [x for x in ast.walk(k.value.body) if isinstance(x, ast.Name) and x.id == a and not isinstance(
                fi.module.parent_of.get(x), ast.Subscript)]
        check.ob('R-MASK.blockify-key', fi, txt(k.value)[:70], not bad,
                 'clients are ordered by their batch count only: the client id must not be part of the sort key (ids need not be orderable)',
                 node=c, exact=True)
  if not ok_ctor:
    return

  def appends(name):
    out, seen = [], set()
    for _, c in ff.calls():
      if isinstance(c.func, ast.Attribute) and c.func.attr == 'append' and isinstance(c.func.value, ast.Name) and c.func.value.id == name and c.args:
        if id(c) not in seen:
          seen.add(id(c))
          out.append(c)
    return out
  # ---- client level
  blk, cm = appends(BLK), appends(M)
  ok_c = False
  if len(blk) == 1 and len(cm) == 1:
    same_body = ff.module.parent_of.get(ff.module.enclosing_stmt(blk[0])) is ff.module.parent_of.get(ff.module.enclosing_stmt(cm[0]))
    is_false = isinstance(cm[0].args[0], ast.Constant) and cm[0].args[0].value is False
    pad = blk[0].args[0]
    pad_ok = isinstance(pad, ast.Tuple) and len(pad.elts) == 3 and isinstance(pad.elts[0], ast.Constant) and pad.elts[0].value is None and isinstance(
        pad.elts[1], ast.List) and not pad.elts[1].elts
    ok_c = same_body and is_false and pad_ok
  init_ok = False
  for ds in ff.rd.defs_at.values():
    for d in ds:
      if d.name == M and d.kind == 'assign' and isinstance(d.value, ast.ListComp):
        e = d.value
        init_ok = isinstance(e.elt, ast.Constant) and e.elt.value is True and isinstance(e.generators[0].iter, ast.Name) and e.generators[0].iter.id == BLK
  check.ob('R-MASK.blockify-clients', fi, f'{BLK}.append(padding) / {M}.append(False)', ok_c and init_ok,
           f'real clients are marked True (ok={init_ok}); every padding client (id None, no batches) is appended together '
           f'with a False mask entry (ok={ok_c})')
  # ---- batch level: MB.append((BB, BM))
  mb = appends(MB)
  BB = BM = None
  if len(mb) == 1 and isinstance(mb[0].args[0], ast.Tuple) and len(mb[0].args[0].elts) == 2 and all(
      isinstance(e, ast.Name) for e in mb[0].args[0].elts):
    BB, BM = (e.id for e in mb[0].args[0].elts)
  bb, bm = (appends(BB), appends(BM)) if BB and BM else ([], [])
  ok_b = False
  why = f'{len(bb)} batch appends / {len(bm)} mask appends'
  if len(bb) == 2 and len(bm) == 2:
    arms = {}
    for c in bb + bm:
      g = guards_of(ff, c)
      if not g:
        continue
      test, pol = g[0]
      arms.setdefault((ast.dump(test), pol), []).append(c)
    ok_arms = len(arms) == 2 and all(len(v) == 2 for v in arms.values())
    good = 0
    for (td, pol), cs in arms.items():
      test = guards_of(ff, cs[0])[0][0]
      real = _is_real_batch_test(test, pol)
      bcall = next((c for c in cs if c.func.value.id == BB), None)
      mcall = next((c for c in cs if c.func.value.id == BM), None)
      if bcall is None or mcall is None or real is None:
        continue
      mv = mcall.args[0]
      if real and isinstance(mv, ast.Constant) and mv.value is True and isinstance(bcall.args[0], ast.Subscript):
        good += 1
      if (not real) and isinstance(mv, ast.Constant) and mv.value is False and isinstance(bcall.args[0], ast.Name):
        good += 1
    ok_b = ok_arms and good == 2
    why = f'arms={len(arms)}, consistent arms={good}'
  check.ob('R-MASK.blockify-batches', fi, 'batches.append(real|padding) / mask.append(True|False)', ok_b,
           f'a real batch (j < len(batches)) is stored with True, a padding batch with False, one pair per client slot: {why}')
  # ---- counts
  ok_n = False
  for ds in ff.rd.defs_at.values():
    for d in ds:
      if d.name == NB and isinstance(d.value, ast.ListComp):
        e = d.value
        ok_n = isinstance(e.elt, ast.Call) and ff.ext(e.elt.func) == 'builtins.len' and isinstance(e.generators[0].iter, ast.Name) and e.generators[0].iter.id == BLK
        padn = ff.node_of(blk[0]) if blk else None
        if padn is not None and not ff.cfg.reaches(padn, d.node):
          ok_n = False
  sort_desc = False
  for _, c in ff.calls():
    if isinstance(c.func, ast.Attribute) and c.func.attr == 'sort':
      rev = next((k.value for k in c.keywords if k.arg == 'reverse'), None)
      sort_desc = isinstance(rev, ast.Constant) and rev.value is True
  # the loop bound of the batch loop: range(X)
  uses_first = uses_max = False
  for n in ff.cfg.nodes:
    if n.kind == 'for' and isinstance(n.ast.iter, ast.Call) and ff.ext(n.ast.iter.func) == 'builtins.range' and len(n.ast.iter.args) == 1 and isinstance(
        n.ast.iter.args[0], ast.Name) and any(c in [x for x in ast.walk(n.ast) if isinstance(x, ast.Call)] for c in mb):
      for d in ff.defs_for(n.ast.iter.args[0]):
        v = d.value
        if isinstance(v, ast.Subscript) and isinstance(v.value, ast.Name) and v.value.id == NB and isinstance(v.slice, ast.Constant) and v.slice.value == 0:
          uses_first = True
        if isinstance(v, ast.Call) and ff.ext(v.func) == 'builtins.max':
          uses_max = True
  check.ob('R-MASK.blockify-counts', fi, f'{NB} / block length', ok_n and (uses_max or (uses_first and sort_desc)),
           f'{NB} counts real batches of every slot after client padding (ok={ok_n}); the block length is the maximum '
           f'(first element of a descending sort: {uses_first and sort_desc}; max(): {uses_max})')


ZEROS_LIKE = {'jax.numpy.zeros_like', 'numpy.zeros_like'}
ZEROS = {'jax.numpy.zeros', 'numpy.zeros', 'jax.numpy.full', 'numpy.full', 'jax.numpy.empty', 'numpy.empty'}


def _padding_templates(check: Check, fi: FuncInfo, ff: FuncFlow):
  """Padding values keep the dtype of what they pad (they are stacked with real values); templates are only taken from a
  non-empty collection."""
  n = 0
  for _, c in ff.calls():
    if ff.ext(c.func) not in ('jax.tree_util.tree_map', 'jax.tree_map') or len(c.args) != 2:
      continue
    f = c.args[0]
    verdict = None
    if ff.ext(f) in ZEROS_LIKE:
      verdict = True
    elif isinstance(f, ast.Lambda) and len(f.args.args) == 1:
      p = f.args.args[0].arg
      b = f.body
      if isinstance(b, ast.Call) and ff.ext(b.func) in ZEROS_LIKE and b.args and isinstance(b.args[0], ast.Name) and b.args[0].id == p:
        verdict = True
      elif isinstance(b, ast.Call) and ff.ext(b.func) in ZEROS:
        dt = [k.value for k in b.keywords if k.arg == 'dtype'] + list(b.args[1:2] if ff.ext(b.func).endswith(('zeros', 'empty')) else b.args[2:3])
        verdict = any(isinstance(x, ast.Attribute) and x.attr == 'dtype' and isinstance(x.value, ast.Name) and x.value.id == p
                      for d in dt for x in ast.walk(d))
    if verdict is None:
      continue
    n += 1
    check.ob('R-MASK.pad-dtype', fi, txt(c)[:80], verdict,
             'a padding value is stacked with the real values of the block: it must have the template\'s dtype (zeros_like), otherwise '
             'integer batches are silently promoted to float on the pmap backend only', node=c)
  check.floor('R-MASK.pad-dtype', 'padding templates in _blockify', n, 1)
  # [0] / [-1] on the client list itself needs a non-empty list: inside the per-block loop or under a guard
  p0 = fi.positional_params[0]
  def is_clients(e):
    if not isinstance(e, ast.Name):
      return False
    if ff.param_of(e) == p0:
      return True
    for d in ff.defs_for(e):
      v = d.value
      if v is not None and any(isinstance(x, ast.Name) and x.id == p0 for x in ast.walk(v)) and isinstance(v, (ast.ListComp, ast.Call)):
        return True
    return False
  for nd in ff.cfg.nodes:
    if nd.ast is None:
      continue
    for x in nd.walk():
      if isinstance(x, ast.Subscript) and isinstance(x.slice, (ast.Constant, ast.UnaryOp)) and is_clients(x.value):
        try:
          idx = ast.literal_eval(x.slice)
        except Exception:  # pylint: disable=broad-except
          continue
        if not isinstance(idx, int):
          continue
        lp = wmean._loop_of(ff, x)
        in_block_loop = False
        while lp is not None:
          if isinstance(lp, ast.For) and any(isinstance(y, ast.Call) and ff.ext(y.func) == 'builtins.len' and y.args and is_clients(y.args[0])
                                             for y in ast.walk(lp.iter)):
            in_block_loop = True
          if isinstance(lp, ast.For) and is_clients(lp.iter):
            in_block_loop = True
          lp = wmean._loop_of(ff, lp)
        guarded = any(pol and any(is_clients(y) for y in ast.walk(t)) for t, pol in guards_of(ff, x))
        check.ob('R-EMPTY', fi, txt(x), in_block_loop or guarded,
                 f'`{txt(x)}` needs at least one client: outside the per-block loop and without an emptiness guard, an empty client '
                 'collection raises IndexError on this backend only', node=x)


def _is_real_batch_test(test: ast.AST, pol: bool) -> Optional[bool]:
  """`j < len(batches)` (real batch when true)."""
  if isinstance(test, ast.Compare) and len(test.ops) == 1 and isinstance(test.comparators[0], ast.Call):
    c = test.comparators[0]
    if isinstance(c.func, ast.Name) and c.func.id == 'len':
      if isinstance(test.ops[0], ast.Lt):
        return pol
      if isinstance(test.ops[0], ast.GtE):
        return not pol
  return None


def _wrapper(check: Check):
  repo = check.repo
  fi = repo.func(MOD, 'for_each_client')
  ff = FuncFlow.of(repo, fi)
  check.analysed(fi)
  run = fi.nested('run')
  wrap = fi.nested('client_step_with_result')
  rff = FuncFlow.of(repo, run)
  ys = _yield_nodes(rff)
  ok = False
  if len(ys) == 1:
    n, y = ys[0]
    loop = wmean._loop_of(rff, y)
    if isinstance(loop, ast.For):
      tg = wmean.loop_targets(loop)
      v = y.value
      ok = (len(tg) == 3 and isinstance(v, ast.Tuple) and len(v.elts) == 2 and all(
          isinstance(a, ast.Name) and isinstance(b, ast.Name) and a.id == b.id for a, b in zip(v.elts, tg[:2])) and
            wmean._on_every_iteration(rff, loop, n))
  check.ob('R-YIELD1.wrapper', run, 'yield client_id, client_output', ok,
           'without step results the wrapper yields the first two components of every backend triple, once each')
  wff = FuncFlow.of(repo, wrap)
  okw = False
  for _, rv in wff.returns():
    if isinstance(rv, ast.Tuple) and len(rv.elts) == 2 and isinstance(rv.elts[0], ast.Call) and isinstance(rv.elts[1], ast.Tuple) and not rv.elts[1].elts:
      c = rv.elts[0]
      okw = isinstance(c.func, ast.Name) and c.func.id == 'client_step' and [wff.param_of(a) for a in c.args] == wrap.positional_params[:2]
  check.ob('R-YIELD1.wrapper', wrap, 'return client_step(state, batch), ()', okw,
           'the wrapped step returns the user step\'s state unchanged plus an empty step result')
  # both arms use the selected backend with the same three functions
  bcalls = [c for _, c in ff.calls() if isinstance(c.func, ast.Name) and ff.is_local(c.func) and len(c.args) == 3]
  ok_arms = len(bcalls) == 2 and all(ff.param_of(c.args[0]) == 'client_init' and ff.param_of(c.args[2]) == 'client_final' for c in bcalls)
  check.ob('R-SIB.backend-call', fi, 'backend(client_init, step, client_final)', ok_arms,
           'both with_step_result arms hand the same init/final to the selected backend')


def _scope(check: Check):
  repo = check.repo
  m = repo.module(MOD)
  cm = repo.func(MOD, 'for_each_client_backend')
  ff = FuncFlow.of(repo, cm)
  check.analysed(cm)
  setter = repo.func(MOD, 'set_for_each_client_backend')
  tries = [n.ast for n in ff.cfg.nodes if n.kind == 'try']
  ys = _yield_nodes(ff)
  ok = False
  why = ''
  if len(tries) == 1 and len(ys) == 1 and tries[0].finalbody:
    t = tries[0]
    y_in_try = any(ys[0][1] is z for s in t.body for z in ast.walk(s))
    # saved value: read of _BACKEND_CHOICE.backend before the try
    saved = None
    for nid, ds in ff.rd.defs_at.items():
      for d in ds:
        if d.kind == 'assign' and isinstance(d.value, ast.Attribute) and d.value.attr == 'backend' and d.node.lineno < t.lineno:
          saved = d
    restore_ok = False
    for s in t.finalbody:
      for c in ast.walk(s):
        if isinstance(c, ast.Call):
          r = ff.callee(c)
          if r.kind == 'func' and r.func is setter and c.args and isinstance(c.args[0], ast.Name) and saved is not None and c.args[0].id == saved.name:
            restore_ok = True
    # no rebinding of the saved name inside try
    rebound = saved is not None and sum(1 for ds in ff.rd.defs_at.values() for d in ds if d.name == saved.name) > 1
    # on every path from the yield (normal or exceptional) to an exit the restore runs: finally guarantees it
    set_in_try = any(isinstance(c, ast.Call) and ff.callee(c).kind == 'func' and ff.callee(c).func is setter
                     for s in t.body for c in ast.walk(s))
    ok = y_in_try and saved is not None and restore_ok and not rebound and set_in_try
    why = f'yield in try={y_in_try}, old value saved before try={saved is not None}, finally restores it={restore_ok}, setter called inside try={set_in_try}'
  check.ob('R-SCOPE.restore', cm, 'old = ...; try: set(new); yield; finally: set(old)', ok,
           f'the previous backend must be restored on every exit, including an exception thrown into the generator: {why}')
  # the setter selects (or raises) for every argument value: no normal path leaves without storing the choice - in particular
  # set(None), which the context manager uses to restore "no selection", must reset
  sff = FuncFlow.of(repo, setter)
  check.analysed(setter)
  store_nodes = {n.id for n in sff.cfg.nodes if n.ast is not None and any(
      isinstance(x, ast.Attribute) and x.attr == 'backend' and isinstance(x.ctx, ast.Store) for x in n.walk())}
  reach = sff.cfg.reachable_from([sff.cfg.entry], avoid=store_nodes, labels_excluded=('exc', 'raise', 'reraise'))
  skipping = sff.cfg.exit.id in reach
  check.ob('R-SCOPE.set', setter, 'every normal path stores _BACKEND_CHOICE.backend', bool(store_nodes) and not skipping,
           'the setter either stores the requested backend or raises; a path that returns without storing (e.g. for None) leaves the '
           'previous selection in place, so leaving a `with for_each_client_backend(...)` block would not restore the default')
  # the documented table, decided per case of the argument: None / a backend object -> stored as given; 'debug' | 'jit' | 'pmap' -> a new
  # backend of that kind
  from fjsa.rules import cases
  bp = setter.positional_params[0]
  WANT = {'debug': 'ForEachClientDebugBackend', 'jit': 'ForEachClientJitBackend', 'pmap': 'ForEachClientPmapBackend'}
  table_ok = True
  table = []
  for case in (None, 'obj', 'debug', 'jit', 'pmap'):
    def decide(t, case=case):
      if isinstance(t, ast.BoolOp):
        rs = [decide(v) for v in t.values]
        if isinstance(t.op, ast.And):
          return False if any(r is False for r in rs) else (None if any(r is None for r in rs) else True)
        return True if any(r is True for r in rs) else (None if any(r is None for r in rs) else False)
      if isinstance(t, ast.UnaryOp) and isinstance(t.op, ast.Not):
        r = decide(t.operand)
        return None if r is None else not r
      if isinstance(t, ast.Compare) and len(t.ops) == 1 and isinstance(t.left, ast.Name) and t.left.id == bp:
        c0 = t.comparators[0]
        if isinstance(t.ops[0], (ast.Is, ast.IsNot)) and isinstance(c0, ast.Constant) and c0.value is None:
          return (case is None) == isinstance(t.ops[0], ast.Is)
        if isinstance(t.ops[0], (ast.Eq, ast.NotEq)) and isinstance(c0, ast.Constant) and isinstance(c0.value, str):
          return (case == c0.value) == isinstance(t.ops[0], ast.Eq)
        if isinstance(t.ops[0], (ast.In, ast.NotIn)) and isinstance(c0, (ast.Tuple, ast.List, ast.Set)) and all(isinstance(e, ast.Constant) for e in c0.elts):
          return (case in [e.value for e in c0.elts]) == isinstance(t.ops[0], ast.In)
      if isinstance(t, ast.Call) and sff.ext(t.func) == 'builtins.isinstance' and len(t.args) == 2 and isinstance(t.args[0], ast.Name) and t.args[0].id == bp:
        if txt(t.args[1]).endswith('ForEachClientBackend'):
          return case == 'obj'
        if txt(t.args[1]) == 'str':
          return case in WANT
      return None
    env, _ = cases.evaluate(setter.node.body, {}, decide)
    got = None if env is cases.UNKNOWN else next((v for k, v in env.items() if k.endswith('.backend')), None)
    if got is None:
      table_ok = None if table_ok else table_ok
      table.append(f'{case}: ?')
      continue
    if case in (None, 'obj'):
      good = isinstance(got, ast.Name) and got.id == bp
    else:
      good = isinstance(got, ast.Call) and txt(got.func).split('.')[-1] == WANT[case]
    table.append(f'{case}: {txt(got)[:40]}')
    if not good:
      table_ok = False
  check.ob('R-SCOPE.table', setter, "None / object -> as given; 'debug' / 'jit' / 'pmap' -> that backend", table_ok,
           'the setter stores the backend its argument names: ' + '; '.join(table))
  # thread local
  bc = repo.cls(MOD, 'BackendChoice')
  tl = any(r.kind == 'ext' and r.path == 'threading.local' for r in repo.class_bases(bc))
  inst = repo._resolve_bindings(m.scope, '_BACKEND_CHOICE')
  inst_ok = inst.kind == 'local' and len(inst.bindings) == 1 and isinstance(inst.bindings[0].value, ast.Call) and repo.resolve(
      m.scope, inst.bindings[0].value.func).kind == 'class' and repo.resolve(m.scope, inst.bindings[0].value.func).cls is bc
  check.ob('R-SCOPE.thread-local', bc, 'class BackendChoice(threading.local)', tl and inst_ok,
           f'the selection is per thread (derives from threading.local: {tl}; _BACKEND_CHOICE is an instance: {inst_ok})')
  # __init__ calls super().__init__ and initialises backend to None (per-thread default)
  init = bc.methods.get('__init__')
  ok_init = False
  if init is not None:
    ok_init = any(isinstance(s, ast.Assign) and isinstance(s.targets[0], ast.Attribute) and s.targets[0].attr == 'backend' and isinstance(
        s.value, ast.Constant) and s.value.value is None for s in init.node.body)
  check.ob('R-SCOPE.thread-local', bc, '__init__: self.backend = None', ok_init,
           'a new thread starts from the default (None), not from another thread\'s selection')
  # who may write .backend
  writers = []
  for mod in repo.modules.values():
    for node in ast.walk(mod.tree):
      if isinstance(node, ast.Attribute) and node.attr == 'backend' and isinstance(node.ctx, (ast.Store, ast.Del)):
        fi = mod.enclosing_func(node)
        writers.append((mod, fi, node))
  allowed = {'set_for_each_client_backend', 'BackendChoice.__init__', 'BackendChoice.get'}
  bad = [(mod, fi, n) for mod, fi, n in writers if not (mod is m and fi is not None and fi.qualname in allowed)]
  for mod, fi, n in bad:
    check.ob('R-SCOPE.who-may-write', fi or mod, txt(n), False,
             'the backend selection is written outside the setter/BackendChoice: the context manager cannot restore it',
             node=n, advisory=mod.name.split('.')[0] != 'fedjax')
  check.ob('R-SCOPE.who-may-write', m, f'{len(writers)} writers of .backend', not bad,
           'only set_for_each_client_backend and BackendChoice.{__init__,get} write the selection', nontrivial=True)
  check.floor('R-SCOPE', 'writers of .backend', len(writers), 5)
  # getter consults the thread-local
  g = repo.func(MOD, 'for_each_client')
  gff = FuncFlow.of(repo, g)
  uses_getter = any(gff.callee(c).kind == 'func' and gff.callee(c).func.name == 'get_for_each_client_backend' for _, c in gff.calls())
  check.ob('R-SCOPE.lookup', g, 'get_for_each_client_backend()', uses_getter,
           'for_each_client must consult the current thread\'s selection each time it is called')


def _backend_runs(check: Check):
  """Every backend's `run` generator: (1) in the loop over the clients every iteration reaches a yield - no client is skipped (an empty
  client still gets final(init(...))); (2) `run` keeps nothing between calls: it does not mutate or rebind a variable of the enclosing
  __call__ (a scratch list or a cache hoisted out of `run` is shared by every invocation and by interleaved generators)."""
  repo = check.repo
  from fjsa.rules.pure import PurityAnalysis
  pa = PurityAnalysis(repo)
  for cname in ('ForEachClientDebugBackend', 'ForEachClientJitBackend', 'ForEachClientPmapBackend'):
    call = repo.func(MOD, f'{cname}.__call__')
    run = call.nested('run')
    ff = FuncFlow.of(repo, run)
    check.analysed(run)
    clients_p = run.positional_params[1] if len(run.positional_params) > 1 else None
    for n in ff.cfg.nodes:
      if n.kind != 'for' or clients_p is None or ff.param_of(n.ast.iter) != clients_p:
        continue
      ys = [x for x in ast.walk(n.ast) if isinstance(x, (ast.Yield, ast.YieldFrom))]
      if not ys:
        continue   # the pmap backend yields from a later loop over blocks
      jumps = [x for x in ast.walk(n.ast) if isinstance(x, ast.Continue) and wmean._loop_of(ff, x) is n.ast]
      check.ob('R-YIELD1.every', run, f'for ... in {clients_p}', not jumps,
               'every client yields a result: no `continue` skips a client (one without batches still gets final(init(shared, input)))',
               node=jumps[0] if jumps else n.ast, exact=True)
    for fn_ in (call, run):
      fff_ = FuncFlow.of(repo, fn_)
      for _, c_ in fff_.calls():
        if (fff_.ext(c_.func) or '') in ('builtins.id', 'builtins.hash'):
          check.ob('R-PURE.backend-state', fn_, txt(c_)[:40], False,
                   'object identity is used as a key: a freed object and a new one can share an address, so something remembered under '
                   'id(x) is handed to a different x', node=c_, exact=True)
      for x_ in ast.walk(fn_.node):
        if isinstance(x_, ast.Attribute) and isinstance(x_.ctx, ast.Store) and isinstance(x_.value, ast.Name) and x_.value.id == 'self':
          check.ob('R-PURE.backend-state', fn_, txt(x_), False,
                   'the backend object is written while it is called: what one call stores is seen by every later call of every '
                   'for_each_client function that uses this backend', node=x_, exact=True)
    outer_locals = {name for name, bs in call.scope.bindings.items() if not any(b.kind == 'param' for b in bs)}
    for mu in pa.mutations(run):
      root = mu.root
      if root.startswith('<captured:') and root[len('<captured:'):-1] in outer_locals:
        check.ob('R-PURE.backend-state', run, mu.construct, False,
                 f'{mu.how}: `{root[len("<captured:"):-1]}` lives in the enclosing __call__, i.e. as long as the compiled for_each_client '
                 'function: what one call (or one abandoned generator) leaves there is seen by the next', node=mu.node, exact=True)

