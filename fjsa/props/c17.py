"""C17 - algorithm-specific invariants hold along every training history (structural part)."""
from __future__ import annotations

import ast
from typing import List, Optional

from fjsa.flow import FuncFlow, call_args, guards_of, lt_form, same, txt
from fjsa.model import FuncInfo
from fjsa.report import Check
from fjsa.rules import api, entries, roundcheck, wmean
from fjsa.rules import skeleton as sk
from fjsa.rules.div import DivAnalysis
from fjsa.rules.pure import PurityAnalysis

ALG = 'fedjax.algorithms'


def run(check: Check):
  repo = check.repo
  check.rule('R-CLIP01', 'APFL: the interpolation coefficients stored in the next client state pass jnp.clip(., 0, 1) after '
             'the optimizer update on every path; the clip call is valid for the installed jax (R-API)')
  check.rule('R-PARTICIPANT', 'APFL: client state is written only under the id of a client yielded by the training generator, '
             'into a copy of the state table')
  check.rule('R-CLIPNORM', 'MimeLite: when a clip norm is configured, the tree that is weighted and summed is the result of '
             'tree_clip_by_global_norm(delta, clip_norm)')
  check.rule('R-SIMPLEX', 'AgnosticFedAvg: exponentiated-gradient update renormalises a non-negative vector by its own sum; '
             'the domain window is shifted by window[1:] + [newest]; R-DIV reports unguarded data-dependent divisions')
  check.rule('R-HYP', 'HypCluster: argmin assignment; empty cluster keeps (opt_state, params); per-cluster index pairing')
  check.rule('R-IGNORE', 'ignore_grads_haiku: the same name filter is applied to grads and params before the base optimizer and '
             'every ignored parameter is restored from the *input* params into a fresh mutable copy')
  check.undecided('the invariants as predicates on values along multi-round histories (simplex membership, coefficient range, '
                  'norm bounds, bit-identity) - only their structural necessary conditions are decided')
  _apfl(check)
  _mime_lite(check)
  _agnostic(check)
  _hyp(check)
  _ignore_grads(check)


def _apfl(check: Check):
  repo = check.repo
  m = repo.module(f'{ALG}.apfl')
  builder = repo.func(f'{ALG}.apfl', 'create_train_for_each_client')
  step = builder.nested('client_step')
  ff = FuncFlow.of(repo, step)
  check.analysed(step)
  # returned record -> 'state': ClientState(..., interpolation_coefficients=X)
  ret = sk.returned_record(ff)
  ok_clip = False
  why = 'next state not recognised'
  if ret is not None:
    fields, _ = ret
    for v in ff.expand(fields.get('state')) if 'state' in fields else []:
      if isinstance(v, ast.Call) and ff.callee(v).kind == 'class':
        cf = [f for f, _, _ in ff.callee(v).cls.fields]
        b = call_args(v, cf)
        x = b.get('interpolation_coefficients')
        if isinstance(x, ast.Name):
          ds = ff.defs_for(x)
          ok_all = bool(ds)
          for d in ds:
            val = d.value
            good = False
            if isinstance(val, ast.Call) and ff.ext(val.func) in wmean.TREE_MAPS and len(val.args) == 2:
              good = _is_clip01(ff, val.args[0]) and _from_opt_result(ff, val.args[1])
            ok_all = ok_all and good
          ok_clip = ok_all
          why = f'{x.id} defined by {[txt(d.value)[:60] for d in ds]}'
  check.ob('R-CLIP01', step, 'interpolation_coefficients = tree_map(clip(., 0, 1), <optimizer result>)', ok_clip,
           f'every path stores coefficients that were clipped to [0, 1] after the optimizer step: {why}')
  # R-API on apfl.py (the clip call must be valid)
  st = api.ApiStats()
  issues = api.check_module(repo, m, st)
  for i in issues:
    check.ob('R-API', i.fi or m, i.construct, False, i.detail, node=i.node)
  if not issues:
    check.ob('R-API', m, f'{st.chains} third-party attribute chains, {st.calls_with_keywords} keyword calls', True,
             'all resolve in the installed packages')
  # participants only
  algs = entries.find_algorithms(repo, [m])
  for a in algs:
    fi = a.apply
    aff = FuncFlow.of(repo, fi)
    check.analysed(fi)
    stores = []
    for n in aff.cfg.nodes:
      if n.kind == 'stmt' and isinstance(n.ast, ast.Assign):
        t = n.ast.targets[0]
        if isinstance(t, ast.Subscript) and 'client_states' in txt(t.value):
          stores.append((n, n.ast, t))
    check.floor('R-PARTICIPANT', 'client state stores', len(stores), 1)
    triples = entries.find_triples(repo, [m])
    for n, st_, t in stores:
      loop = wmean._loop_of(aff, st_)
      ok = False
      why = 'store is not inside the loop over the training generator'
      if isinstance(loop, ast.For) and isinstance(loop.iter, ast.Call):
        tr = entries.triple_for_callee(repo, aff, loop.iter, triples)
        tg = wmean.loop_targets(loop)
        key_ok = isinstance(t.slice, ast.Name) and isinstance(tg[0], ast.Name) and t.slice.id == tg[0].id
        okv, whyv = wmean.derives_from_loop_elem(aff, st_.value, loop, 1, allow_clip=False)
        ok = tr is not None and key_ok and okv
        why = f'generator={tr.name if tr else None}, keyed by the yielded id={key_ok}, value from that client\'s output={okv}'
      check.ob('R-PARTICIPANT', fi, txt(st_)[:80], ok, why, node=st_)
      # table is a copy of the incoming table
      base = t.value
      copy_ok = False
      if isinstance(base, ast.Name):
        for d in aff.defs_for(base):
          v = d.value
          if isinstance(v, ast.Call) and aff.ext(v.func) == 'builtins.dict' and v.args and 'client_states' in txt(v.args[0]):
            copy_ok = True
          if isinstance(v, ast.Dict) and any(k is None for k in v.keys):
            copy_ok = True
      check.ob('R-PARTICIPANT.copy', fi, f'{txt(base)} = dict(server_state.client_states)', copy_ok,
               'non-participants keep their stored state: the new table starts as a copy of the previous one', node=st_)
    # nothing else in the module writes into a state table it was given (evaluation included): entries for clients that never
    # trained must not appear as a side effect
    from fjsa.rules.pure import PurityAnalysis
    pa_ = PurityAnalysis(repo)
    n_mut = 0
    for g in m.functions():
      for mu in pa_.mutations(g):
        if mu.root in g.params or mu.root.startswith('<'):
          holder = g
          sc_ = g.scope.parent
          captured = False
          while sc_ is not None and sc_.kind == 'function':
            captured = captured or mu.root in m.funcs_by_node[sc_.node].params
            sc_ = sc_.parent
          if 'client_states' in mu.construct or mu.root in g.params:
            n_mut += 1
            check.ob('R-PARTICIPANT.table', g, mu.construct[:80], False,
                     f'{mu.how} ({mu.root}): the client-state table of the state passed in is changed in place - clients that did not '
                     'take part in a training round get or lose entries', node=mu.node)
    check.ob('R-PARTICIPANT.table', fi, 'no in-place write to a state table passed in (all functions of the module)', n_mut == 0,
             'state tables change only through the copy made in the round', nontrivial=False)
    # default state for unseen clients: coefficients = client_coefficient everywhere
    okd = False
    for _, c in aff.calls():
      if aff.callee(c).kind == 'class' and aff.callee(c).cls.name == 'ClientState':
        b = call_args(c, [f for f, _, _ in aff.callee(c).cls.fields])
        ic = b.get('interpolation_coefficients')
        if isinstance(ic, ast.Call) and aff.ext(ic.func) in wmean.TREE_MAPS and isinstance(ic.args[0], ast.Lambda) and txt(
            ic.args[0].body) == 'client_coefficient':
          okd = True
    check.ob('R-CLIP01.init', fi, 'default coefficients = client_coefficient', okd,
             'a new participant starts from the configured coefficient for every leaf')


def _is_clip01(ff: FuncFlow, f: ast.AST) -> bool:
  if isinstance(f, ast.Lambda) and isinstance(f.body, ast.Call) and ff.ext(f.body.func) == 'jax.numpy.clip':
    a = f.body.args
    kw = {k.arg: k.value for k in f.body.keywords}
    lo = a[1] if len(a) > 1 else kw.get('min', kw.get('a_min'))
    hi = a[2] if len(a) > 2 else kw.get('max', kw.get('a_max'))
    return isinstance(lo, ast.Constant) and lo.value == 0 and isinstance(hi, ast.Constant) and hi.value == 1
  r = ff.resolve(f)
  if r.kind == 'ext' and r.path == 'jax.numpy.clip':
    vals = list(r.bound_args) + [None, None]
    kw = r.bound_kwargs
    lo = kw.get('min', kw.get('a_min', vals[0]))
    hi = kw.get('max', kw.get('a_max', vals[1]))
    return isinstance(lo, ast.Constant) and lo.value == 0 and isinstance(hi, ast.Constant) and hi.value == 1
  return False


def _from_opt_result(ff: FuncFlow, e: ast.AST) -> bool:
  if not isinstance(e, ast.Name):
    return False
  for d in ff.defs_for(e):
    v = d.value
    if not (d.index == (1,) and isinstance(v, ast.Call) and isinstance(v.func, ast.Attribute) and v.func.attr == 'apply' and
            sk.is_optimizer_receiver(ff, v.func.value)):
      return False
  return bool(ff.defs_for(e))


def _mime_lite(check: Check):
  repo = check.repo
  m = repo.module(f'{ALG}.mime_lite')
  algs = entries.find_algorithms(repo, [m])
  triples = entries.find_triples(repo, entries.modules_under(repo, ALG))
  for a in algs:
    fi = a.apply
    ff = FuncFlow.of(repo, fi)
    check.analysed(fi)
    for inv in roundcheck.inv_calls(ff):
      lm = wmean.analyse_loop_mean(ff, inv)
      for kind, text, node in lm.problems:
        # the clipped deltas are averaged with the weights they were added with (shared with C12)
        check.ob(f'R-WMEAN.{kind}', fi, txt(inv)[:90], False, text, node=node)
      if lm.unrecognised or lm.loop is None or lm.x is None:
        continue
      x = lm.x
      if not isinstance(x, ast.Name):
        check.inconclusive('R-CLIPNORM', fi, txt(x), 'weighted tree is not a variable')
        continue
      ds = ff.defs_for(x)
      clip_defs = [d for d in ds if isinstance(d.value, ast.Call) and wmean.repo_fn(ff, d.value) in wmean.CLIP]
      ok = False
      why = 'no tree_clip_by_global_norm definition reaches the weighted sum'
      if clip_defs:
        d = clip_defs[0]
        c = d.value
        g = guards_of(ff, d.node.ast)
        guarded = [t for t, pol in g if (not pol) and isinstance(t, ast.Compare) and isinstance(t.ops[0], ast.Is) and isinstance(
            t.left, ast.Name) and t.left.id == 'client_delta_clip_norm']
        arg_ok = len(c.args) == 2 and isinstance(c.args[0], ast.Name) and c.args[0].id == x.id and txt(c.args[1]) == 'client_delta_clip_norm'
        # the If holding the clip dominates the accumulation statement
        ifn = _enclosing_if(ff, d.node.ast)
        acc = ff.node_of(x)
        ifnode = next((n for n in ff.cfg.nodes if n.kind == 'if' and n.ast is ifn), None)
        dom = ifnode is not None and acc is not None and ff.cfg.dominates(ifnode, acc)
        # no other (unclipped) redefinition on the clip arm: defs are exactly {loop target, clip}
        others = [dd for dd in ds if dd not in clip_defs and dd.kind != 'for']
        ok = bool(guarded) and arg_ok and dom and not others
        why = f'clip under `clip_norm is not None`={bool(guarded)}, clips this client\'s delta with the configured norm={arg_ok}, on every path to the sum={dom}'
      check.ob('R-CLIPNORM', fi, f'tree_weight({x.id}, .)', ok, why, node=x)
    # diagnostics keep the unclipped norm under a separate key (no effect on aggregation) - informational


def _enclosing_if(ff: FuncFlow, node: ast.AST) -> Optional[ast.If]:
  n = ff.module.parent_of.get(node)
  while n is not None:
    if isinstance(n, ast.If):
      return n
    n = ff.module.parent_of.get(n)
  return None


def _agnostic(check: Check):
  repo = check.repo
  modname = f'{ALG}.agnostic_fed_avg'
  dv = DivAnalysis(repo)
  n = 0
  for fi in repo.module(modname).functions():
    for s in dv.sites(fi):
      n += 1
      check.analysed(fi)
      ok = s.cls != 'DATA' or s.guard is not None
      check.ob('R-DIV', fi, '/ ' + txt(s.denom)[:90], ok,
               f'{txt(s.node)[:80]}: denominator {txt(s.denom)[:50]} is {s.cls} ({s.why}); guard: {s.guard}' +
               ('' if ok else ' - a zero (domain without examples in the window / zero beta) gives inf/NaN weights'), node=s.node)
  check.floor('R-DIV', 'divisions in agnostic_fed_avg', n, 3)
  upd = repo.func(modname, 'update_domain_weights')
  ff = FuncFlow.of(repo, upd)
  check.analysed(upd)
  ok = False
  for _, rv in ff.returns():
    if isinstance(rv, ast.BinOp) and isinstance(rv.op, ast.Div) and isinstance(rv.right, ast.Call) and ff.ext(rv.right.func) == 'jax.numpy.sum':
      if same(rv.left, rv.right.args[0]) and isinstance(rv.left, ast.Name):
        ds = ff.defs_for(rv.left)
        nonneg = bool(ds) and all(isinstance(d.value, ast.Call) and ff.ext(d.value.func) == 'jax.numpy.maximum' for d in ds)
        g = guards_of(ff, ff.module.enclosing_stmt(rv))
        eg = any(pol and isinstance(t, ast.Compare) and isinstance(t.comparators[0], ast.Constant) and t.comparators[0].value == 'eg' for t, pol in g)
        ok = nonneg and eg
  check.ob('R-SIMPLEX', upd, "eg: v = maximum(v, 0); return v / sum(v)", ok,
           'the exponentiated-gradient weights are clamped non-negative and renormalised by their own sum')
  # exp(lr * loss) multiplicative update
  mult = any(isinstance(d.value, ast.BinOp) and isinstance(d.value.op, ast.Mult) and any(
      isinstance(x, ast.Call) and ff.ext(x.func) == 'jax.numpy.exp' for x in ast.walk(d.value)) and any(
          ff.param_of(s) == upd.positional_params[0] for s in (d.value.left, d.value.right))
             for ds in ff.rd.defs_at.values() for d in ds)
  check.ob('R-SIMPLEX', upd, 'w * exp(lr * loss)', mult, 'multiplicative (positive) update of the previous weights')
  # 'none' arm returns the weights unchanged; unknown algorithm raises
  none_ok = any(ff.param_of(rv) == upd.positional_params[0] for _, rv in ff.returns() if rv is not None)
  raises = any(isinstance(nd.ast, ast.Raise) for nd in ff.cfg.nodes if nd.kind == 'stmt')
  check.ob('R-SIMPLEX', upd, "'none' arm / unknown algorithm", none_ok and raises,
           'without an update rule the weights are returned unchanged; unknown rules are rejected', nontrivial=False)
  # window shift
  su = repo.func(modname, 'agnostic_federated_averaging').nested('server_update')
  sff = FuncFlow.of(repo, su)
  check.analysed(su)
  okw = False
  okf = False
  ctor = None
  for _, rv in sff.returns():
    if isinstance(rv, ast.Call) and sff.callee(rv).kind == 'class':
      ctor = rv
  if ctor is not None:
    fields = [f for f, _, _ in sff.callee(ctor).cls.fields]
    b = call_args(ctor, fields)
    for v in sff.expand(b.get('domain_window')) if b.get('domain_window') is not None else []:
      if isinstance(v, ast.BinOp) and isinstance(v.op, ast.Add):
        l, r = v.left, v.right
        okw = (isinstance(l, ast.Subscript) and isinstance(l.slice, ast.Slice) and isinstance(l.slice.lower, ast.Constant) and
               l.slice.lower.value == 1 and l.slice.upper is None and txt(l.value).endswith('.domain_window') and
               isinstance(r, ast.List) and len(r.elts) == 1 and sff.param_of(r.elts[0]) == 'sum_domain_num')
    # field order: params / opt_state from the optimizer results, weights from update_domain_weights
    sites = sk.opt_apply_sites(sff, None)
    ok_po = False
    if len(sites) == 1:
      oc = sites[0]
      ok_po = b.get('params') is not None and b.get('opt_state') is not None and sk.derives_from_result(sff, b['params'], oc.res_params) and sk.derives_from_result(
          sff, b['opt_state'], oc.res_opt)
    ok_w = any(isinstance(x, ast.Call) and wmean.repo_fn(sff, x) == f'{modname}:update_domain_weights' for x in sff.expand(b['domain_weights'])) if b.get(
        'domain_weights') is not None else False
    okf = ok_po and ok_w
  # what apply hands over as this round's per-domain counts is the plain sum of the clients' counts: a count that is floored, clamped
  # or defaulted makes the window remember examples that were never seen
  ap = repo.func(modname, 'agnostic_federated_averaging').nested('apply')
  aff = FuncFlow.of(repo, ap)
  for _, c in aff.calls():
    if wmean.repo_fn(aff, c) == f'{modname}:agnostic_federated_averaging.server_update' or (isinstance(c.func, ast.Name) and c.func.id == 'server_update'):
      from fjsa.flow import bound_args
      ba = bound_args(aff, c) or {}
      a = ba.get('sum_domain_num')
      if a is None and len(c.args) >= 4:
        a = c.args[3]
      if a is not None:
        vals = aff.expand(a)
        raw = bool(vals) and all(isinstance(v, ast.Call) and wmean.repo_fn(aff, v) in wmean.SUM for v in vals)
        clamp = any(isinstance(v, ast.Call) and (aff.ext(v.func) or '').split('.')[-1] in ('maximum', 'minimum', 'clip', 'where', 'max', 'min')
                    for v in vals)
        check.ob('R-SIMPLEX.window-raw', ap, txt(a)[:70], True if raw else (False if clamp else None),
                 'the per-domain counts that enter the window are the unmodified sum over the clients', node=c)
  check.ob('R-SIMPLEX.window', su, 'window[1:] + [sum_domain_num]', okw,
           'the window keeps its length: the oldest entry is dropped and this round\'s per-domain counts are appended last')
  check.ob('R-SIMPLEX.window', su, 'ServerState(params, opt_state, domain_weights, domain_window)', okf,
           'each ServerState field receives its own new value (optimizer results, updated weights, shifted window)')
  # init: window has domain_window_size entries; weights validated to sum to 1
  bld = repo.func(modname, 'agnostic_federated_averaging')
  bff = FuncFlow.of(repo, bld)
  val = any(isinstance(nd.ast, ast.If) and 'sum(init_domain_weights)' in txt(nd.ast.test) and any(
      isinstance(s, ast.Raise) for s in nd.ast.body) for nd in bff.cfg.nodes if nd.kind == 'if')
  check.ob('R-SIMPLEX', bld, 'abs(sum(init_domain_weights) - 1) > 1e-6 -> ValueError', val,
           'initial domain weights must sum to 1')
  # the test is two-sided: |sum - 1| (or two comparisons), not only "sum too large"
  tests = [nd.ast.test for nd in bff.cfg.nodes if nd.kind == 'if' and 'sum(init_domain_weights)' in txt(nd.ast.test) and any(
      isinstance(s, ast.Raise) for s in nd.ast.body)]
  two_sided = False
  n_cmp = 0
  for t in tests:
    has_abs = any(isinstance(x, ast.Call) and bff.ext(x.func) in ('builtins.abs', 'jax.numpy.abs', 'numpy.abs', 'math.fabs') and any(
        'sum(init_domain_weights)' in txt(a) for a in x.args) for x in ast.walk(t))
    close = any(isinstance(x, ast.Call) and (bff.ext(x.func) or '').endswith(('isclose', 'allclose')) for x in ast.walk(t))
    n_cmp += sum(1 for x in ast.walk(t) if isinstance(x, ast.Compare) and 'sum(init_domain_weights)' in txt(x))
    two_sided = two_sided or has_abs or close
  two_sided = two_sided or n_cmp >= 2
  if tests:
    check.ob('R-SIMPLEX.init', bld, txt(tests[0])[:70], two_sided,
             'the initial weights are rejected when they sum to less than 1 as well as when they sum to more: a one-sided test lets '
             'weights that do not lie on the simplex through', node=tests[0])


def _hyp(check: Check):
  from fjsa.props import c12
  repo = check.repo
  algs = entries.find_algorithms(repo, [repo.module(f'{ALG}.hyp_cluster')])
  c12._hyp_cluster(check, algs)
  es = repo.func(f'{ALG}.hyp_cluster', 'expectation_step')
  eff = FuncFlow.of(repo, es)
  triples = entries.find_triples(repo, entries.modules_under(repo, ALG))
  for inv in roundcheck.inv_calls(eff):
    lm = roundcheck.check_loop_mean_site(check, repo, es, inv, triples, 'R-HYP.mean', 'clients')
    # None for empty clusters
    g = guards_of(eff, inv)
    okg = any(pol and lt_form(t) is not None and lt_form(t)[1] and same(lt_form(t)[2], inv.args[1]) and isinstance(lt_form(t)[0], ast.Constant) and
              lt_form(t)[0].value == 0 for t, pol in g)
    ifn = _enclosing_if(eff, inv)
    none_arm = ifn is not None and any(isinstance(c, ast.Call) and isinstance(c.func, ast.Attribute) and c.func.attr == 'append' and c.args and
                                       isinstance(c.args[0], ast.Constant) and c.args[0].value is None for s in ifn.orelse for c in ast.walk(s))
    check.ob('R-HYP.none', es, 'if num_examples_sum > 0: mean else None', okg and none_arm,
             'a cluster that received no example reports None (left untouched by the server), never a 0/0 mean', node=inv)


def _ignore_grads(check: Check):
  repo = check.repo
  b = repo.func('fedjax.core.optimizers', 'ignore_grads_haiku')
  # the list of names is consulted on every call (twice per apply, once per init): it is materialised once in the builder, so that
  # a one-shot iterable (zip, generator) is not exhausted by the first membership test
  bff = FuncFlow.of(repo, b)
  np_ = b.positional_params[1] if len(b.positional_params) > 1 else None
  if np_ is not None:
    mat = any(d.name == np_ and isinstance(d.value, ast.Call) and (bff.ext(d.value.func) or '') in (
        'builtins.tuple', 'builtins.list', 'builtins.frozenset', 'builtins.set', 'builtins.sorted') for ds in bff.rd.defs_at.values() for d in ds)
    check.ob('R-IGNORE.names', b, f'{np_} = tuple({np_})', mat,
             'the names are materialised before the closures use them (otherwise nothing stays frozen after the first look-up)', exact=True)
  ap = b.nested('apply')
  ff = FuncFlow.of(repo, ap)
  check.analysed(ap)
  p_grads, p_opt, p_params = ap.positional_params[:3]
  map_calls = [v for _, v in ff.calls() if ff.ext(v.func) == 'haiku.data_structures.map' and len(v.args) == 2]
  seen_ = set()
  map_calls = [v for v in map_calls if not (id(v) in seen_ or seen_.add(id(v)))]
  filt = {id(v): (txt(v.args[0]), ff.param_of(v.args[1])) for v in map_calls}
  same_fn = len({f for f, _ in filt.values()}) == 1 and {p for _, p in filt.values()} == {p_grads, p_params}
  def filtered_of(e):
    for v in ff.expand(e):
      if isinstance(v, ast.Call) and id(v) in filt:
        return filt[id(v)][1]
    return None
  sites = sk.opt_apply_sites(ff, None)
  args_ok = False
  if len(sites) == 1:
    oc = sites[0]
    args_ok = filtered_of(oc.grads) == p_grads and filtered_of(oc.params) == p_params and ff.param_of(oc.opt_state) == p_opt
  if len(sites) == 1:
    oc = sites[0]
    for _, rv in ff.returns():
      if isinstance(rv, ast.Tuple) and len(rv.elts) == 2:
        carries = sk.derives_from_result(ff, rv.elts[0], oc.res_opt)
        stale = ff.param_of(rv.elts[0]) == p_opt and not carries
        check.ob('R-IGNORE.state', ap, 'return ' + txt(rv.elts[0])[:40], True if carries else (False if stale else None),
                 'the optimizer state returned is the one the base optimizer produced (returning the state that came in freezes '
                 'momentum / Adam moments at their first value)', node=rv)
  check.ob('R-IGNORE', ap, 'base.apply(filter(grads), opt_state, filter(params))', same_fn and args_ok,
           f'the same name filter is applied to gradients and parameters (ok={same_fn}) and the base optimizer only sees the '
           f'filtered trees (ok={args_ok})')
  # restore loop
  ok_restore = False
  fresh = False
  for n in ff.cfg.nodes:
    if n.kind == 'for' and txt(n.ast.iter) == 'non_trainable_names':
      for st in n.ast.body:
        if isinstance(st, ast.Assign) and isinstance(st.targets[0], ast.Subscript):
          t = st.targets[0]
          v = st.value
          same_idx = isinstance(t.value, ast.Subscript) and isinstance(v, ast.Subscript) and isinstance(v.value, ast.Subscript) and txt(
              t.slice) == txt(v.slice) and txt(t.value.slice) == txt(v.value.slice)
          from_input = isinstance(v, ast.Subscript) and isinstance(v.value, ast.Subscript) and ff.param_of(v.value.value) == p_params
          ok_restore = same_idx and from_input
          base = t.value.value if isinstance(t.value, ast.Subscript) else None
          if isinstance(base, ast.Name):
            fresh = any(isinstance(d.value, ast.Call) and ff.ext(d.value.func) == 'haiku.data_structures.to_mutable_dict'
                        for d in ff.defs_for(base))
  check.ob('R-IGNORE', ap, 'out[m][n] = params[m][n] for every ignored name', ok_restore and fresh,
           f'ignored parameters are copied back from the input params under the same (module, name) (ok={ok_restore}) into a fresh '
           f'mutable copy of the optimizer output (ok={fresh})')
  # filter function: returns None exactly for listed names
  flt = b.nested('non_trainable_to_none')
  fff = FuncFlow.of(repo, flt)
  okf = False
  for n in fff.cfg.nodes:
    if n.kind == 'if' and isinstance(n.ast.test, ast.Compare) and isinstance(n.ast.test.ops[0], ast.In):
      ret_none = any(isinstance(s, ast.Return) and isinstance(s.value, ast.Constant) and s.value.value is None for s in n.ast.body)
      okf = ret_none and 'non_trainable_names' in txt(n.ast.test.comparators[0])
  tail = flt.node.body[-1]
  okf = okf and isinstance(tail, ast.Return) and fff.param_of(tail.value) == flt.positional_params[2]
  if not okf:
    # single conditional expression:  return None if (m, n) in names else value   /   value if (m, n) not in names else None
    for _, rv in fff.returns():
      if isinstance(rv, ast.IfExp) and isinstance(rv.test, ast.Compare) and isinstance(rv.test.ops[0], ast.In) and 'non_trainable_names' in txt(
          rv.test.comparators[0]):
        okf = isinstance(rv.body, ast.Constant) and rv.body.value is None and fff.param_of(rv.orelse) == flt.positional_params[2]
  check.ob('R-IGNORE', flt, '(module, name) in names -> None else value', okf,
           'exactly the listed parameters are hidden from the base optimizer; everything else passes through unchanged')
  # purity
  pa = PurityAnalysis(repo)
  bad = [mu for mu in pa.mutations(ap) if mu.root in ap.params]
  check.ob('R-IGNORE.pure', ap, 'no write through grads / params', not bad,
           'the caller\'s trees are not modified' if not bad else f'{bad[0].construct}: {bad[0].how}')
