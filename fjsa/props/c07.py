"""C07 - aggregation is the exact weighted mean and never harms its inputs."""
from __future__ import annotations

import ast
from typing import List, Optional, Tuple

from fjsa.flow import FuncFlow, call_args, same, txt
from fjsa.model import FuncInfo
from fjsa.report import Check
from fjsa.rules import entries, wmean
from fjsa.rules.atomic import same_value
from fjsa.rules.div import DivAnalysis
from fjsa.rules.donate import DonationAnalysis
from fjsa.rules.pure import PurityAnalysis, BUFFER_FRESH_LEAF_FNS

TU = 'fedjax.core.tree_util'
ONEPASS_CONSUMERS = {'builtins.map', 'builtins.zip', 'builtins.iter', 'itertools.starmap', 'builtins.enumerate',
                     'builtins.list', 'builtins.tuple', 'itertools.chain', 'builtins.filter'}


def first_or_add(ff: FuncFlow, sname: str) -> Optional[dict]:
  """Recognises   S = None; for ...: (if S is None: S = FIRST else: S = ADD(S, T))."""
  stores = wmean._stores_to(ff, sname)
  init = [s for s in stores if wmean._loop_of(ff, s[1]) is None]
  inloop = [s for s in stores if wmean._loop_of(ff, s[1]) is not None]
  if len(init) != 1 or len(inloop) != 2:
    return None
  if not (isinstance(init[0][2], ast.Constant) and init[0][2].value is None):
    return None
  first = add = None
  for n, st, v, idx, kind in inloop:
    if wmean._reads_name(v, sname):
      add = (n, st, v)
    else:
      first = (n, st, v)
  if first is None or add is None:
    return None
  loop = wmean._loop_of(ff, first[1])
  if loop is not wmean._loop_of(ff, add[1]):
    return None
  # the two stores are the two arms of `if S is None`
  parent = ff.module.parent_of.get(first[1])
  if not (isinstance(parent, ast.If) and ff.module.parent_of.get(add[1]) is parent):
    return None
  t = parent.test
  is_none = isinstance(t, ast.Compare) and isinstance(t.left, ast.Name) and t.left.id == sname and isinstance(
      t.ops[0], (ast.Is, ast.IsNot)) and isinstance(t.comparators[0], ast.Constant) and t.comparators[0].value is None
  if not is_none:
    return None
  first_in_body = any(first[1] is s for s in parent.body)
  pol_ok = first_in_body == isinstance(t.ops[0], ast.Is)
  return dict(loop=loop, first=first, add=add, ifnode=parent, polarity_ok=pol_ok)


def run(check: Check):
  repo = check.repo
  check.rule('R-DONATE', 'every value at a donated position in tree_util is owned (fresh copy / fresh arithmetic / '
             'result of a donating call) and never read after the donation; public functions donate nothing; '
             'private donating wrappers are referenced only inside tree_util.py')
  check.rule('R-WMEAN', 'tree_mean: one pass over (tree, weight) pairs, T = tree_weight(tree, weight) for the same pair, '
             'S = T | _tree_add_eq(S, T), W += weight on every iteration, result = zero-guarded S / W; tree_sum: first '
             'element copied, later elements added; mean_aggregator passes each client\'s (params, weight) through unchanged and in order')
  check.rule('R-DIV', 'zero guard of both inverse-weight helpers; clip scale = minimum(1, max_norm / global_norm)')
  check.rule('R-ONEPASS', 'iterable parameters are consumed by exactly one for/map/zip/starmap chain and never len()-ed, '
             'indexed or iterated twice')
  check.rule('R-PURE', 'no public tree_util function and no aggregator apply writes through a parameter')
  check.rule('R-CLIP', 'tree_clip_by_global_norm multiplies every leaf by one common scalar computed from the global '
             'norm of the same tree')
  check.undecided('containment in the coordinate-wise hull; order independence up to rounding; clipped norm <= bound '
                  'numerically; dtype promotion details')
  check.assume('jax.jit forwards inputs it returns unchanged; donation invalidates exactly the donated buffers; '
               'tree_map / jnp arithmetic allocate new arrays')
  m = repo.module(TU)
  da = DonationAnalysis(repo)
  pa = PurityAnalysis(repo)
  dv = DivAnalysis(repo)
  # ---- donation
  decl = [d for d in da.declared() if d[0] is m]
  check.floor('R-DONATE', 'donation declarations in tree_util', len(decl), 2)
  n_sites = 0
  for fi in m.functions():
    check.analysed(fi)
    for s in da.sites(fi):
      n_sites += 1
      roots = da.ownership(s)
      own_param_ok = False
      if roots and roots <= set(fi.params) and fi.name.startswith('_') and fi.scope.parent.kind == 'module':
        own_param_ok = True  # private forwarding wrapper: obligation moves to its call sites
      reads = da.reads_after(s)
      check.ob('R-DONATE.own', fi, txt(s.call), (not roots) or own_param_ok,
               (f'donated {txt(s.arg)} shares buffers with {sorted(roots)}: the caller\'s arrays would be invalidated'
                if roots and not own_param_ok else
                f'donated {txt(s.arg)} is ' + ('the parameter of a private wrapper (checked at its call sites)'
                                              if own_param_ok else 'owned (fresh copy/arithmetic or previous donation result)')),
               node=s.call)
      check.ob('R-DONATE.dead', fi, txt(s.call), not reads,
               f'{txt(s.arg)} is read after being donated at line(s) {[getattr(x, "lineno", 0) for x, _ in reads]}'
               if reads else f'{txt(s.arg)} is rebound or dead after the donation', node=s.call)
  check.floor('R-DONATE', 'donation sites in tree_util', n_sites, 4)
  for name, bs in sorted(m.scope.bindings.items()):
    if name.startswith('_'):
      continue
    r = repo._resolve_bindings(m.scope, name)
    if r.kind in ('func', 'wrapped'):
      d = r.donated()
      dp = da.donated_params(r.func) if r.kind == 'func' else set()
      check.ob('R-DONATE.public', m, f'public {name}', not d and not dp,
               f'public function {name} donates {d or sorted(dp)}: callers\' arrays would be invalidated' if (d or dp)
               else f'{name} donates nothing', nontrivial=bool(r.wrappers))
  for mod in repo.modules.values():
    if mod is m:
      continue
    for node in ast.walk(mod.tree):
      if isinstance(node, ast.Attribute) and node.attr.startswith('_tree_') and node.attr.endswith('_eq'):
        fi = mod.enclosing_func(node)
        check.ob('R-DONATE.private', fi or mod, txt(node), False,
                 'module-private donating wrapper referenced outside tree_util.py', node=node,
                 advisory=mod.name.split('.')[0] != 'fedjax')
  # ---- tree_sum / tree_mean shapes
  _tree_sum(check, repo.func(TU, 'tree_sum'), pa)
  _tree_mean(check, repo.func(TU, 'tree_mean'))
  # ---- division guards
  n_div = 0
  for q in ('tree_inverse_weight', '_tree_inverse_weight_eq', 'tree_clip_by_global_norm'):
    fi = repo.func(TU, q)
    for s in dv.sites(fi):
      n_div += 1
      ok = s.cls != 'DATA' or s.guard is not None
      check.ob('R-DIV', fi, txt(s.node), ok, f'denominator {txt(s.denom)} is {s.cls} ({s.why}); guard: {s.guard}',
               node=s.node)
  check.floor('R-DIV', 'division sites', n_div, 3)
  inverse_weight_rule(check)
  # ---- clip
  _clip(check, repo.func(TU, 'tree_clip_by_global_norm'))
  _norms(check)
  # ---- mean aggregator
  _mean_aggregator(check)
  # ---- one pass
  for modname, q in ((TU, 'tree_sum'), (TU, 'tree_mean')):
    _onepass(check, repo.func(modname, q))
  for a in entries.find_aggregators(repo, entries.modules_under(repo, 'fedjax.aggregators')):
    _onepass(check, a.apply)
  # ---- purity
  from fjsa.props.c10 import classify
  for fi in list(m.functions()) + [a.apply for a in entries.find_aggregators(repo, [repo.module('fedjax.aggregators.aggregator')])]:
    muts = [(mu, classify(mu, fi)) for mu in pa.mutations(fi)]
    bad = [(mu, w) for mu, w in muts if w]
    for mu, w in bad:
      check.ob('R-PURE', fi, mu.construct, False, f'{mu.how}: {w}', node=mu.node, exact=True)
    if not bad and fi.scope.parent.kind == 'module' and not fi.name.startswith('_'):
      check.ob('R-PURE', fi, f'{fi.qualname}({", ".join(fi.params)})', True, 'no write through parameters',
               nontrivial=False)


def inverse_weight_rule(check: Check):
  """The normaliser of every weighted mean: tree_weight(tree, 1/w if w > 0 else 0) (shared with C11)."""
  repo = check.repo
  for q in ('tree_inverse_weight', '_tree_inverse_weight_eq'):
    fi = repo.func(TU, q)
    ff = FuncFlow.of(repo, fi)
    for _, rv in ff.returns():
      ok = isinstance(rv, ast.Call) and wmean.repo_fn(ff, rv) in wmean.WEIGHT and len(rv.args) == 2 and ff.param_of(
          rv.args[0]) == fi.positional_params[0]
      inv = rv.args[1] if ok else None
      ok2 = False
      if inv is not None:
        for x in ff.expand(inv):
          if isinstance(x, ast.IfExp) and isinstance(x.orelse, ast.Constant) and x.orelse.value == 0 and isinstance(
              x.body, ast.BinOp) and isinstance(x.body.op, ast.Div) and ff.param_of(x.body.right) == fi.positional_params[1] and isinstance(
                  x.body.left, ast.Constant) and x.body.left.value == 1:
            ok2 = True
      check.ob('R-DIV.inverse', fi, txt(rv) if rv is not None else 'return', ok and ok2,
               'result must be tree_weight(pytree, 1/weight if weight > 0 else 0): all zeros for zero total weight')


def _iter_of_param(ff: FuncFlow, e: ast.AST, p: str) -> bool:
  """e is the parameter p, iter(p), or a name bound to one of those."""
  for x in ff.expand(e):
    if ff.param_of(x) == p:
      continue
    if isinstance(x, ast.Call) and ff.ext(x.func) == 'builtins.iter' and len(x.args) == 1 and _iter_of_param(ff, x.args[0], p):
      continue
    if isinstance(x, ast.Name) and x.id == p:
      ds = ff.defs_for(x)
      if ds and all(d.value is not None and _iter_of_param(ff, d.value, p) for d in ds if d.kind != 'param'):
        continue
    return False
  return True


def _tree_sum(check: Check, fi: FuncInfo, pa: PurityAnalysis):
  repo = check.repo
  ff = FuncFlow.of(repo, fi)
  rets = ff.returns()
  sname = rets[0][1].id if rets and isinstance(rets[0][1], ast.Name) else None
  rec = first_or_add(ff, sname) if sname else None
  if rec is None:
    check.inconclusive('R-WMEAN.sum', fi, 'accumulation', 'tree_sum is not in first-copy-then-add form')
    return
  loop = rec['loop']
  it_ok = _iter_of_param(ff, loop.iter, fi.positional_params[0]) and isinstance(loop.target, ast.Name)
  x = loop.target.id if isinstance(loop.target, ast.Name) else None
  # first arm: an owned copy of x
  fv = rec['first'][2]
  buf = PurityAnalysis(repo, mode='buffer')
  copy_ok = not buf.fn(fi).tags(fv) and any(isinstance(n, ast.Name) and n.id == x for n in ast.walk(fv))
  # add arm: add(S, x)
  av = rec['add'][2]
  add_ok = isinstance(av, ast.Call) and len(av.args) == 2 and isinstance(av.args[0], ast.Name) and av.args[0].id == sname and isinstance(
      av.args[1], ast.Name) and av.args[1].id == x and _is_add(ff, av)
  check.ob('R-WMEAN.sum', fi, f'{sname} = copy({x}) | add({sname}, {x})', it_ok and copy_ok and add_ok and rec['polarity_ok'],
           f'one pass over the parameter (ok={it_ok}); first element copied into an owned tree (ok={copy_ok}); later '
           f'elements added to the accumulator in first position (ok={add_ok}); None-test polarity ok={rec["polarity_ok"]}')


def _is_add(ff: FuncFlow, call: ast.Call) -> bool:
  r = ff.callee(call)
  return r.kind == 'func' and r.func.qualname == 'tree_add'


def _tree_mean(check: Check, fi: FuncInfo):
  repo = check.repo
  ff = FuncFlow.of(repo, fi)
  invs = [c for _, c in ff.calls() if wmean.repo_fn(ff, c) in wmean.INV]
  if len(invs) != 1 or len(invs[0].args) < 2 or not all(isinstance(a, ast.Name) for a in invs[0].args[:2]):
    check.inconclusive('R-WMEAN.mean', fi, 'result', 'tree_mean does not end in one inverse-weight call on two accumulators')
    return
  inv = invs[0]
  sname, wname = inv.args[0].id, inv.args[1].id
  rets = ff.returns()
  ret_ok = all(rv is inv or (rv is not None and any(x is inv for x in ff.expand(rv))) for _, rv in rets)
  rec = first_or_add(ff, sname)
  if rec is None:
    check.inconclusive('R-WMEAN.mean', fi, 'accumulation', 'weighted sum is not in first-then-add form')
    return
  loop = rec['loop']
  tg = wmean.loop_targets(loop)
  it_ok = _iter_of_param(ff, loop.iter, fi.positional_params[0]) and len(tg) == 2 and all(isinstance(t, ast.Name) for t in tg)
  xn, wn = (tg[0].id, tg[1].id) if it_ok else (None, None)
  unrecognised = False
  if not it_ok and _iter_of_param(ff, loop.iter, fi.positional_params[0]) and len(tg) == 1 and isinstance(tg[0], ast.Name):
    # for pair in pairs: tree, weight = pair
    for st in loop.body:
      if isinstance(st, ast.Assign) and isinstance(st.targets[0], ast.Tuple) and len(st.targets[0].elts) == 2 and all(
          isinstance(t, ast.Name) for t in st.targets[0].elts) and isinstance(st.value, ast.Name) and st.value.id == tg[0].id:
        xn, wn = st.targets[0].elts[0].id, st.targets[0].elts[1].id
        it_ok = True
    unrecognised = not it_ok
  # T = tree_weight(x, w)
  def is_T(e):
    for v in ff.expand(e):
      if isinstance(v, ast.Call) and wmean.repo_fn(ff, v) in wmean.WEIGHT and len(v.args) == 2 and isinstance(
          v.args[0], ast.Name) and v.args[0].id == xn and isinstance(v.args[1], ast.Name) and v.args[1].id == wn:
        continue
      return False
    return True
  first_ok = is_T(rec['first'][2])
  av = rec['add'][2]
  add_ok = isinstance(av, ast.Call) and len(av.args) == 2 and isinstance(av.args[0], ast.Name) and av.args[0].id == sname and is_T(
      av.args[1]) and _is_add(ff, av)
  # W += w on every iteration
  wst = wmean._stores_to(ff, wname)
  w_init = [s for s in wst if wmean._loop_of(ff, s[1]) is None]
  w_acc = [s for s in wst if wmean._loop_of(ff, s[1]) is loop]
  w_ok = (len(w_init) == 1 and wmean.is_zero_const(w_init[0][2]) and len(w_acc) == 1 and w_acc[0][4] == 'aug:Add' and
          isinstance(w_acc[0][2], ast.Name) and w_acc[0][2].id == wn and wmean._on_every_iteration(ff, loop, w_acc[0][0]))
  # the running total starts as a *float* zero: an int 0 keeps the weights' own integer dtype, which overflows (int32 counts) instead
  # of promoting
  if len(w_init) == 1 and wmean.is_zero_const(w_init[0][2]):
    v0 = w_init[0][2]
    is_float = isinstance(v0, ast.Constant) and isinstance(v0.value, float)
    check.ob('R-WMEAN.init', fi, f'{wname} = {txt(v0)}', is_float,
             'the weight total is accumulated in floating point (0. + w promotes fixed-width integer weights; 0 + w wraps around)', node=v0)
  check.ob('R-WMEAN.mean', fi, f'{sname}, {wname} over {txt(loop.iter)}',
           None if unrecognised else (ret_ok and it_ok and first_ok and add_ok and w_ok and rec['polarity_ok']),
           f'single pass over (tree, weight) pairs (ok={it_ok}); each tree weighted by its own weight before it is '
           f'stored/added (first={first_ok}, add={add_ok}); total weight adds the same weight every iteration (ok={w_ok}); '
           f'returns the zero-guarded quotient (ok={ret_ok})', node=inv)


def _clip(check: Check, fi: FuncInfo):
  repo = check.repo
  ff = FuncFlow.of(repo, fi)
  p0, p1 = fi.positional_params[:2]
  ok = False
  why = ''
  for _, rv in ff.returns():
    if isinstance(rv, ast.Call) and ff.ext(rv.func) in wmean.TREE_MAPS and len(rv.args) == 2 and ff.param_of(rv.args[1]) == p0:
      lam = rv.args[0]
      if isinstance(lam, ast.Lambda) and isinstance(lam.body, ast.BinOp) and isinstance(lam.body.op, ast.Mult):
        leaf = lam.args.args[0].arg
        sides = [lam.body.left, lam.body.right]
        scal = [s for s in sides if not (isinstance(s, ast.Name) and s.id == leaf)]
        if len(scal) == 1 and isinstance(scal[0], ast.Name):
          for x in ff.expand(scal[0]):
            if isinstance(x, ast.Call) and ff.ext(x.func) in ('jax.numpy.minimum', 'numpy.minimum') and len(x.args) == 2:
              one = [a for a in x.args if isinstance(a, ast.Constant) and a.value == 1]
              div = [a for a in x.args if isinstance(a, ast.BinOp) and isinstance(a.op, ast.Div)]
              if one and div and ff.param_of(div[0].left) == p1:
                for g in ff.expand(div[0].right):
                  if isinstance(g, ast.Call) and wmean.repo_fn(ff, g) == f'{TU}:tree_l2_norm' and g.args and ff.param_of(g.args[0]) == p0:
                    ok = True
              why = txt(x)
  check.ob('R-CLIP', fi, 'scale * t for every leaf', ok,
           f'every leaf is multiplied by the same scalar minimum(1, max_norm / tree_l2_norm(pytree)) of the same tree: {why}')


def _norms(check: Check):
  repo = check.repo
  l2 = repo.func(TU, 'tree_l2_norm')
  ff = FuncFlow.of(repo, l2)
  ok = False
  for _, rv in ff.returns():
    if isinstance(rv, ast.Call) and ff.ext(rv.func) == 'jax.numpy.sqrt' and rv.args and isinstance(rv.args[0], ast.Call) and wmean.repo_fn(
        ff, rv.args[0]) == f'{TU}:tree_l2_squared' and ff.param_of(rv.args[0].args[0]) == l2.positional_params[0]:
      ok = True
  check.ob('R-CLIP.norm', l2, 'sqrt(tree_l2_squared(pytree))', ok, 'global norm is the square root of the summed squares')
  sq = repo.func(TU, 'tree_l2_squared')
  ff = FuncFlow.of(repo, sq)
  ok = False
  for _, rv0 in ff.returns():
    for rv in (ff.expand(rv0) if rv0 is not None else []):
      if not (isinstance(rv, ast.Call) and ff.ext(rv.func) == 'builtins.sum' and rv.args):
        continue
      for g in ff.expand(rv.args[0]):
        if not isinstance(g, (ast.GeneratorExp, ast.ListComp)):
          continue
        e = g.elt
        v = g.generators[0].target
        if isinstance(e, ast.Call) and ff.ext(e.func) in ('jax.numpy.vdot', 'jax.numpy.dot') and len(e.args) == 2 and all(
            isinstance(a, ast.Name) and isinstance(v, ast.Name) and a.id == v.id for a in e.args) and not g.generators[0].ifs:
          for it in ff.expand(g.generators[0].iter):
            if isinstance(it, ast.Call) and ff.ext(it.func) in ('jax.tree_util.tree_leaves', 'jax.tree.leaves') and ff.param_of(it.args[0]) == sq.positional_params[0]:
              ok = True
  if not ok:
    # other accepted form: an explicit accumulation loop over the leaves,  acc = acc + vdot(x, x)  /  acc += vdot(x, x)
    for n in ff.cfg.nodes:
      if n.kind == 'for' and isinstance(n.ast.iter, ast.Call) and ff.ext(n.ast.iter.func) in ('jax.tree_util.tree_leaves', 'jax.tree.leaves') and \
          ff.param_of(n.ast.iter.args[0]) == sq.positional_params[0] and isinstance(n.ast.target, ast.Name):
        v = n.ast.target.id
        for st in n.ast.body:
          if isinstance(st, ast.AugAssign) and isinstance(st.op, ast.Add) and isinstance(st.value, ast.Call) and ff.ext(st.value.func) in (
              'jax.numpy.vdot', 'jax.numpy.dot') and [txt(a) for a in st.value.args] == [v, v]:
            ok = any(isinstance(rv, ast.Name) and rv.id == txt(st.target) for _, rv in ff.returns())
    if not ok:
      ok = None if not any(ff.ext(c.func) in ('jax.numpy.vdot', 'jax.numpy.dot', 'jax.numpy.sum', 'jax.numpy.square') for _, c in ff.calls()) else False
  check.ob('R-CLIP.norm', sq, 'sum(vdot(x, x) for x in leaves)', ok, 'squared norm sums vdot(x, x) over every leaf of the tree')


def _mean_aggregator(check: Check):
  repo = check.repo
  aggs = entries.find_aggregators(repo, [repo.module('fedjax.aggregators.aggregator')])
  check.floor('R-WMEAN', 'mean aggregator', len(aggs), 1)
  for a in aggs:
    fi = a.apply
    ff = FuncFlow.of(repo, fi)
    check.analysed(fi)
    p_iter, p_state = fi.positional_params[:2]
    for _, rv in ff.returns():
      ok = isinstance(rv, ast.Tuple) and len(rv.elts) == 2
      if not ok:
        check.inconclusive('R-WMEAN.agg', fi, 'return', 'aggregator does not return (params, state)')
        continue
      mean, st = rv.elts
      ok_state = ff.param_of(st) == p_state
      ok_mean = False
      why = ''
      for x in ff.expand(mean):
        if isinstance(x, ast.Call) and wmean.repo_fn(ff, x) in wmean.MEAN and x.args:
          for src in ff.expand(x.args[0]):
            if isinstance(src, ast.Call) and ff.ext(src.func) == 'builtins.map' and len(src.args) == 2 and ff.param_of(src.args[1]) == p_iter:
              r = ff.resolve(src.args[0])
              if r.kind == 'func':
                okp, why = _extract_pair(repo, r.func)
                ok_mean = okp
            elif isinstance(src, ast.GeneratorExp) and len(src.generators) == 1 and ff.param_of(src.generators[0].iter) == p_iter:
              t = src.generators[0].target
              e = src.elt
              if isinstance(t, ast.Tuple) and len(t.elts) == 3 and isinstance(e, ast.Tuple) and len(e.elts) == 2:
                ok_mean = all(isinstance(a, ast.Name) and isinstance(b, ast.Name) and a.id == b.id for a, b in zip(e.elts, t.elts[1:]))
                why = txt(src)
                if src.generators[0].ifs:
                  ok_mean = False
                  why = (f'clients are filtered by `{txt(src.generators[0].ifs[0])}`: when no client passes (e.g. all weights zero) the mean '
                         f'receives nothing and cannot return an all-zero tree')
            elif isinstance(src, ast.Call) and ff.ext(src.func) in ('builtins.filter', 'itertools.filterfalse', 'itertools.islice',
                                                                     'itertools.takewhile', 'itertools.dropwhile'):
              why = f'{txt(src.func)} drops clients before the mean: zero-weight-only inputs no longer give an all-zero tree'
      check.ob('R-WMEAN.agg', fi, txt(rv)[:90], ok_mean and ok_state,
               f'result must be tree_mean over each client\'s own (params, weight) in input order ({why}); stateless state '
               f'returned unchanged (ok={ok_state})')


def _extract_pair(repo, fn: FuncInfo) -> Tuple[bool, str]:
  ff = FuncFlow.of(repo, fn)
  p = fn.positional_params[0]
  for _, rv in ff.returns():
    if not (isinstance(rv, ast.Tuple) and len(rv.elts) == 2 and all(isinstance(e, ast.Name) for e in rv.elts)):
      return False, f'returns {txt(rv)}'
    idx = []
    for e in rv.elts:
      ds = ff.defs_for(e)
      if len(ds) != 1:
        return False, 'ambiguous definitions'
      d = next(iter(ds))
      if not (d.kind == 'assign' and d.index and ff.param_of(d.value) == p):
        return False, f'{e.id} is not unpacked from the input triple'
      idx.append(d.index[0])
    if idx != [1, 2]:
      return False, f'returns positions {idx} of the (id, params, weight) triple, expected [1, 2]'
  return True, 'returns (params, weight) = positions 1, 2 of the input triple'


def _onepass(check: Check, fi: FuncInfo):
  repo = check.repo
  ff = FuncFlow.of(repo, fi)
  p = fi.positional_params[0]
  loads = []
  for n in ff.cfg.nodes:
    if n.ast is None:
      continue
    for x in n.walk():
      if isinstance(x, ast.Name) and x.id == p and isinstance(x.ctx, ast.Load) and ff.scope_at(x).lookup_scope(p) is fi.scope:
        ds = ff.defs_for(x) if ff.scope_at(x) is fi.scope else None
        if ds is not None and ds and not any(d.kind == 'param' for d in ds):
          continue  # the name was rebound (e.g. p = iter(p)): this load sees the iterator, not the argument
        if not any(x is y for _, y in loads):
          loads.append((n, x))
  problems = []
  m = ff.module
  for n, x in loads:
    parent = m.parent_of.get(x)
    if isinstance(parent, ast.Subscript) and parent.value is x:
      problems.append(f'indexed at line {x.lineno}')
    elif isinstance(parent, ast.Call) and x in parent.args:
      pth = ff.ext(parent.func)
      if pth == 'builtins.len':
        problems.append(f'len() at line {x.lineno}')
      elif pth not in ONEPASS_CONSUMERS and pth is not None:
        pass
    if wmean._loop_of(ff, x) is not None and not (isinstance(parent, (ast.For,)) and parent.iter is x):
      lp = wmean._loop_of(ff, x)
      in_header = isinstance(lp, ast.For) and any(x is y for y in ast.walk(lp.iter)) and wmean._loop_of(ff, lp) is None
      if not in_header:
        problems.append(f'consumed inside a loop at line {x.lineno}')
  if len(loads) > 1:
    problems.append(f'{len(loads)} uses of the iterable ({[x.lineno for _, x in loads]})')
  check.ob('R-ONEPASS', fi, f'iterable parameter {p}', not problems,
           'consumed exactly once' if not problems else '; '.join(problems) + ': a generator argument would be exhausted or fail')
