"""C09 - an interrupted experiment resumes to the uninterrupted result."""
from __future__ import annotations

import ast
import re
from typing import List, Optional

from fjsa.flow import FuncFlow, arg_at, call_args, guards_of, same, txt
from fjsa.report import Check
from fjsa.rules import atomic, defassign
from fjsa.rules.atomic import AtomicAnalysis, split_suffix, same_value


def _const_regex_suffix(ff: FuncFlow, e: ast.AST):
  """pattern = base + r'const'  ->  (base expr, 'const')."""
  xs = ff.expand(e)
  if len(xs) != 1:
    return None, None
  x = xs[0]
  if isinstance(x, ast.BinOp) and isinstance(x.op, ast.Add) and isinstance(
      x.right, ast.Constant) and isinstance(x.right.value, str):
    return x.left, x.right.value
  if isinstance(x, ast.JoinedStr) and len(x.values) == 2 and isinstance(
      x.values[0], ast.FormattedValue) and isinstance(x.values[1], ast.Constant):
    return x.values[0].value, x.values[1].value
  return None, None


def _name_format(ff: FuncFlow, e: ast.AST):
  """checkpoint name f'{base}{round:08d}' -> (base expr, round expr, format spec)."""
  xs = ff.expand(e)
  if len(xs) != 1:
    return None
  x = xs[0]
  if isinstance(x, ast.JoinedStr) and len(x.values) == 2 and all(
      isinstance(v, ast.FormattedValue) for v in x.values):
    spec = x.values[1].format_spec
    spec_s = ''
    if spec is not None:
      if not all(isinstance(v, ast.Constant) for v in spec.values):
        return None
      spec_s = ''.join(v.value for v in spec.values)
    return x.values[0].value, x.values[1].value, spec_s
  if isinstance(x, ast.BinOp) and isinstance(x.op, ast.Add):
    r = x.right
    if isinstance(r, ast.BinOp) and isinstance(r.op, ast.Mod) and isinstance(r.left, ast.Constant):
      m = re.fullmatch(r'%(\d*d)', r.left.value)
      if m:
        return x.left, r.right, m.group(1)
    if isinstance(r, ast.Call) and isinstance(r.func, ast.Attribute) and r.func.attr == 'zfill' and r.args and isinstance(r.args[0], ast.Constant):
      inner = r.func.value
      if isinstance(inner, ast.Call) and inner.args:
        return x.left, inner.args[0], f'0{r.args[0].value}d'
  return None


def run(check: Check):
  repo = check.repo
  aa = AtomicAnalysis(repo)
  check.rule('R-ATOMIC', 'a file name matched by the checkpoint loader pattern is created only by rename of a '
             'completely written temp file whose name the pattern rejects')
  check.rule('R-ORDER', 'save precedes every delete and the retention list is computed after the save; '
             'the sampler is re-seated with the round the loop starts at; the resumed state is the loaded one; '
             'the checkpoint stores the state produced by this round under this round number')
  check.rule('R-RESUME', 'load_state returns the unpickled object unconverted; every file written by the experiment loop, the checkpoint '
             'writer and the serializer is opened in a truncating mode (no append), so that a repeated run rewrites it')
  check.rule('R-DEFASSIGN', 'names read after a possibly empty loop are definitely assigned')
  check.rule('R-PAIR', 'the loader parses the round number from the same path it loads, and picks the last '
             'element of the sorted list')
  check.undecided('equivalence of crashed-and-resumed and uninterrupted runs over all crash points; determinism '
                  'of the algorithm/sampler values; GFile/file-system semantics')
  check.assume('tf.io.gfile.rename(overwrite=True) / os.replace publish atomically')
  _checkpoint(check, aa)
  _experiment(check)
  # a restored state is the saved object itself (shared rule with C16)
  from fjsa.props import c16
  c16._pickle(check, 'R-RESUME')
  _rewrite_modes(check)
  # seating the sampler at the resumed round reproduces the uninterrupted run's cohorts (shared rules with C13)
  from fjsa.props import c13
  check.rule('R-SEED', 'round-indexed sampling depends only on (seed, round): see C13')
  c13.sampler_rules(check)


def _checkpoint(check: Check, aa: AtomicAnalysis):
  repo = check.repo
  mod = 'fedjax.training.checkpoint'
  save = repo.func(mod, 'save_checkpoint')
  getp = repo.func(mod, '_get_checkpoint_paths')
  load = repo.func(mod, 'load_latest_checkpoint')
  fs, fg, fl = (FuncFlow.of(repo, x) for x in (save, getp, load))

  # -- loader pattern
  pat_const = None
  pat_call = None
  for _, c in fg.calls():
    p = fg.ext(c.func)
    if p in ('re.match', 're.fullmatch', 're.search') and len(c.args) >= 2:
      base, const = _const_regex_suffix(fg, c.args[0])
      if const is not None:
        pat_const, pat_call, pat_fn = const, c, p
  if pat_const is None:
    check.error('anchor-shape: checkpoint name pattern (base + constant regex) not found in _get_checkpoint_paths')
    return
  def matches(s: str) -> bool:
    fn = {'re.match': re.match, 're.fullmatch': re.fullmatch, 're.search': re.search}[pat_fn]
    return fn(pat_const, s) is not None

  # -- writers reachable from save_checkpoint
  writers = aa.writers(fs)
  if not writers:
    check.error('anchor-shape: save_checkpoint has no recognised writer')
    return
  temp_suffixes: List[str] = []
  save_nodes = []
  for w in writers:
    nf = _name_format(fs, w.path)
    base, suf = split_suffix(fs, w.path)
    construct = f'{w.how}({txt(w.path)})'
    wn = fs.node_of(w.call)
    save_nodes.append(wn)
    if '(in-place)' in w.how:
      check.ob('R-ATOMIC', save, construct, False,
               'the callee opens its path parameter for writing in place: a crash mid-write leaves a '
               'truncated file under a name the loader selects as the newest checkpoint', node=w.call)
    elif '(atomic)' in w.how:
      r = fs.callee(w.call)
      target = r.func
      suffs = _callee_temp_suffixes(aa, repo, target)
      temp_suffixes += suffs
      check.ob('R-ATOMIC', save, construct, True,
               f'callee writes a temp name (suffix {suffs}) and renames it onto its path parameter on '
               f'every normal path', node=w.call)
    elif '(temp-not-published)' in w.how:
      check.ob('R-ATOMIC', save, construct, False,
               'callee writes a temp name but does not rename it onto the path on every normal path',
               node=w.call)
    else:
      # direct writer inside save_checkpoint
      if nf is not None and suf == '':
        check.ob('R-ATOMIC', save, construct, False, 'final checkpoint name opened for writing in place',
                 node=w.call)
      else:
        # temp + rename inside save_checkpoint
        finals = [d for _, s, d in aa.renames(fs) if atomic.same_path(fs, s, w.path)]
        ok = bool(finals) and aa.publishes(fs, w, finals[0])
        temp_suffixes.append(suf)
        check.ob('R-ATOMIC', save, construct, ok, 'temp checkpoint must be renamed onto the final name on '
                 'every normal path', node=w.call)
  # name format agrees with the loader pattern, temp names are rejected by it
  fmt = None
  for w in writers:
    nf = _name_format(fs, w.path)
    if nf is not None:
      fmt = nf
  if fmt is None:
    for _, c in fs.calls():
      for a in c.args:
        nf = _name_format(fs, a)
        if nf is not None:
          fmt = nf
  if fmt is None:
    check.inconclusive('R-CONST', save, 'checkpoint name', 'cannot recognise the checkpoint name format')
  else:
    spec = fmt[2]
    try:
      samples = [format(v, spec) for v in (0, 1, 7, 10, 99999999)]
    except ValueError:
      samples = []
    ok = bool(samples) and all(matches(s) for s in samples)
    check.ob('R-CONST', save, f'name format {spec!r} vs loader pattern {pat_const!r}', ok,
             f'names written ({samples[:3]}...) must be accepted by the loader pattern', node=pat_call)
    bad = [s for s in (temp_suffixes or ['.tmp']) if matches(format(1, spec) + s)]
    rejects_other = not matches('0000001') and not matches('00000001.tmp') and not matches('00000001~')
    check.ob('R-CONST', getp, f'pattern {pat_const!r} rejects temp names', not bad and rejects_other,
             f'temp suffixes {temp_suffixes or ["(none)"]} and generic leftovers (.tmp, ~, short names) must not '
             f'match the loader pattern (needs the end anchor)', node=pat_call)

  # -- save before delete; retention list computed after the save
  removers = [(n, c) for n, c in fs.calls() if atomic.ext_path(fs, c) in atomic.REMOVERS]
  check.floor('R-ORDER', 'remove-sites', len(removers), 1)
  for n, c in removers:
    ok = all(sn is not None and fs.cfg.dominates(sn, n) for sn in save_nodes)
    check.ob('R-ORDER', save, f'{txt(c)}', ok, 'every delete must be dominated by the save of the new checkpoint',
             node=c)
    # removal list provenance
    loops = [l for l in _for_loops_of(fs, c)]
    if not loops:
      a0 = c.args[0] if c.args else None
      single = isinstance(a0, ast.Subscript) and not isinstance(a0.slice, ast.Slice)
      if single:
        check.ob('R-RETAIN', save, txt(c), False,
                 'a single fixed entry is deleted per save: after an interruption between save and delete (or a lowered `keep`) '
                 'more than `keep` checkpoints survive forever; all but the newest `keep` must be removed', node=c)
      else:
        check.inconclusive('R-RETAIN', save, txt(c), 'deletion is not a loop over the retention list')
    if loops:
      it = loops[0].iter
      srcs = fs.expand(it)
      for s in srcs:
        listing = [x for x in fs.deep_walk(s) if isinstance(x, ast.Call) and _is_repo_call(fs, x, getp)]
        if not listing:
          check.inconclusive('R-ORDER', save, txt(s), 'removal list is not derived from _get_checkpoint_paths')
          continue
        ln = fs.node_of(listing[0])
        ok2 = all(sn is not None and ln is not None and fs.cfg.dominates(sn, ln) for sn in save_nodes)
        check.ob('R-ORDER', save, txt(s), ok2, 'the directory listing that feeds the removal list must be taken '
                 'after the save (so the new checkpoint counts toward `keep`)', node=s)
        # retention slice: all but the newest `keep`
        keep = _retention_ok(fs, s, save)
        if keep is None:
          check.inconclusive('R-RETAIN', save, txt(s), 'unrecognised retention expression')
        else:
          check.ob('R-RETAIN', save, txt(s), keep, 'removal list must be the sorted listing minus its last '
                   '`keep` entries', node=s)

  # -- listing is sorted, loader picks the last element, round parsed from the loaded path
  rets = fg.returns()
  ok = bool(rets) and all(v is not None and isinstance(v, ast.Call) and fg.ext(v.func) == 'builtins.sorted'
                          for _, v in rets)
  check.ob('R-PAIR', getp, 'return sorted(...)', ok, 'the listing must be returned sorted (oldest first)')
  sort_key_ok = True
  for _, v in rets:
    if isinstance(v, ast.Call):
      for k in v.keywords:
        if k.arg == 'reverse' and not (isinstance(k.value, ast.Constant) and k.value.value is False):
          sort_key_ok = False
  check.ob('R-PAIR', getp, 'sort direction', sort_key_ok, 'ascending order (newest last)')
  load_calls = [(n, c) for n, c in fl.calls() if _callee_name(fl, c) == 'load_state']
  check.floor('R-PAIR', 'load_state-calls', len(load_calls), 1)
  for n, c in load_calls:
    parg = c.args[0] if c.args else None
    if parg is None:
      continue
    srcs = fl.expand(parg)
    picks_last = all(isinstance(s, ast.Subscript) and _is_index(s.slice, -1) for s in srcs) or all(
        isinstance(s, ast.Call) and fl.ext(s.func) == 'builtins.max' for s in srcs)
    check.ob('R-PAIR', load, txt(parg), picks_last,
             'the loaded path must be the last element of the sorted listing', node=c)
    # ... and that listing is the pattern-filtered one: a raw directory glob also contains temporary files of an interrupted save
    lists = [s.value if isinstance(s, ast.Subscript) else (s.args[0] if isinstance(s, ast.Call) and s.args else None) for s in srcs]
    from_helper = bool(lists) and all(l is not None and any(isinstance(v, ast.Call) and fl.callee(v).kind == 'func' and fl.callee(v).func is getp
                                                           for v in fl.expand(l)) for l in lists)
    check.ob('R-PAIR.listing', load, txt(parg), from_helper,
             f'the candidates come from {getp.name}() (names matching the checkpoint pattern only); an unfiltered listing lets a leftover '
             '`.tmp` file of a crashed save be picked as the newest checkpoint', node=c)
    # round number derives from the same variable
    rn_ok = False
    for _, v in fl.returns():
      if isinstance(v, ast.Tuple) and len(v.elts) == 2:
        for s in fl.expand(v.elts[1]):
          names = [x for x in ast.walk(s) if isinstance(x, ast.Name)]
          if any(same_value(fl, x, parg) for x in names if isinstance(parg, ast.Name)):
            rn_ok = True
    # the state handed back is the object load_state returned (no device_put / conversion: 64-bit leaves would be downcast)
    st_raw = False
    for _, v in fl.returns():
      if isinstance(v, ast.Tuple) and len(v.elts) == 2:
        st_raw = any(s is c for s in fl.expand(v.elts[0]))
    check.ob('R-RESUME.state-raw', load, 'return load_state(path), round', st_raw,
             'the loaded state is returned as it was unpickled: a conversion on the way (jax.device_put, tree_map, asarray) changes leaf '
             'types (float64 -> float32, numpy -> jax), so a resumed run no longer continues from the saved state', node=c)
    check.ob('R-PAIR', load, 'round number source', rn_ok,
             'the returned round number must be parsed from the same path that is loaded', node=c)


def _callee_temp_suffixes(aa: AtomicAnalysis, repo, target) -> List[str]:
  ff = FuncFlow.of(repo, target)
  out = []
  for w in aa.writers(ff):
    base, suf = split_suffix(ff, w.path)
    if suf:
      out.append(suf)
  return out


def _for_loops_of(ff: FuncFlow, node: ast.AST):
  m = ff.module
  n = m.parent_of.get(node)
  while n is not None and n is not ff.fi.node:
    if isinstance(n, ast.For):
      yield n
    n = m.parent_of.get(n)


def _is_repo_call(ff: FuncFlow, call: ast.Call, fi) -> bool:
  r = ff.callee(call)
  return r.kind == 'func' and r.func is fi


def _callee_name(ff: FuncFlow, call: ast.Call) -> Optional[str]:
  r = ff.callee(call)
  if r.kind == 'func':
    return r.func.name
  return None


def _is_index(sl: ast.AST, v: int) -> bool:
  if isinstance(sl, ast.Constant):
    return sl.value == v
  if isinstance(sl, ast.UnaryOp) and isinstance(sl.op, ast.USub) and isinstance(sl.operand, ast.Constant):
    return -sl.operand.value == v
  return False


def _retention_ok(ff: FuncFlow, e: ast.AST, save) -> Optional[bool]:
  """X[:-keep] or X[:len(X) - keep] with keep the `keep` parameter."""
  if not isinstance(e, ast.Subscript) or not isinstance(e.slice, ast.Slice):
    return None
  sl = e.slice
  if sl.step is not None:
    return None
  keep_param = None
  up = sl.upper
  if up is None:
    return False  # [a:] removes the newest
  if isinstance(up, ast.UnaryOp) and isinstance(up.op, ast.USub):
    keep_param = ff.param_of(up.operand)
    if keep_param is None:
      return None
    return sl.lower is None
  if isinstance(up, ast.BinOp) and isinstance(up.op, ast.Sub):
    keep_param = ff.param_of(up.right)
    left = up.left
    if keep_param is None or not (isinstance(left, ast.Call) and ff.ext(left.func) == 'builtins.len'):
      return None
    return sl.lower is None
  return None


def _rewrite_modes(check: Check):
  """Everything a run writes is rewritten from scratch when the run is repeated: no append mode anywhere in the experiment loop,
  the checkpoint writer or the state serializer."""
  repo = check.repo
  n = 0
  for modname in ('fedjax.training.federated_experiment', 'fedjax.training.checkpoint', 'fedjax.core.serialization'):
    m = repo.module(modname)
    for fi in m.functions():
      ff = FuncFlow.of(repo, fi)
      for _, c in ff.calls():
        path = ext_path(ff, c) if 'ext_path' in globals() else ff.ext(c.func)
        is_open = (path or '').endswith(('gfile.GFile', 'builtins.open', 'io.open')) or txt(c.func) in ('open', 'tf.io.gfile.GFile')
        if not is_open:
          continue
        mode = c.args[1] if len(c.args) >= 2 else next((k.value for k in c.keywords if k.arg == 'mode'), None)
        mv = mode.value if isinstance(mode, ast.Constant) and isinstance(mode.value, str) else ('r' if mode is None else None)
        n += 1
        if mv is None:
          check.inconclusive('R-RESUME.mode', fi, txt(c)[:70], 'file mode is not a literal')
          continue
        check.ob('R-RESUME.mode', fi, txt(c)[:70], 'a' not in mv and '+' not in mv,
                 f'mode {mv!r}: a re-run after a crash must produce the same file as an uninterrupted run; appending keeps what the '
                 'interrupted run already wrote', node=c)
  check.floor('R-RESUME.mode', 'file opens in the experiment / checkpoint / serialization modules', n, 3)


def _experiment(check: Check):
  repo = check.repo
  fi = repo.func('fedjax.training.federated_experiment', 'run_federated_experiment')
  ff = FuncFlow.of(repo, fi)
  params = fi.positional_params
  # -- a resumed run may have no rounds left: a count of rounds used as a denominator after the loop needs its zero guard
  from fjsa.rules.div import DivAnalysis
  from fjsa.rules import wmean as _wm
  for sdiv in DivAnalysis(repo).sites(fi):
    if sdiv.cls == 'DATA' and _wm._loop_of(ff, sdiv.node) is None:
      check.ob('R-DIV.resume', fi, txt(sdiv.node)[:80], sdiv.guard is not None,
               f'denominator {txt(sdiv.denom)} ({sdiv.why}) is zero when the run resumes from its last checkpoint; guard: {sdiv.guard}',
               node=sdiv.node, exact=True)
  # -- R-DEFASSIGN
  reads = defassign.loop_unbound_reads(ff)
  seen = set()
  for name, node, loop in reads:
    if name in seen:
      continue
    seen.add(name)
    check.ob('R-DEFASSIGN', fi, f'{name} after `for ... in {txt(loop.iter) if hasattr(loop, "iter") else "while"}`', False,
             f'`{name}` is bound only by a loop that can run zero times (resume after the last round) and is '
             f'read afterwards: UnboundLocalError', node=node)
  # positive instance: the main loop variable is read after the loop
  main_loop = None
  for n in ff.cfg.nodes:
    if n.kind == 'for' and isinstance(n.ast.iter, ast.Call) and ff.ext(n.ast.iter.func) == 'builtins.range':
      main_loop = n.ast
      break
  if main_loop is None:
    check.error('anchor-shape: main `for round_num in range(...)` loop not found')
    return
  loop_var = main_loop.target.id if isinstance(main_loop.target, ast.Name) else None
  after_reads = []
  for n in ff.cfg.nodes:
    if n.ast is None:
      continue
    for x in n.walk():
      if isinstance(x, ast.Name) and x.id == loop_var and isinstance(x.ctx, ast.Load) and main_loop not in list(
          defassign._loops_of(ff, x)):
        after_reads.append((n, x))
  check.floor('R-DEFASSIGN', 'loop-variable reads after the loop', len(after_reads), 1)
  if loop_var not in seen:
    for n, x in after_reads[:1]:
      ds = ff.defs_for(x)
      pre = [d for d in ds if d.kind == 'assign']
      start = main_loop.iter.args[0] if len(main_loop.iter.args) >= 2 else None
      detail = f'definitions reaching the read: {sorted(d.kind for d in ds)}'
      ok = not any(d.kind == 'unbound' for d in ds)
      check.ob('R-DEFASSIGN', fi, f'{loop_var} after the round loop', ok, detail, node=x)
      # value of the pre-loop definition: last completed round = start - 1
      for d in pre:
        v = d.value
        good = (isinstance(v, ast.BinOp) and isinstance(v.op, ast.Sub) and start is not None and same(v.left, start)
                and isinstance(v.right, ast.Constant) and v.right.value == 1)
        if not good:
          # the value may also be the loaded round number
          good = any(isinstance(s, ast.Name) and s.id.startswith('last') for s in ff.expand(v))
        check.ob('R-ORDER.final-round', fi, f'{loop_var} = {txt(v)}', good,
                 'when no round is left to run, the round number seen by the final evaluation must be the '
                 'last completed round (loop start - 1)', node=v)
  # -- resume arm / fresh arm
  load_call = None
  for n, c in ff.calls():
    r = ff.callee(c)
    if r.kind == 'func' and r.func.name == 'load_latest_checkpoint':
      load_call = (n, c)
  if load_call is None:
    check.error('anchor-shape: load_latest_checkpoint call not found')
    return
  start = main_loop.iter.args[0] if len(main_loop.iter.args) >= 2 else None
  if not isinstance(start, ast.Name):
    check.inconclusive('R-ORDER', fi, txt(main_loop.iter), 'loop start is not a plain variable')
    return
  sdefs = ff.def_values(start)
  resume_ok = fresh_ok = False
  details = []
  for d in sdefs:
    v = d.value
    details.append(txt(v) if v is not None else d.kind)
    if isinstance(v, ast.BinOp) and isinstance(v.op, ast.Add) and isinstance(v.right, ast.Constant) and v.right.value == 1:
      # last_round_num + 1, with last_round_num unpacked from the loaded tuple at index 1
      for s in ff.expand(v.left):
        if isinstance(s, ast.Name):
          dd = ff.defs_for(s)
          if dd and all(x.index == (1,) and x.value is not None and any(
              _from_call(ff, y, load_call[1]) for y in ff.expand(x.value)) for x in dd):
            resume_ok = True
    elif isinstance(v, ast.Constant) and v.value == 1:
      fresh_ok = True
  check.ob('R-ORDER', fi, f'{start.id} on the resume arm', resume_ok,
           f'loop must restart at (loaded round number) + 1; definitions: {details}', node=start)
  check.ob('R-ORDER', fi, f'{start.id} on the fresh arm', fresh_ok,
           f'a fresh run starts at round 1; definitions: {details}', node=start)
  # -- sampler re-seated before the first sample(), with the loop start
  seat = [(n, c) for n, c in ff.calls() if isinstance(c.func, ast.Attribute) and c.func.attr == 'set_round_num'
          and ff.param_of(c.func.value) == 'client_sampler']
  samples = [(n, c) for n, c in ff.calls() if isinstance(c.func, ast.Attribute) and c.func.attr == 'sample'
             and ff.param_of(c.func.value) == 'client_sampler']
  check.floor('R-ORDER', 'client_sampler.sample() sites', len(samples), 1)
  for sn, sc in samples:
    ok = any(ff.cfg.dominates(n, sn) and c.args and same_value(ff, c.args[0], start) and not _redefined_between(ff, start.id, n, sn)
             for n, c in seat)
    check.ob('R-ORDER', fi, txt(sc), ok,
             f'client_sampler.set_round_num({start.id}) must dominate the first sample() so a resumed run draws '
             f'the same cohorts', node=sc)
  # -- state threading
  applies = [(n, c) for n, c in ff.calls() if isinstance(c.func, ast.Attribute) and c.func.attr == 'apply'
             and ff.param_of(c.func.value) == 'algorithm']
  check.floor('R-ORDER', 'algorithm.apply sites', len(applies), 1)
  for an, ac in applies:
    st_arg = ac.args[0] if ac.args else None
    if not isinstance(st_arg, ast.Name):
      check.inconclusive('R-ORDER', fi, txt(ac), 'state argument is not a plain variable')
      continue
    ds = ff.def_values(st_arg)
    kinds = []
    loaded = init = carried = False
    for d in ds:
      if d.value is None:
        continue
      for s in ff.expand(d.value):
        if _from_call(ff, s, load_call[1]) and d.index == (0,):
          loaded = True
        elif ff.param_of(s) == 'init_state':
          init = True
        elif isinstance(s, ast.Call) and s is ac and d.index == (0,):
          carried = True
        else:
          kinds.append(txt(s))
    check.ob('R-ORDER', fi, f'state fed to {txt(ac.func)}', loaded and init and carried and not kinds,
             f'state must be the loaded state on resume, init_state otherwise, and the previous round\'s result '
             f'afterwards (loaded={loaded}, init={init}, carried={carried}, other={kinds})', node=ac)
    # returned state is the loop-carried one
    for _, rv in ff.returns():
      okr = isinstance(rv, ast.Name) and rv.id == st_arg.id
      check.ob('R-ORDER', fi, f'return {txt(rv) if rv is not None else ""}', okr,
               'the function returns the loop-carried state', node=rv)
    # checkpoint stores this round's state under this round's number
    saves = [(n, c) for n, c in ff.calls() if _callee_is(ff, c, 'save_checkpoint')]
    check.floor('R-ORDER', 'save_checkpoint sites', len(saves), 1)
    for sn, sc in saves:
      target = ff.callee(sc).func
      b = call_args(sc, target.positional_params)
      s_arg, r_arg = b.get('state'), b.get('round_num')
      ok_s = isinstance(s_arg, ast.Name) and {d.node.id for d in ff.defs_for(s_arg)} == {an.id}
      ok_r = isinstance(r_arg, ast.Name) and r_arg.id == loop_var and all(d.kind == 'for' for d in ff.defs_for(r_arg))
      check.ob('R-ORDER', fi, txt(sc), ok_s and ok_r,
               f'checkpoint must hold the state returned by this round\'s apply (ok={ok_s}) under the loop\'s '
               f'round number (ok={ok_r})', node=sc)
      k_arg = b.get('keep')
      if k_arg is not None:
        okk = any(isinstance(s, ast.Attribute) and s.attr == 'num_checkpoints_to_keep' for s in ff.expand(k_arg))
        check.ob('R-ORDER', fi, f'keep={txt(k_arg)}', okk, 'retention count comes from config.num_checkpoints_to_keep',
                 node=k_arg)
  # final evaluation uses the loop variable
  finals = []
  for n, c in ff.calls():
    if isinstance(c.func, ast.Name) and any(isinstance(a, ast.Name) and a.id == loop_var for a in c.args):
      if main_loop not in list(defassign._loops_of(ff, c)):
        finals.append(c)
  check.ob('R-ORDER', fi, 'final evaluation round number', bool(finals),
           'final evaluation functions receive the last round number', nontrivial=False)
  # every configured final evaluation is run, whatever is already on disk: a re-run after a crash inside this section must rewrite
  # the files the crash left incomplete, so no evaluation is skipped (continue) or made conditional on a file's existence
  for c in finals:
    lps = [l for l in defassign._loops_of(ff, c)]
    if not lps:
      continue
    lp = lps[-1]
    jumps = [x for x in ast.walk(lp) if isinstance(x, (ast.Continue, ast.Break))]
    conds = [t for t, _ in guards_of(ff, c, implied=False) if any(t is y for y in ast.walk(lp))]
    check.ob('R-ORDER.final-every', fi, f'for {txt(lp.target)} in {txt(lp.iter)[:40]}', not jumps and not conds,
             'every final evaluation runs unconditionally' if not (jumps or conds) else
             f'a final evaluation can be skipped ({len(jumps)} continue/break, {len(conds)} enclosing condition(s)): an output file left '
             'incomplete by an interrupted run is kept instead of being rewritten', node=jumps[0] if jumps else c, exact=True)
  # every normal return comes after the final evaluation: a re-run that finds all rounds done must still (re)write its output
  if finals:
    anchors = []
    for c in finals:
      n = ff.node_of(c)
      lps = [l for l in defassign._loops_of(ff, c)]
      hd = next((x for x in ff.cfg.nodes if x.kind in ('for', 'while') and lps and x.ast is lps[-1]), None)
      anchors.append(hd if hd is not None else n)
    for rn, rv in ff.returns():
      ok_r = any(a is not None and ff.cfg.dominates(a, rn) for a in anchors)
      check.ob('R-ORDER.final-eval', fi, f'return at line {rn.lineno}', ok_r,
               'the function returns only after the final evaluation section: an early return (e.g. "nothing left to train") skips writing '
               'the final-evaluation files that an uninterrupted run writes', node=rn.ast)


def _from_call(ff: FuncFlow, e: ast.AST, call: ast.Call) -> bool:
  """e is (a copy of) the result of `call`."""
  if e is call:
    return True
  if isinstance(e, ast.Name):
    for d in ff.defs_for(e):
      if d.value is call:
        return True
      if d.value is not None and any(x is call for x in ff.expand(d.value)):
        return True
  return False


def _callee_is(ff: FuncFlow, call: ast.Call, name: str) -> bool:
  r = ff.callee(call)
  return r.kind == 'func' and r.func.name == name


def _redefined_between(ff: FuncFlow, name: str, a, b) -> bool:
  return ff.rd.reaching(a, name) != ff.rd.reaching(b, name) and bool(ff.rd.reaching(a, name))
