"""C19 - downloaded / decompressed / converted cache files appear only when complete."""
from __future__ import annotations

import ast
from typing import List, Optional, Tuple

from fjsa.flow import FuncFlow, arg_at, same, txt
from fjsa.report import Check
from fjsa.rules import atomic
from fjsa.rules.atomic import AtomicAnalysis, split_suffix, same_value

ANCHORS = [
    ('fedjax.datasets.downloads', 'maybe_download'),
    ('fedjax.datasets.downloads', 'maybe_lzma_decompress'),
    ('fedjax.datasets.cifar100', 'load_split'),
]


def find_markers(ff: FuncFlow):
  """`if exists(P): reuse else: produce` statements of a function."""
  out = []
  for n in ff.cfg.nodes:
    if n.kind != 'if':
      continue
    st = n.ast
    test = st.test
    neg = False
    if isinstance(test, ast.UnaryOp) and isinstance(test.op, ast.Not):
      neg, test = True, test.operand
    extra = []
    if isinstance(test, ast.BoolOp) and isinstance(test.op, ast.And):
      ex = [v for v in test.values if isinstance(v, ast.Call) and atomic.ext_path(ff, v) in atomic.EXISTS and v.args]
      if len(ex) == 1:
        extra = [v for v in test.values if v is not ex[0]]
        test = ex[0]
    if isinstance(test, ast.Call) and atomic.ext_path(ff, test) in atomic.EXISTS and test.args:
      reuse, produce = (st.orelse, st.body) if neg else (st.body, st.orelse)
      out.append((st, test.args[0], reuse, produce))
      EXTRA_CONDITIONS[id(st)] = extra
  return out


EXTRA_CONDITIONS = {}


def _within(stmts: List[ast.stmt], node: ast.AST, ff: FuncFlow) -> bool:
  m = ff.module
  n = node
  while n is not None:
    if any(n is s for s in stmts):
      return True
    n = m.parent_of.get(n)
  return False


def run(check: Check):
  repo = check.repo
  aa = AtomicAnalysis(repo)
  check.rule('R-ATOMIC', 'every writer that can create a completion-marker path P (a path whose '
             'existence is tested to skip work) writes a temp path T = P + suffix and every normal '
             'path from the writer to exit passes rename(T, P); validation of the produced file '
             'dominates the rename; non-truncating creators remove a stale T first; the reuse arm '
             'has no network call and no writer')
  check.undecided('behaviour of requests/urllib3 on short reads; atomicity of os.rename (assumed POSIX); '
                  'content correctness of the fetched bytes')
  check.assume('os.rename / os.replace / tf.io.gfile.rename publish atomically (POSIX)')
  check.assume('open(p, "w..") truncates; sqlite3.connect(p) creates p if missing and keeps existing content')
  n_markers = 0
  n_writers = 0
  for modname, q in ANCHORS:
    fi = repo.func(modname, q)
    ff = FuncFlow.of(repo, fi)
    # a file that is published must be written through a buffered writer: a raw (buffering=0) file may write fewer bytes than it was
    # given, and copyfileobj / write() callers do not look at the count
    for _, c in ff.calls():
      if (ff.ext(c.func) or '') in ('builtins.open', 'io.open', 'tensorflow.io.gfile.GFile') or txt(c.func) in ('open', 'io.FileIO'):
        raw = any(k.arg == 'buffering' and isinstance(k.value, ast.Constant) and k.value.value == 0 for k in c.keywords) or (
            len(c.args) >= 3 and isinstance(c.args[2], ast.Constant) and c.args[2].value == 0) or txt(c.func) == 'io.FileIO'
        mode = next((a.value for a in c.args[1:2] if isinstance(a, ast.Constant)), None) or next(
            (k.value.value for k in c.keywords if k.arg == 'mode' and isinstance(k.value, ast.Constant)), 'r')
        if raw and isinstance(mode, str) and any(ch in mode for ch in 'wax+'):
          check.ob('R-ATOMIC.unbuffered', fi, txt(c)[:80], False,
                   'an unbuffered file object may accept fewer bytes than it is handed (disk full, size limit) without raising; the short '
                   'file is then renamed into place as complete', node=c, exact=True)
    seeks = [c for _, c in ff.calls() if isinstance(c.func, ast.Attribute) and c.func.attr == 'seek' and len(c.args) >= 2]
    truncs = [c for _, c in ff.calls() if isinstance(c.func, ast.Attribute) and c.func.attr == 'truncate']
    writes_ = [c for _, c in ff.calls() if isinstance(c.func, ast.Attribute) and c.func.attr == 'write']
    if seeks and writes_ and not truncs:
      check.ob('R-ATOMIC.holes', fi, txt(seeks[0])[:60], False,
               'the writer skips ahead with seek() instead of writing: a skipped run at the end of the data leaves the file short unless '
               'it is extended with truncate() before it is published', node=seeks[0], exact=True)
    for call, where in aa.renames_on_failure_path(ff):
      check.ob('R-ATOMIC.finally', fi, txt(call)[:80], False,
               f'the rename that publishes the file sits in a `{where}` block: it also runs while an exception (Ctrl-C included) is '
               'leaving the block, after an incomplete or unvalidated write', node=call, exact=True)
    markers = find_markers(ff)
    # Only markers whose produce arm exists (the cache pattern).
    markers = [mk for mk in markers if mk[3]]
    if not markers:
      check.error(f'anchor-shape: no exists()-marker with a produce arm in {modname}:{q}')
      continue
    writers = aa.writers(ff)
    renames = aa.renames(ff)
    for st, P, reuse, produce in markers:
      n_markers += 1
      extra = EXTRA_CONDITIONS.get(id(st), [])
      check.ob('R-ATOMIC.reuse', fi, f'reuse iff exists({txt(P)})', not extra,
               'a file under its final name is complete by construction and is reused as it is; an additional condition' +
               (f' ({txt(extra[0])})' if extra else '') + ' makes a complete file (e.g. an empty payload) be produced again on every call',
               node=st.test)
      pbase, psuf = split_suffix(ff, P)
      mine = []
      for w in writers:
        if not _within(produce, w.call, ff):
          continue
        wbase, wsuf = split_suffix(ff, w.path)
        if wbase is not None and pbase is not None and same_value(ff, wbase, pbase):
          mine.append((w, wsuf))
      if not mine:
        check.error(f'anchor-shape: produce arm of marker {txt(P)} in {q} has no recognised writer')
        continue
      for w, wsuf in mine:
        n_writers += 1
        construct = f'{w.how}({txt(w.path)})'
        if wsuf == psuf:
          check.ob('R-ATOMIC', fi, construct, False,
                   f'writer creates the completion marker {txt(P)} in place: an interruption '
                   f'leaves a truncated file that the exists() arm then reuses', node=w.call)
          continue
        pub = aa.publishes(ff, w, P)
        check.ob('R-ATOMIC', fi, construct, pub,
                 f'temp path {txt(w.path)} must be published by rename to {txt(P)} on every normal '
                 f'path to exit' + ('' if pub else ' - a path reaches exit without the rename'),
                 node=w.call)
        # truncation / stale temp
        if w.mode is not None:
          check.ob('R-ATOMIC.trunc', fi, construct, 'w' in w.mode and 'a' not in w.mode,
                   f'temp writer mode {w.mode!r} must truncate (a leftover partial file from an '
                   f'interrupted call must not be appended to)', node=w.call)
        elif w.how.startswith('sqlite3') or 'sqlite' in w.how.lower():
          wn = ff.node_of(w.call)
          removed = False
          for _, c in ff.calls():
            if atomic.ext_path(ff, c) in atomic.REMOVERS and c.args and atomic.same_path(ff, c.args[0], w.path):
              cn = ff.node_of(c)
              if cn is not None and wn is not None and ff.cfg.reaches(cn, wn):
                removed = True
          check.ob('R-ATOMIC.stale', fi, construct, removed,
                   'a non-truncating creator (sqlite) on a temp path needs a preceding removal of a '
                   'stale temp file, otherwise a crash during conversion makes every later call fail',
                   node=w.call)
        # validation precedes publication
        for _, c in ff.calls():
          r = ff.callee(c)
          if r.kind == 'func' and r.func.name == 'validate_file' and c.args:
            vb, vs = split_suffix(ff, c.args[0])
            if vb is None or not same_value(ff, vb, pbase):
              continue
            if not _within(produce, c, ff):
              continue
            vn = ff.node_of(c)
            ok = False
            if vs == wsuf:
              for rc, s, d in renames:
                if atomic.same_path(ff, s, w.path) and atomic.same_path(ff, d, P):
                  rn = ff.node_of(rc)
                  if rn is not None and vn is not None and ff.cfg.dominates(vn, rn):
                    ok = True
            check.ob('R-ATOMIC.validate', fi, f'validate_file({txt(c.args[0])})', ok,
                     'validation of a produced file must be applied to the temp file and dominate '
                     'the rename that publishes it', node=c)
      # reuse arm: no network, no writer
      bad = []
      for _, c in ff.calls():
        if not _within(reuse, c, ff):
          continue
        p = atomic.ext_path(ff, c) or ''
        if p.startswith('requests.') or p.startswith('urllib.request'):
          bad.append(txt(c))
      for w in writers:
        if _within(reuse, w.call, ff):
          bad.append(txt(w.call))
      check.ob('R-ATOMIC.reuse', fi, f'if exists({txt(P)})', not bad,
               'reuse arm must not touch the network or rewrite the file' +
               (f' - found {bad}' if bad else ''), node=st)
    _no_swallow(check, aa, ff, fi)
    _stream_decompressors(check, aa, ff, fi)
    # network calls only under the produce arm of some marker
    for _, c in ff.calls():
      p = atomic.ext_path(ff, c) or ''
      if p.startswith('requests.'):
        ok = any(_within(produce, c, ff) for _, _, _, produce in markers)
        check.ob('R-ATOMIC.net', fi, txt(c.func), ok,
                 'network fetch only on the not-cached arm', node=c)
  check.floor('R-ATOMIC', 'markers', n_markers, 3)
  check.floor('R-ATOMIC', 'writers', n_writers, 3)
  _progress(check)
  _block_count(check)
  _validate_file(check)


INCREMENTAL_DECOMPRESSORS = {'lzma.LZMADecompressor', 'bz2.BZ2Decompressor', 'zlib.decompressobj'}


def _no_swallow(check: Check, aa: AtomicAnalysis, ff: FuncFlow, fi):
  """An exception handler between the temp writer and the publishing rename must not let control reach the rename
  without the guarded statements having run again: a swallowed I/O error would publish a truncated file."""
  renames = [ff.node_of(c) for c, _, _ in aa.renames(ff)]
  renames = [r for r in renames if r is not None]
  handlers = [n for n in ff.cfg.nodes if n.kind == 'except']
  if not renames:
    return
  seen = set()
  for h in handlers:
    if id(h.ast) in seen:
      continue
    seen.add(id(h.ast))
    tr = ff.module.parent_of.get(h.ast)
    body_nodes = set()
    if isinstance(tr, ast.Try):
      for n in ff.cfg.nodes:
        if n.ast is not None and any(n.ast is x or any(n.ast is y for y in ast.walk(x)) for x in tr.body):
          body_nodes.add(n.id)
    # does the try body write / read the transfer?
    io = False
    if isinstance(tr, ast.Try):
      for x in tr.body:
        for c in ast.walk(x):
          if isinstance(c, ast.Call) and isinstance(c.func, ast.Attribute) and c.func.attr in ('write', 'read', 'copyfileobj', 'decompress', 'add_many'):
            io = True
    if not io:
      continue
    reach = ff.cfg.reachable_from([h], avoid=body_nodes, labels_excluded=('exc', 'raise', 'reraise'))
    bad = [r for r in renames if r.id in reach]
    check.ob('R-ATOMIC.swallow', fi, f'except {txt(h.ast.type) if h.ast.type is not None else ""}', not bad,
             'an error while writing the temp file is caught and control can still reach the rename that publishes it (without '
             'the write having succeeded): a truncated file becomes the cache entry' if bad else
             'every handled error either re-raises or repeats the guarded write before publishing', node=h.ast, exact=True)


def _stream_decompressors(check: Check, aa: AtomicAnalysis, ff: FuncFlow, fi):
  """An incremental decompressor does not raise on truncated input: its end-of-stream flag must be checked (and a
  failure raised) before the output is published."""
  renames = [ff.node_of(c) for c, _, _ in aa.renames(ff)]
  renames = [r for r in renames if r is not None]
  for ds in ff.rd.defs_at.values():
    for d in ds:
      v = d.value
      if isinstance(v, ast.Call) and ff.ext(v.func) in INCREMENTAL_DECOMPRESSORS:
        name = d.name
        checks = []
        for n in ff.cfg.nodes:
          if n.kind == 'if' and any(isinstance(x, ast.Attribute) and x.attr in ('eof', 'needs_input') and txt(x.value) == name for x in ast.walk(n.ast.test)):
            if any(isinstance(s_, ast.Raise) for s_ in n.ast.body + n.ast.orelse):
              checks.append(n)
          if n.kind == 'stmt' and isinstance(n.ast, ast.Assert) and any(isinstance(x, ast.Attribute) and x.attr == 'eof' and txt(x.value) == name
                                                                         for x in ast.walk(n.ast.test)):
            checks.append(n)
        ok = bool(checks) and all(any(ff.cfg.dominates(c, r) for c in checks) for r in renames)
        check.ob('R-ATOMIC.eof', fi, f'{name} = {txt(v)}', ok,
                 f'{txt(v.func)} silently accepts a truncated stream: `{name}.eof` must be tested (raising on failure) on every '
                 f'path to the rename that publishes the decompressed file', node=v, exact=True)


def _block_count(check: Check):
  """The transfer loop reads ceil(length / block_size) blocks of block_size."""
  repo = check.repo
  fi = repo.func('fedjax.datasets.downloads', 'maybe_download')
  ff = FuncFlow.of(repo, fi)
  check.rule('R-CEILDIV', 'the number of blocks transferred is a ceiling division of the announced '
             'length by the block size passed to read()')
  for n in ff.cfg.nodes:
    if n.kind != 'for-iter':
      continue
    it = n.ast.iter
    if not (isinstance(it, ast.Call) and it.args):
      continue
    cnt = it.args[0]
    reads = [c for c in ast.walk(n.ast) if isinstance(c, ast.Call) and isinstance(c.func, ast.Attribute)
             and c.func.attr == 'read' and c.args]
    if not reads:
      continue
    blk = reads[0].args[0]
    ok = _is_ceildiv(ff, cnt, blk)
    check.ob('R-CEILDIV', fi, txt(cnt), ok,
             f'block count must be ceil(length / {txt(blk)}) so the final partial block is fetched',
             node=it)
    _response_checked(check, fi, ff, n, cnt)
    return
  check.error('anchor-shape: transfer loop not found in maybe_download')


def _response_checked(check: Check, fi, ff: FuncFlow, loop_node, cnt: ast.AST):
  """What is written is the payload of a successful response of known length: the status is checked before the first byte is
  written, and the length is read from the header in a way that fails when the header is missing (no default)."""
  gets = [(n, c) for n, c in ff.calls() if (ff.ext(c.func) or '').endswith(('requests.get', 'requests.request', 'urlopen')) or txt(c.func) in (
      'requests.get',) or txt(c.func).endswith(('.urlopen', 'urlopen'))]
  if not gets:
    check.undecided('maybe_download: no requests.get call recognised; status / length handling not judged')
    check.ob('R-ATOMIC.status', fi, 'HTTP request', None, 'the call that opens the HTTP response was not recognised: status / length handling not judged')
    return
  gn, gc = gets[0]
  resp = None
  st = ff.module.enclosing_stmt(gc)
  if isinstance(st, ast.Assign) and isinstance(st.targets[0], ast.Name):
    resp = st.targets[0].id
  status_nodes = {n.id for n, c in ff.calls() if isinstance(c.func, ast.Attribute) and c.func.attr == 'raise_for_status' and resp and txt(
      c.func.value) == resp}
  # explicit status tests count as well: if r.status_code != 200: raise
  for n in ff.cfg.nodes:
    if n.kind == 'if' and resp and any(isinstance(x, ast.Attribute) and x.attr in ('status_code', 'ok') and txt(x.value) == resp for x in ast.walk(
        n.ast.test)) and any(isinstance(s_, ast.Raise) for s_ in n.ast.body):
      status_nodes.add(n.id)
  write_nodes = [n for n, c in ff.calls() if isinstance(c.func, ast.Attribute) and c.func.attr == 'write']
  reach = ff.cfg.reachable_from([gn], avoid=status_nodes, labels_excluded=('exc', 'raise', 'reraise'))
  unchecked = [w for w in write_nodes if w.id in reach]
  raises_itself = txt(gc.func).endswith('urlopen')   # urllib raises HTTPError for 4xx / 5xx answers on its own
  check.ob('R-ATOMIC.status', fi, f'{resp}.raise_for_status() before the first write', raises_itself or (bool(status_nodes) and not unchecked),
           'the HTTP status is checked on every path from the request to the first write: otherwise the body of a 404 / 500 answer is '
           'published under the final cache name and reused forever', node=gc)
  # a body that ends early must raise: requests' raw stream (urllib3) enforces Content-Length; http.client's read(amt) (urlopen) returns
  # the short data silently, so with it the code must compare what it wrote with the announced length itself
  callee = (ff.ext(gc.func) or txt(gc.func))
  if callee.endswith('urlopen') or txt(gc.func).endswith('urlopen'):
    verified = any(n.kind == 'if' and any(isinstance(s_, ast.Raise) for s_ in n.ast.body) and any(
        isinstance(x, ast.Call) and ((ff.ext(x.func) or '').endswith(('os.path.getsize', 'getsize')) or (isinstance(x.func, ast.Attribute) and x.func.attr == 'tell'))
        for x in ast.walk(n.ast.test)) for n in ff.cfg.nodes)
    check.ob('R-ATOMIC.truncated', fi, txt(gc)[:60], verified,
             'urlopen().read(n) returns short data without raising when the peer closes early, and nothing compares the bytes written '
             'with the announced length: a truncated download is renamed into place', node=gc, exact=True)
  # length: header subscript (KeyError when absent) - not .get(..., default)
  defaults = []
  for x in ff.deep_walk(cnt):
    if isinstance(x, ast.Call) and isinstance(x.func, ast.Attribute) and x.func.attr == 'get' and 'headers' in txt(x.func.value) and len(x.args) >= 2:
      defaults.append(x)
  check.ob('R-ATOMIC.length', fi, 'content length from the response header, no default', not defaults,
           'a missing Content-Length must stop the download: with a default length (e.g. 0) nothing is read and an empty file is published '
           'as complete' + (f' ({txt(defaults[0])})' if defaults else ''), node=defaults[0] if defaults else None)


def _is_ceildiv(ff: FuncFlow, e: ast.AST, blk: ast.AST) -> bool:
  # (a + b - 1) // b
  if isinstance(e, ast.BinOp) and isinstance(e.op, ast.FloorDiv) and same(e.right, blk):
    num = e.left
    if isinstance(num, ast.BinOp) and isinstance(num.op, ast.Sub) and isinstance(
        num.right, ast.Constant) and num.right.value == 1:
      s = num.left
      if isinstance(s, ast.BinOp) and isinstance(s.op, ast.Add) and (same(s.right, blk) or same(s.left, blk)):
        return True
    if isinstance(num, ast.BinOp) and isinstance(num.op, ast.Add):
      # a + (b - 1)
      for x in (num.left, num.right):
        if isinstance(x, ast.BinOp) and isinstance(x.op, ast.Sub) and same(x.left, blk) and isinstance(
            x.right, ast.Constant) and x.right.value == 1:
          return True
  # -(-a // b)
  if isinstance(e, ast.UnaryOp) and isinstance(e.op, ast.USub) and isinstance(e.operand, ast.BinOp) and isinstance(
      e.operand.op, ast.FloorDiv) and same(e.operand.right, blk) and isinstance(
          e.operand.left, ast.UnaryOp) and isinstance(e.operand.left.op, ast.USub):
    return True
  # math.ceil(a / b)
  if isinstance(e, ast.Call) and ff.ext(e.func) in ('math.ceil', 'numpy.ceil') and e.args:
    a = e.args[0]
    if isinstance(a, ast.BinOp) and isinstance(a.op, ast.Div) and same(a.right, blk):
      return True
  if isinstance(e, ast.Call) and ff.ext(e.func) == 'builtins.int' and e.args:
    return _is_ceildiv(ff, e.args[0], blk)
  return False


def _validate_file(check: Check):
  """validate_file raises on both a size and a digest mismatch."""
  repo = check.repo
  fi = repo.func('fedjax.datasets.downloads', 'validate_file')
  ff = FuncFlow.of(repo, fi)
  params = fi.positional_params
  check.rule('R-VALIDATE', 'validate_file compares both the byte count and the sha256 digest of the file '
             'content with its parameters and raises on either mismatch')
  raises = 0
  seen = set()
  for n in ff.cfg.nodes:
    if n.kind == 'if' and id(n.ast) not in seen:
      seen.add(id(n.ast))
      t = n.ast.test
      names = {x.id for x in ast.walk(t) if isinstance(x, ast.Name)}
      if isinstance(t, ast.Compare) and isinstance(t.ops[0], ast.NotEq) and names & set(params[1:]):
        if any(isinstance(s, ast.Raise) for s in n.ast.body):
          raises += 1
  check.ob('R-VALIDATE', fi, 'raise on size / digest mismatch', raises >= 2,
           f'{raises} mismatch tests that raise (size and digest expected)')


def _progress(check: Check):
  """The transfer loop is driven by the progress reporter (for _ in progress_(range-like n)): the default reporter yields every one of
  its n steps - no early return, the yield sits unconditionally in `for i in range(n)` - otherwise blocks are never copied while the
  file is still renamed into place."""
  repo = check.repo
  try:
    fi = repo.func('fedjax.datasets.downloads', 'progress')
  except Exception:  # pylint: disable=broad-except
    return
  ff = FuncFlow.of(repo, fi)
  check.analysed(fi)
  rets = [n for n in ff.cfg.nodes if n.kind == 'stmt' and isinstance(n.ast, ast.Return)]
  loops = [n.ast for n in ff.cfg.nodes if n.kind == 'for' and isinstance(n.ast.iter, ast.Call) and ff.ext(n.ast.iter.func) == 'builtins.range'
           and len(n.ast.iter.args) == 1 and ff.param_of(n.ast.iter.args[0]) == fi.positional_params[0]]
  uncond = any(any(isinstance(st, ast.Expr) and isinstance(st.value, ast.Yield) for st in lp.body) and not any(
      isinstance(x, (ast.Continue, ast.Break)) for x in ast.walk(lp)) for lp in loops)
  early = [r for r in rets if not any(any(r.ast is y for y in ast.walk(lp)) for lp in loops)]
  ok = True if (uncond and not early) else (False if early or loops else None)
  check.ob('R-ATOMIC.progress', fi, 'for i in range(n): yield i', ok,
           'the default reporter yields all n steps' if ok else
           f'the default reporter can finish without yielding its n steps ({len(early)} early return(s)): the download loop it drives '
           'copies nothing, and the empty file is published', node=early[0].ast if early else fi.node)

