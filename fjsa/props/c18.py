"""C18 - Walsh-Hadamard exact; structured rotation invertible (narrow structural part)."""
from __future__ import annotations

import ast
from typing import List, Optional, Tuple

from fjsa.flow import FuncFlow, atxt, call_args, lt_form, same, txt
from fjsa.model import FuncInfo
from fjsa.report import Check
from fjsa.rules import wmean
from fjsa.rules.keys import KeyAnalysis, check_function

MOD = 'fedjax.aggregators.walsh_hadamard'
WHT = f'{MOD}:walsh_hadamard_transform'
SQRT = {'jax.numpy.sqrt', 'numpy.sqrt', 'math.sqrt'}


def _scale_info(ff: FuncFlow, e: ast.AST) -> Optional[Tuple[ast.AST, ast.AST]]:
  """(numerator, length expr) for  num / sqrt(L),  num * (1 / sqrt(L)),  num * L ** -0.5."""
  if isinstance(e, ast.BinOp) and isinstance(e.op, ast.Div) and isinstance(e.right, ast.Call) and ff.ext(e.right.func) in SQRT:
    return e.left, e.right.args[0]
  if isinstance(e, ast.BinOp) and isinstance(e.op, ast.Mult):
    for a, b in ((e.left, e.right), (e.right, e.left)):
      if isinstance(b, ast.BinOp) and isinstance(b.op, ast.Div) and isinstance(b.left, ast.Constant) and b.left.value == 1 and isinstance(
          b.right, ast.Call) and ff.ext(b.right.func) in SQRT:
        return a, b.right.args[0]
      if isinstance(b, ast.BinOp) and isinstance(b.op, ast.Pow):
        try:
          if ast.literal_eval(b.right) == -0.5:
            return a, b.left
        except Exception:  # pylint: disable=broad-except
          pass
  return None


def _factors(e: ast.AST) -> List[ast.AST]:
  if isinstance(e, ast.BinOp) and isinstance(e.op, ast.Mult):
    return _factors(e.left) + _factors(e.right)
  return [e]


def _muldiv(e: ast.AST, nums: List[ast.AST], dens: List[ast.AST], inv: bool = False):
  if isinstance(e, ast.BinOp) and isinstance(e.op, ast.Mult):
    _muldiv(e.left, nums, dens, inv)
    _muldiv(e.right, nums, dens, inv)
  elif isinstance(e, ast.BinOp) and isinstance(e.op, ast.Div):
    _muldiv(e.left, nums, dens, inv)
    _muldiv(e.right, nums, dens, not inv)
  else:
    (dens if inv else nums).append(e)


def _shape_arg(call: ast.Call) -> Optional[ast.AST]:
  """The shape operand of jax.random.rademacher(key, shape) however it is passed."""
  if len(call.args) >= 2:
    return call.args[1]
  return next((k.value for k in call.keywords if k.arg == 'shape'), None)


def _is_sign(ff: FuncFlow, e: ast.AST) -> Optional[ast.Call]:
  if isinstance(e, ast.Call) and ff.ext(e.func) == 'jax.random.rademacher':
    return e
  if isinstance(e, ast.Name):
    for d in ff.defs_for(e):
      if isinstance(d.value, ast.Call) and ff.ext(d.value.func) == 'jax.random.rademacher':
        return d.value
  return None


def _analyse(ff: FuncFlow, e: ast.AST):
  """Decomposes  [signs *] transform([signs *] vec) [* signs] / scale  into its ingredients; None when there is no transform."""
  nums: List[ast.AST] = []
  dens: List[ast.AST] = []
  _muldiv(e, nums, dens)
  tr = [f for f in nums if isinstance(f, ast.Call) and wmean.repo_fn(ff, f) == WHT and f.args]
  if len(tr) != 1 or any(isinstance(f, ast.Call) and wmean.repo_fn(ff, f) == WHT for f in dens):
    return None
  T = tr[0]
  out = dict(T=T, extra=False, sign_pos=None, sign_def=None, scale=None, length=None, vec=None)
  inner = _factors(T.args[0])
  in_signs = [f for f in inner if _is_sign(ff, f) is not None]
  in_vec = [f for f in inner if _is_sign(ff, f) is None]
  if len(in_vec) != 1 or len(in_signs) > 1:
    out['extra'] = True
  else:
    out['vec'] = in_vec[0]
  out_signs = [f for f in nums if f is not T and _is_sign(ff, f) is not None]
  rest = [f for f in nums if f is not T and _is_sign(ff, f) is None]
  n_in, n_out = len(in_signs), len(out_signs)
  if n_in + n_out == 1:
    out['sign_pos'] = 'inside' if n_in else 'outside'
    out['sign_def'] = _is_sign(ff, (in_signs or out_signs)[0])
  elif n_in + n_out == 0:
    out['sign_pos'] = 'none'
  else:
    out['sign_pos'] = 'both'
  # scale: exactly one of  / sqrt(L),  * (1 / sqrt(L)),  * L ** -0.5,  / L (wrong),  nothing (wrong)
  scales = []
  for f in dens:
    if isinstance(f, ast.Call) and ff.ext(f.func) in SQRT and f.args:
      scales.append(('sqrt', f.args[0]))
    else:
      scales.append(('raw', f))
  for f in rest:
    if isinstance(f, ast.BinOp) and isinstance(f.op, ast.Pow):
      try:
        ex = ast.literal_eval(f.right)
      except Exception:  # pylint: disable=broad-except
        ex = None
      if ex == -0.5:
        scales.append(('sqrt', f.left))
      elif ex == -1:
        scales.append(('raw', f.left))
      else:
        out['extra'] = True
    elif isinstance(f, ast.Constant) and f.value == 1:
      pass
    else:
      out['extra'] = True
  if len(scales) == 1:
    kind, L = scales[0]
    if kind == 'raw' and not (isinstance(L, ast.Name) or txt(L).endswith('.size') or txt(L).startswith('len(')):
      out['extra'] = True   # a denominator that is not obviously a length: not judged
    out['scale'], out['length'] = kind, L
  elif not scales:
    out['scale'] = 'none'
  else:
    out['extra'] = True
  return out


def run(check: Check):
  repo = check.repo
  check.rule('R-SIB.rotation', 'rotation and inverse agree on every ingredient: per-leaf keys by split(rng, len(leaves)) zipped in '
             'flatten order; Rademacher signs drawn with the shape of the vector that goes through the transform; scaling by the '
             'reciprocal square root of that vector\'s length; sign-then-transform vs transform-then-sign; padding by '
             '(power-of-two ceiling - size) zeros and cropping to prod(original shape) before reshaping')
  check.rule('R-KEY', 'per-leaf keys are used linearly')
  check.rule('R-PURE', 'no function of walsh_hadamard.py writes to module-level state or to its arguments (no caches)')
  check.rule('R-DIV', 'the rotations divide only by shape-derived lengths (or under a zero guard)')
  check.rule('R-SCHEDULE', 'the per-axis contraction of walsh_hadamard_transform: einsum subscripts "<all axes>,<i><K>-><all axes with i '
             'replaced by K>" with K a fresh single-digit label (guarded), or tensordot over axis i followed by moveaxis(-1, i); other '
             'formulations are not judged')
  check.undecided('that the Kronecker/einsum schedule equals the Sylvester Hadamard matrix for every (length, block size); norm '
                  'preservation; exact invertibility up to rounding - numerical, the larger half of this property')
  rot = repo.func(MOD, 'structured_rotation')
  inv = repo.func(MOD, 'inverse_structured_rotation')
  rff, iff = FuncFlow.of(repo, rot), FuncFlow.of(repo, inv)
  check.analysed(rot)
  check.analysed(inv)
  x, rng = rot.positional_params[:2]
  ix, irng, ishape = inv.positional_params[:3]
  # ---------------- forward
  ret = rff.returns()
  fwd = None
  for _, rv in ret:
    if isinstance(rv, ast.Tuple) and len(rv.elts) == 2:
      fwd = rv
  fwd_bypass = [rv for _, rv in ret if rv is not fwd]
  if fwd is None:
    check.inconclusive('R-SIB.rotation', rot, 'return', 'expected (rotated, original shape)')
    return
  F = _analyse(rff, fwd.elts[0])
  f_ok = False
  w_name = None
  if F is None or F['extra']:
    check.inconclusive('R-SIB.rotation', rot, 'H(D w) / sqrt(d), w = pad(flatten(x), d - size)',
                       'the rotation is not written as a product/quotient of the transform, the signs and one scale factor: its agreement '
                       'with the inverse cannot be decided structurally', node=fwd)
  else:
    vec = F['vec']
    w_name = vec.id if isinstance(vec, ast.Name) else None
    rd = F['sign_def']
    shape_ok = rd is not None and w_name is not None and _shape_arg(rd) is not None and txt(_shape_arg(rd)) == f'{w_name}.shape' and rd.args and rff.param_of(
        rd.args[0]) == rng
    pad_ok = pow2 = False
    d_name = None
    if w_name is not None:
      for d in rff.defs_for(vec):
        v = d.value
        if isinstance(v, ast.Call) and rff.ext(v.func) == 'jax.numpy.pad' and len(v.args) == 2 and isinstance(v.args[1], ast.Tuple):
          lo, hi = v.args[1].elts
          if isinstance(lo, ast.Constant) and lo.value == 0 and isinstance(hi, ast.BinOp) and isinstance(hi.op, ast.Sub) and isinstance(hi.left, ast.Name):
            d_name = hi.left.id
            size_txts = {txt(z) for z in rff.expand(hi.right)} | {txt(hi.right)}
            flat = v.args[0]
            flat_ok = any(isinstance(y, ast.Call) and rff.ext(y.func) == 'jax.numpy.reshape' and rff.param_of(y.args[0]) == x for y in rff.expand(flat)) or any(
                isinstance(y, ast.Call) and isinstance(y.func, ast.Attribute) and y.func.attr in ('flatten', 'ravel') for y in rff.expand(flat))
            pad_ok = bool(size_txts & {f'{x}.size', f'{txt(flat)}.size'}) and flat_ok
    if d_name:
      for ds in rff.rd.defs_at.values():
        for d in ds:
          if d.name == d_name and isinstance(d.value, ast.BinOp) and isinstance(d.value.op, ast.Pow) and isinstance(
              d.value.left, ast.Constant) and d.value.left.value == 2:
            e = d.value.right
            pow2 = isinstance(e, ast.Call) and rff.ext(e.func) == 'math.ceil' and isinstance(e.args[0], ast.Call) and rff.ext(
                e.args[0].func) == 'math.log2' and any('.size' in txt(z) for z in rff.expand(e.args[0].args[0]))
    len_ok = F['scale'] == 'sqrt' and d_name is not None and txt(F['length']) in (d_name, f'{w_name}.size', f'len({w_name})')
    f_ok = shape_ok and pad_ok and len_ok and pow2 and F['sign_pos'] in ('inside', 'outside')
    f_why = (f'signs have the shape of the padded vector and come from this leaf\'s key={shape_ok}; zero padding by d - size='
             f'{pad_ok}; d = 2**ceil(log2(size))={pow2}; scale is the reciprocal square root of the length of the transformed vector='
             f'{len_ok} (scale form: {F["scale"]})')
    check.ob('R-SIB.rotation', rot, 'H(D w) / sqrt(d), w = pad(flatten(x), d - size)', f_ok, f_why, node=fwd)
  shape_ret = isinstance(fwd.elts[1], ast.Call) and txt(fwd.elts[1].args[0]) == f'{x}.shape'
  check.ob('R-SIB.rotation', rot, 'returns the original shape', shape_ret, 'the shape handed to the inverse is the input\'s own shape')
  # ---------------- inverse
  cands = []
  seen_sub = set()
  for n in iff.cfg.nodes:
    if n.ast is None:
      continue
    for x in n.walk():
      if id(x) in seen_sub or not isinstance(x, ast.BinOp):
        continue
      G = _analyse(iff, x)
      if G is not None:
        cands.append((x, G))
        for y in ast.walk(x):
          seen_sub.add(id(y))
  if len(cands) != 1 or cands[0][1]['extra']:
    check.inconclusive('R-SIB.rotation', inv, 'D H(x) / sqrt(len(x))',
                       'the inverse is not written as a product/quotient of the transform, the signs and one scale factor: its agreement '
                       'with the rotation cannot be decided structurally')
  else:
    scaled, G = cands[0]
    t_arg_ok = iff.param_of(G['vec']) == ix
    rd = G['sign_def']
    shape_ok = rd is not None and _shape_arg(rd) is not None and txt(_shape_arg(rd)) == f'{ix}.shape' and rd.args and iff.param_of(rd.args[0]) == irng
    len_ok = G['scale'] == 'sqrt' and txt(G['length']) in (f'{ix}.size', f'len({ix})', f'{ix}.shape[0]')
    # (H D)^-1 = D H / d: the signs are applied on the opposite side of the transform from the forward direction
    fpos = F['sign_pos'] if F is not None else None
    opp = (fpos, G['sign_pos']) in (('inside', 'outside'), ('outside', 'inside'))
    i_ok = bool(t_arg_ok and shape_ok and len_ok and opp)
    check.ob('R-SIB.rotation', inv, 'D H(x) / sqrt(len(x))', i_ok,
             f'the transform is applied to the rotated vector={bool(t_arg_ok)}; signs of the rotated vector\'s shape from the same key={shape_ok}; '
             f'signs on the opposite side of the transform from the rotation (rotation: {fpos}, inverse: {G["sign_pos"]})={opp}; scale is the '
             f'reciprocal square root of its length={len_ok} (scale form: {G["scale"]})')
  # crop + reshape
  crop_ok = False
  inv_bypass = []
  for _, rv in iff.returns():
    this_ok = False
    scaled_expr = cands[0][0] if len(cands) == 1 else None
    for rvx in iff.expand(rv):
      if isinstance(rvx, ast.Call) and iff.ext(rvx.func) == 'jax.numpy.reshape' and len(rvx.args) == 2 and iff.param_of(rvx.args[1]) == ishape:
        for y in iff.expand(rvx.args[0]):
          # w.take(arange(prod(shape)))  or  w[:prod(shape)]
          base = size = None
          if isinstance(y, ast.Call) and iff.ext(y.func) in ('jax.numpy.take', 'numpy.take') and len(y.args) >= 2:
            base = y.args[0]
            ar = iff.expand1(y.args[1])
            if isinstance(ar, ast.Call) and iff.ext(ar.func) in ('jax.numpy.arange', 'numpy.arange') and len(ar.args) == 1:
              size = ar.args[0]
          elif isinstance(y, ast.Call) and isinstance(y.func, ast.Attribute) and y.func.attr == 'take' and y.args:
            base = y.func.value
            ar = iff.expand1(y.args[0])
            if isinstance(ar, ast.Call) and iff.ext(ar.func) in ('jax.numpy.arange', 'numpy.arange') and len(ar.args) == 1:
              size = ar.args[0]
          elif isinstance(y, ast.Subscript) and isinstance(y.slice, ast.Slice) and y.slice.lower is None and y.slice.step is None:
            base, size = y.value, y.slice.upper
          if base is None or size is None:
            continue
          from_scaled = scaled_expr is not None and any(b is scaled_expr for b in iff.expand(base))
          size_ok = any(isinstance(z, ast.Call) and iff.ext(z.func) in ('jax.numpy.prod', 'numpy.prod', 'math.prod') and z.args and
                        iff.param_of(z.args[0]) == ishape for z in iff.expand(size))
          this_ok = this_ok or (from_scaled and size_ok)
    crop_ok = crop_ok or this_ok
    if not this_ok:
      inv_bypass.append(rv)
  # sibling agreement: a shortcut path in one direction that the other direction does not have cannot be its inverse
  if len(inv_bypass) != len(fwd_bypass):
    who, extra = (inv, inv_bypass) if len(inv_bypass) > len(fwd_bypass) else (rot, fwd_bypass)
    for rv in extra:
      check.ob('R-SIB.rotation.paths', who, f'return {txt(rv)[:60]}', False,
               'this return bypasses the signed, scaled transform while the opposite direction has no matching shortcut: on the '
               'inputs that take it, rotation and inverse no longer undo each other', node=rv)
  elif inv_bypass:
    check.undecided(f'{len(inv_bypass)} shortcut return(s) in both rotation directions: whether they are mutually inverse is not judged')
  else:
    check.ob('R-SIB.rotation.paths', inv, 'no shortcut returns', True, 'both directions always go through the scaled, signed transform',
             nontrivial=False)
  check.ob('R-SIB.rotation', inv, 'reshape(w[:prod(original_shape)], original_shape)', crop_ok,
           'the padding is cut off (first prod(shape) entries) and the original shape restored')
  # ---------------- pytree wrappers
  for q, n_iter in (('structured_rotation_pytree', 2), ('inverse_structured_rotation_pytree', 3)):
    fi = repo.func(MOD, q)
    ff = FuncFlow.of(repo, fi)
    check.analysed(fi)
    p_tree, p_rng = fi.positional_params[:2]
    # roles: LEAVES, TREEDEF = tree_flatten(<tree param>); KEYS = split(<rng param>, len(LEAVES))
    LEAVES = TREEDEF = None
    for ds in ff.rd.defs_at.values():
      for d in ds:
        v = d.value
        if isinstance(v, ast.Call) and ff.ext(v.func) == 'jax.tree_util.tree_flatten' and v.args and ff.param_of(v.args[0]) == p_tree and d.index:
          if d.index == (0,):
            LEAVES = d.name
          elif d.index == (1,):
            TREEDEF = d.name
    leaves_ok = LEAVES is not None
    split_ok = False
    split_call = None
    for _, v in ff.calls():
      if ff.ext(v.func) == 'jax.random.split' and len(v.args) == 2 and ff.param_of(v.args[0]) == p_rng:
        split_call = v
        split_ok = isinstance(v.args[1], ast.Call) and ff.ext(v.args[1].func) == 'builtins.len' and txt(v.args[1].args[0]) == LEAVES
    zip_ok = False
    call_ok = False
    target_fn = f'{MOD}:' + q.replace('_pytree', '')
    # the pairing loop: a for statement or a comprehension over zip(leaves, keys[, shapes])
    pairings = []
    for n in ff.cfg.nodes:
      if n.kind == 'for' and isinstance(n.ast.iter, ast.Call) and ff.ext(n.ast.iter.func) == 'builtins.zip':
        pairings.append((n.ast.iter, n.ast.target, [c for c in ast.walk(n.ast) if isinstance(c, ast.Call)]))
    for nd in ff.cfg.nodes:
      if nd.ast is None:
        continue
      for comp in nd.walk():
        if isinstance(comp, (ast.ListComp, ast.GeneratorExp)) and len(comp.generators) == 1 and isinstance(comp.generators[0].iter, ast.Call) and ff.ext(
            comp.generators[0].iter.func) == 'builtins.zip':
          pairings.append((comp.generators[0].iter, comp.generators[0].target, [c for c in ast.walk(comp.elt) if isinstance(c, ast.Call)]))
    for zc, tgt, inner_calls in pairings:
      za = zc.args
      this_zip = (len(za) == n_iter and txt(za[0]) == LEAVES and split_call is not None and any(v is split_call for v in ff.expand(za[1])))
      tg = [t.id for t in tgt.elts] if isinstance(tgt, ast.Tuple) else []
      for c in inner_calls:
        if wmean.repo_fn(ff, c) == target_fn:
          zip_ok = zip_ok or this_zip
          call_ok = call_ok or [txt(a) for a in c.args] == tg
    unflat = any(isinstance(rv, (ast.Call, ast.Tuple)) for _, rv in ff.returns()) and any(
        (ff.ext(c.func) == 'jax.tree_util.tree_unflatten' and txt(c.args[0]) == TREEDEF) or
        (isinstance(c.func, ast.Attribute) and c.func.attr == 'unflatten' and txt(c.func.value) == TREEDEF) for _, c in ff.calls())
    check.ob('R-SIB.rotation', fi, f'{q}: keys = split(rng, len(leaves)); zip(leaves, keys{", shapes" if n_iter == 3 else ""})',
             split_ok and leaves_ok and zip_ok and call_ok and unflat,
             f'leaf i of the flattened tree is paired with key i (split={split_ok}, leaves from the argument={leaves_ok}, zip order='
             f'{zip_ok}, per-leaf call takes them in that order={call_ok}, result rebuilt on the same tree structure={unflat})')
  # key linearity in the four functions
  ka = KeyAnalysis(repo)
  for q in ('structured_rotation', 'inverse_structured_rotation', 'structured_rotation_pytree', 'inverse_structured_rotation_pytree'):
    check_function(check, ka, repo.func(MOD, q), 'R-KEY')
  # the transform validates its block size and uses matching Hadamard factors
  wh = repo.func(MOD, 'walsh_hadamard_transform')
  wff = FuncFlow.of(repo, wh)
  check.analysed(wh)
  def _small_guard(t):
    f = lt_form(t)   # small_n <= 1  or  small_n < 2
    return f is not None and txt(f[0]) == 'small_n' and isinstance(f[2], ast.Constant) and ((not f[1] and f[2].value == 1) or (f[1] and f[2].value == 2))
  guard = any(n.kind == 'if' and _small_guard(n.ast.test) and any(isinstance(s, ast.Raise) for s in n.ast.body) for n in wff.cfg.nodes)
  had = any(isinstance(x, ast.Call) and wmean.repo_fn(wff, x) == f'{MOD}:hadamard_matrix' and txt(x.args[0]) == 'd' for n in wff.cfg.nodes
            if n.ast is not None for x in n.walk())
  check.ob('R-SIB.rotation', wh, 'small_n <= 1 -> ValueError; hadamard_matrix(d) per axis size d', guard and had,
           'degenerate block sizes are rejected and each reshaped axis of size d is multiplied by the Hadamard matrix of order d',
           nontrivial=False)
  _schedule(check, wh, wff)
  _factor_loop(check, wh, wff)
  _axis_loop(check, wh, wff)
  for f_, ff_ in ((rot, rff), (inv, iff)):
    for _, c in ff_.calls():
      if (ff_.ext(c.func) or '') in ('jax.numpy.sign', 'numpy.sign') and c.args and any(
          isinstance(y, ast.Call) and (ff_.ext(y.func) or '').startswith('jax.random.') for v in ff_.expand(c.args[0]) for y in ff_.deep_walk(v)):
        check.ob('R-SIGNS.zero', f_, txt(c)[:70], False,
                 'sign() of a continuous draw is 0 when the draw hits the threshold exactly: the "diagonal of signs" then has a zero entry, the '
                 'rotation loses a coordinate and is no longer inverted by the inverse (jax.random.rademacher gives exactly -1 / +1)',
                 node=c, exact=True)
  # no memo / cache: a rotation depends on its arguments only (shapes of an earlier tree must not leak into a later call)
  from fjsa.rules.pure import PurityAnalysis
  pa_ = PurityAnalysis(repo)
  n_mut = 0
  for g in repo.module(MOD).functions():
    for mu in pa_.mutations(g):
      if mu.root.startswith('<') or mu.root in g.params:
        n_mut += 1
        check.ob('R-PURE', g, mu.construct[:80], False,
                 f'{mu.how} ({mu.root}): state kept between calls - a later rotation can see shapes / keys of an earlier one', node=mu.node)
  check.ob('R-PURE', wh, 'no writes to module state or arguments in walsh_hadamard.py', n_mut == 0, 'rotations are functions of their arguments',
           nontrivial=False)
  # no function of the module consumes its argument buffers: the transform / rotation can be applied to the same array again
  from fjsa.rules.donate import DonationAnalysis
  da = DonationAnalysis(repo)
  decl = [d for d in da.declared() if d[0] is repo.module(MOD)]
  for d in decl:
    check.ob('R-DONATE', d[0], f'{d[2]} donates {d[3]}', False,
             'a donating jit wrapper invalidates the caller\'s array: H(H(x)), a norm check after the round trip or a second inverse with '
             'another key would read a deleted buffer', node=d[1])
  check.ob('R-DONATE', wh, 'no donate_argnums in walsh_hadamard.py', not decl, 'inputs stay valid after every call', nontrivial=False)
  # finiteness: rotations divide only by lengths (shape-derived) - a data-dependent denominator gives 0/0 on an all-zero leaf
  from fjsa.rules.div import DivAnalysis
  dv = DivAnalysis(repo)
  n_div = 0
  for fi in repo.module(MOD).functions():
    for st in dv.sites(fi):
      n_div += 1
      ok = st.cls != 'DATA' or st.guard is not None
      check.ob('R-DIV', fi, txt(st.node)[:90], ok,
               f'denominator {txt(st.denom)[:40]} is {st.cls} ({st.why}); guard: {st.guard}' +
               ('' if ok else ' - an all-zero leaf is rotated to NaN and cannot be rotated back'), node=st.node)
  check.ob('R-DIV', repo.module(MOD).functions()[0] if False else rot, f'{n_div} division site(s) in walsh_hadamard.py classified', True, 'no instance floor: a rewrite may legitimately use multiplications by reciprocal powers instead', nontrivial=False)


def _schedule(check: Check, wh: FuncInfo, wff: FuncFlow):
  """The per-axis contraction: einsum '<all axes>,<axis i><fresh K> -> <all axes with i replaced by K>' (the fresh label is a
  single digit), or tensordot over axis i followed by moveaxis(-1, i). Other formulations are not judged."""
  loops = [n.ast for n in wff.cfg.nodes if n.kind == 'for' and isinstance(n.ast.iter, ast.Call) and wff.ext(n.ast.iter.func) == 'builtins.enumerate']
  if len(loops) != 1 or not isinstance(loops[0].target, ast.Tuple):
    check.undecided('per-axis loop not in the enumerate(shape) form: the contraction schedule is not judged')
    return
  lp = loops[0]
  I = lp.target.elts[0].id
  calls = [x for st in lp.body for x in ast.walk(st) if isinstance(x, ast.Call)]
  ein = [c for c in calls if wff.ext(c.func) == 'jax.numpy.einsum']
  td = [c for c in calls if wff.ext(c.func) == 'jax.numpy.tensordot']
  if ein:
    c = ein[0]
    ok, why = None, 'subscripts not recognised'

    def local_def(e):
      if not isinstance(e, ast.Name):
        return e
      ds = [d for d in wff.defs_for(e) if d.value is not None]
      return ds[0].value if len(ds) == 1 else None

    spec = local_def(c.args[0])
    if isinstance(spec, ast.JoinedStr):
      parts = [(v.value if isinstance(v, ast.Constant) else v.value) for v in spec.values]
      shape_ok = (len(parts) == 5 and isinstance(parts[1], str) and parts[1] == ',' and isinstance(parts[3], str) and parts[3] == '->' and all(
          isinstance(parts[k], ast.AST) for k in (0, 2, 4)))
      if shape_ok:
        A, B, C = (local_def(parts[k]) for k in (0, 2, 4))
        # A: ''.join(str(j) for j in range(N))
        a_ok = False
        N = None
        if isinstance(A, ast.Call) and isinstance(A.func, ast.Attribute) and A.func.attr == 'join' and isinstance(A.func.value, ast.Constant) and A.func.value.value == '' \
            and A.args and isinstance(A.args[0], (ast.GeneratorExp, ast.ListComp)):
          g = A.args[0].generators[0]
          if isinstance(g.iter, ast.Call) and wff.ext(g.iter.func) == 'builtins.range' and len(g.iter.args) == 1 and txt(A.args[0].elt) == f'str({txt(g.target)})':
            N = g.iter.args[0]
            nd = local_def(N)
            a_ok = nd is not None and isinstance(nd, ast.Call) and wff.ext(nd.func) == 'builtins.len'
        # B: f'{i}{K}' in either order (Hadamard matrices are symmetric)
        b_ok, K = False, None
        if isinstance(B, ast.JoinedStr) and len(B.values) == 2 and all(isinstance(v, ast.FormattedValue) for v in B.values):
          vs = [v.value for v in B.values]
          for a, b in ((vs[0], vs[1]), (vs[1], vs[0])):
            if isinstance(a, ast.Name) and a.id == I:
              K = b
              b_ok = True
        def unstr(e):
          """The expression whose decimal text e is: str(E) -> E, a name bound to str(E) -> E."""
          e2 = local_def(e) if isinstance(e, ast.Name) else e
          if isinstance(e2, ast.Call) and wff.ext(e2.func) == 'builtins.str' and e2.args:
            return e2.args[0]
          return e
        if K is not None:
          K = unstr(K)
        # C: A.replace(str(i), str(K), 1)
        c_ok = None
        if K is not None and isinstance(C, ast.Call) and isinstance(C.func, ast.Attribute) and C.func.attr == 'replace' and \
            txt(local_def(C.func.value)) == txt(A) and len(C.args) >= 2:
          c_ok = txt(unstr(C.args[0])) == I and txt(unstr(C.args[1])) == txt(K)
        elif C is not None and A is not None and txt(C) == txt(A):
          c_ok = False   # the output keeps axis i: the new label is summed away
        # K is a label not used by y: N + c with c >= 0 (N itself is unused by range(N)), and single digit: guard K >= 10 -> raise
        k_fresh = None
        if K is not None and N is not None:
          kt, nt = txt(K), txt(N)
          if kt == nt:
            k_fresh = True
          elif isinstance(K, ast.BinOp) and isinstance(K.op, (ast.Add, ast.Sub)) and txt(K.left) == nt and isinstance(K.right, ast.Constant) and isinstance(K.right.value, int):
            k_fresh = isinstance(K.op, ast.Add) and K.right.value >= 0
        guard = None
        if K is not None:
          for n in wff.cfg.nodes:
            if n.kind == 'if' and isinstance(n.ast.test, ast.Compare) and len(n.ast.test.ops) == 1 and any(isinstance(s_, ast.Raise) for s_ in n.ast.body):
              f = lt_form(n.ast.test)   # 10 <= K  or  9 < K  (however written)
              if f is not None and isinstance(f[0], ast.Constant) and isinstance(f[0].value, int):
                big = f[2]
                bigv = local_def(big) if isinstance(big, ast.Name) else big
                same_k = txt(big) == txt(K) or (bigv is not None and txt(bigv) == txt(K))
                # len(shape) + 1 vs num_dims + 1: compare through the definition of N
                if not same_k and N is not None and isinstance(K, ast.BinOp) and isinstance(big, ast.BinOp) and txt(K.right) == txt(big.right) and type(K.op) is type(big.op):
                  nd_ = local_def(N) if isinstance(N, ast.Name) else N
                  same_k = nd_ is not None and atxt(wff, nd_) == atxt(wff, big.left)
                if same_k:
                  v = f[0].value
                  guard = bool(guard) or (not f[1] and v <= 10) or (f[1] and v <= 9)
          if guard is None and a_ok and b_ok:
            guard = False   # everything else is recognised and no test bounds the label
        args_ok = len(c.args) >= 3 and isinstance(c.args[2], ast.Subscript) and txt(c.args[2].slice) == lp.target.elts[1].id
        parts_v = [a_ok or None, b_ok or None, c_ok, k_fresh, guard, args_ok or None]
        if any(v is False for v in parts_v):
          ok = False
        elif all(v is True for v in parts_v):
          ok = True
        else:
          ok = None
        why = (f'y carries all axes={a_ok}; the Hadamard factor carries axis i and one fresh label={b_ok}; the output replaces axis i by '
               f'that label in place={c_ok}; the label is unused by y={k_fresh} and guaranteed to be a single digit (guard raises)={guard}; '
               f'the factor is the one for this axis size={args_ok} (None = construction not recognised)')
    if spec is not None and isinstance(spec, ast.JoinedStr):
      check.ob('R-SCHEDULE', wh, 'einsum("<axes>,<i><K>-><axes with i:=K>", y, H_d)', ok, why, node=c)
  elif td:
    c = td[0]
    # tensordot(y, H, axes=[[i],[0 or 1]]) moves the transformed axis to the end: it has to be moved (not swapped) back to i
    restore = [x for x in calls if wff.ext(x.func) in ('jax.numpy.moveaxis', 'jax.numpy.swapaxes', 'jax.numpy.transpose', 'jax.numpy.rollaxis')]
    if restore:
      r = restore[0]
      kind = wff.ext(r.func).split('.')[-1]
      if kind == 'moveaxis':
        ok = len(r.args) == 3 and txt(r.args[1]) == '-1' and txt(r.args[2]) == I
        check.ob('R-SCHEDULE', wh, txt(r)[:60], ok, 'after tensordot the transformed axis is last; moveaxis(-1, i) restores the axis order', node=r)
      elif kind == 'swapaxes':
        check.ob('R-SCHEDULE', wh, txt(r)[:60], False,
                 'after tensordot the transformed axis is last; swapping it with axis i also moves the axis that was last, so with three '
                 'or more factors the axes end up permuted: the result is not the Walsh-Hadamard transform', node=r)
    else:
      check.ob('R-SCHEDULE', wh, txt(c)[:60], False, 'tensordot moves the contracted axis to the end and nothing moves it back', node=c)


def _factor_loop(check: Check, wh: FuncInfo, wff: FuncFlow):
  """The reshape target is the factorisation of len(x) into blocks: while 1 < n: append(min(n, small_n)); n //= small_n. The loop stops
  when n reaches 1 (strict comparison): a non-strict test appends a spurious factor 1 (one more einsum dimension, and the dimension-name
  limit is hit one level early)."""
  from fjsa.flow import lt_form
  found = None
  for n in wff.cfg.nodes:
    if n.kind == 'while':
      apps = [c for c in ast.walk(n.ast) if isinstance(c, ast.Call) and isinstance(c.func, ast.Attribute) and c.func.attr == 'append']
      divs = [a for a in ast.walk(n.ast) if isinstance(a, ast.AugAssign) and isinstance(a.op, ast.FloorDiv)] + [
          a for a in ast.walk(n.ast) if isinstance(a, ast.Assign) and isinstance(a.value, ast.BinOp) and isinstance(a.value.op, ast.FloorDiv)]
      if apps and divs:
        found = n.ast
  if found is None:
    check.ob('R-SCHEDULE.factors', wh, 'while 1 < n: shape.append(min(n, small_n)); n //= small_n', None, 'factorisation loop not recognised')
    return
  f = lt_form(found.test)
  ok = None
  if f is not None:
    small, strict, big = f
    if isinstance(small, ast.Constant) and small.value == 1:
      ok = bool(strict)
    elif isinstance(small, ast.Constant) and small.value == 2:
      ok = not strict
    elif isinstance(small, ast.Constant) and small.value == 0:
      ok = False
  check.ob('R-SCHEDULE.factors', wh, f'while {txt(found.test)}', ok,
           'the factorisation of len(x) stops when the remaining length is 1: the loop test is 1 < n (2 <= n)', node=found)


def _axis_loop(check: Check, wh: FuncInfo, wff: FuncFlow):
  """One contraction per axis of the reshaped input: the loop that holds the einsum / tensordot runs over the axes (enumerate(shape),
  range(len(shape))), not over a de-duplicated collection of block sizes (a dict or set keyed by size has one entry for two axes of
  the same size, so the second axis is never transformed)."""
  for n in wff.cfg.nodes:
    if n.kind != 'for':
      continue
    if not any(isinstance(c, ast.Call) and (wff.ext(c.func) or '') in ('jax.numpy.einsum', 'jax.numpy.tensordot') for c in ast.walk(n.ast)):
      continue
    it = n.ast.iter
    dedup = False
    for v in wff.expand(it):
      base = v
      if isinstance(v, ast.Call) and isinstance(v.func, ast.Attribute) and v.func.attr in ('items', 'keys', 'values'):
        base = v.func.value
      for b in ([base] if not isinstance(base, ast.Name) else wff.expand(base)):
        if isinstance(b, (ast.Set, ast.SetComp, ast.Dict, ast.DictComp)) or (isinstance(b, ast.Call) and (wff.ext(b.func) or '') in (
            'builtins.set', 'builtins.frozenset', 'builtins.dict', 'dict.fromkeys')):
          dedup = True
    per_axis = any(isinstance(v, ast.Call) and (wff.ext(v.func) or '') in ('builtins.enumerate', 'builtins.range') for v in wff.expand(it))
    jumps = [x for x in ast.walk(n.ast) if isinstance(x, (ast.Continue, ast.Break))]
    if jumps:
      check.ob('R-SCHEDULE.axes', wh, 'continue / break in the per-axis loop', False,
               'some axes leave the loop body before their contraction: every axis of the reshaped input is transformed along its own '
               'axis index, a shortcut for one block size must still act on that axis', node=jumps[0], exact=True)
    check.ob('R-SCHEDULE.axes', wh, f'for {txt(n.ast.target)} in {txt(it)[:40]}', False if dedup else (True if per_axis else None),
             'the transform loop visits every axis once' if not dedup else
             'the transform loop runs over a set / dict of block sizes: two axes of the same size share one entry, so only one of them is '
             'transformed (lengths like 128 * 128)', node=n.ast)
  # identity-based bookkeeping (id(x), hash(x)) in the rotation of a tree: two positions holding the same array object would share
  # one rotation although each position has its own key
  for g in check.repo.module(MOD).functions():
    gff = FuncFlow.of(check.repo, g)
    for _, c in gff.calls():
      if (gff.ext(c.func) or '') in ('builtins.id', 'builtins.hash'):
        check.ob('R-NONDET', g, txt(c)[:40], False,
                 'object identity / hash decides what is computed: leaves that happen to be the same object are not treated as the '
                 'separate positions they are (each has its own key and must be inverted separately)', node=c, exact=True)

