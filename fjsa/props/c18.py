"""C18 - Walsh-Hadamard exact; structured rotation invertible (narrow structural part)."""
from __future__ import annotations

import ast
from typing import List, Optional, Tuple

from fjsa.flow import FuncFlow, call_args, same, txt
from fjsa.model import FuncInfo
from fjsa.report import Check
from fjsa.rules import wmean
from fjsa.rules.keys import KeyAnalysis, check_function

MOD = 'fedjax.aggregators.walsh_hadamard'
WHT = f'{MOD}:walsh_hadamard_transform'
SQRT = {'jax.numpy.sqrt', 'numpy.sqrt', 'math.sqrt'}


def _scale_info(ff: FuncFlow, e: ast.AST) -> Optional[Tuple[ast.AST, ast.AST]]:
  """(numerator, length expr) for  num / sqrt(L),  num * (1 / sqrt(L)),  num * L ** -0.5."""
  if isinstance(e, ast.BinOp) and isinstance(e.op, ast.Div) and isinstance(e.right, ast.Call) and ff.ext(e.right.func) in SQRT:
    return e.left, e.right.args[0]
  if isinstance(e, ast.BinOp) and isinstance(e.op, ast.Mult):
    for a, b in ((e.left, e.right), (e.right, e.left)):
      if isinstance(b, ast.BinOp) and isinstance(b.op, ast.Div) and isinstance(b.left, ast.Constant) and b.left.value == 1 and isinstance(
          b.right, ast.Call) and ff.ext(b.right.func) in SQRT:
        return a, b.right.args[0]
      if isinstance(b, ast.BinOp) and isinstance(b.op, ast.Pow):
        try:
          if ast.literal_eval(b.right) == -0.5:
            return a, b.left
        except Exception:  # pylint: disable=broad-except
          pass
  return None


def _factors(e: ast.AST) -> List[ast.AST]:
  if isinstance(e, ast.BinOp) and isinstance(e.op, ast.Mult):
    return _factors(e.left) + _factors(e.right)
  return [e]


def run(check: Check):
  repo = check.repo
  check.rule('R-SIB.rotation', 'rotation and inverse agree on every ingredient: per-leaf keys by split(rng, len(leaves)) zipped in '
             'flatten order; Rademacher signs drawn with the shape of the vector that goes through the transform; scaling by the '
             'reciprocal square root of that vector\'s length; sign-then-transform vs transform-then-sign; padding by '
             '(power-of-two ceiling - size) zeros and cropping to prod(original shape) before reshaping')
  check.rule('R-KEY', 'per-leaf keys are used linearly')
  check.undecided('that the Kronecker/einsum schedule equals the Sylvester Hadamard matrix for every (length, block size); norm '
                  'preservation; exact invertibility up to rounding - numerical, the larger half of this property')
  rot = repo.func(MOD, 'structured_rotation')
  inv = repo.func(MOD, 'inverse_structured_rotation')
  rff, iff = FuncFlow.of(repo, rot), FuncFlow.of(repo, inv)
  check.analysed(rot)
  check.analysed(inv)
  x, rng = rot.positional_params[:2]
  ix, irng, ishape = inv.positional_params[:3]
  # ---------------- forward
  ret = rff.returns()
  fwd = None
  for _, rv in ret:
    if isinstance(rv, ast.Tuple) and len(rv.elts) == 2:
      fwd = rv
  if fwd is None:
    check.inconclusive('R-SIB.rotation', rot, 'return', 'expected (rotated, original shape)')
    return
  si = _scale_info(rff, fwd.elts[0])
  f_ok = False
  f_why = 'scaled transform not recognised'
  w_name = d_expr = None
  if si is not None:
    num, length = si
    if isinstance(num, ast.Call) and wmean.repo_fn(rff, num) == WHT and num.args:
      arg = num.args[0]
      facs = _factors(arg)
      names = [f.id for f in facs if isinstance(f, ast.Name)]
      rad = [n for n in names if any(isinstance(d.value, ast.Call) and rff.ext(d.value.func) == 'jax.random.rademacher' for d in rff.defs_for(
          next(f for f in facs if isinstance(f, ast.Name) and f.id == n)))]
      vec = [n for n in names if n not in rad]
      if len(rad) == 1 and len(vec) == 1:
        w_name = vec[0]
        rd = next(iter(rff.defs_for(next(f for f in facs if isinstance(f, ast.Name) and f.id == rad[0])))).value
        shape_ok = len(rd.args) >= 2 and txt(rd.args[1]) == f'{w_name}.shape' and rff.param_of(rd.args[0]) == rng
        # length of w: w = pad(x_flat, (0, d - size)) -> len = d
        wdef = [d for d in rff.defs_for(next(f for f in facs if isinstance(f, ast.Name) and f.id == w_name))]
        pad_ok = False
        d_name = None
        for d in wdef:
          v = d.value
          if isinstance(v, ast.Call) and rff.ext(v.func) == 'jax.numpy.pad' and len(v.args) == 2 and isinstance(v.args[1], ast.Tuple):
            lo, hi = v.args[1].elts
            if isinstance(lo, ast.Constant) and lo.value == 0 and isinstance(hi, ast.BinOp) and isinstance(hi.op, ast.Sub) and isinstance(hi.left, ast.Name):
              d_name = hi.left.id
              size_txt = txt(hi.right)
              flat = v.args[0]
              flat_ok = any(isinstance(y, ast.Call) and rff.ext(y.func) == 'jax.numpy.reshape' and rff.param_of(y.args[0]) == x for y in rff.expand(flat)) or any(
                  isinstance(y, ast.Call) and isinstance(y.func, ast.Attribute) and y.func.attr in ('flatten', 'ravel') for y in rff.expand(flat))
              pad_ok = size_txt in (f'{x}.size', f'{txt(flat)}.size') and flat_ok
        len_ok = d_name is not None and txt(length) in (d_name, f'{w_name}.size', f'len({w_name})')
        pow2 = False
        if d_name:
          for ds in rff.rd.defs_at.values():
            for d in ds:
              if d.name == d_name and isinstance(d.value, ast.BinOp) and isinstance(d.value.op, ast.Pow) and isinstance(
                  d.value.left, ast.Constant) and d.value.left.value == 2:
                e = d.value.right
                pow2 = isinstance(e, ast.Call) and rff.ext(e.func) == 'math.ceil' and isinstance(e.args[0], ast.Call) and rff.ext(
                    e.args[0].func) == 'math.log2' and '.size' in txt(e.args[0].args[0])
        f_ok = shape_ok and pad_ok and len_ok and pow2
        f_why = (f'signs have the shape of the padded vector and come from this leaf\'s key={shape_ok}; zero padding by d - size='
                 f'{pad_ok}; d = 2**ceil(log2(size))={pow2}; scale 1/sqrt(length of the transformed vector)={len_ok}')
  check.ob('R-SIB.rotation', rot, 'H(D w) / sqrt(d), w = pad(flatten(x), d - size)', f_ok, f_why, node=fwd)
  shape_ret = isinstance(fwd.elts[1], ast.Call) and txt(fwd.elts[1].args[0]) == f'{x}.shape'
  check.ob('R-SIB.rotation', rot, 'returns the original shape', shape_ret, 'the shape handed to the inverse is the input\'s own shape')
  # ---------------- inverse
  i_ok = False
  i_why = 'inverse not recognised'
  wdefs = [d for ds in iff.rd.defs_at.values() for d in ds if d.kind == 'assign' and d.value is not None and _scale_info(iff, d.value) is not None]
  out_name = None
  if len(wdefs) == 1:
    num, length = _scale_info(iff, wdefs[0].value)
    out_name = wdefs[0].name
    facs = _factors(num)
    tr = [f for f in facs if isinstance(f, ast.Call) and wmean.repo_fn(iff, f) == WHT]
    rads = [f for f in facs if isinstance(f, ast.Name) and any(isinstance(d.value, ast.Call) and iff.ext(d.value.func) == 'jax.random.rademacher'
                                                              for d in iff.defs_for(f))]
    if len(tr) == 1 and len(rads) == 1 and len(facs) == 2:
      t_arg_ok = tr[0].args and iff.param_of(tr[0].args[0]) == ix
      rd = next(iter(iff.defs_for(rads[0]))).value
      shape_ok = len(rd.args) >= 2 and txt(rd.args[1]) == f'{ix}.shape' and iff.param_of(rd.args[0]) == irng
      len_ok = txt(length) in (f'{ix}.size', f'len({ix})', f'{ix}.shape[0]')
      i_ok = t_arg_ok and shape_ok and len_ok
      i_why = (f'transform applied to the rotated vector first, signs after={t_arg_ok}; signs of the rotated vector\'s shape from the '
               f'same key={shape_ok}; scale 1/sqrt(its length)={len_ok}')
  check.ob('R-SIB.rotation', inv, 'D H(x) / sqrt(len(x))', i_ok, i_why)
  # crop + reshape
  crop_ok = False
  for _, rv in iff.returns():
    if isinstance(rv, ast.Call) and iff.ext(rv.func) == 'jax.numpy.reshape' and len(rv.args) == 2 and iff.param_of(rv.args[1]) == ishape:
      for y in iff.expand(rv.args[0]):
        # w.take(arange(prod(shape)))  or  w[:prod(shape)]
        t = txt(y)
        uses_out = out_name is not None and t.startswith(out_name)
        size_defs = [d for ds in iff.rd.defs_at.values() for d in ds if isinstance(d.value, ast.Call) and iff.ext(d.value.func) in (
            'jax.numpy.prod', 'numpy.prod') and iff.param_of(d.value.args[0]) == ishape]
        crop_ok = uses_out and bool(size_defs) and size_defs[0].name in t
  check.ob('R-SIB.rotation', inv, 'reshape(w[:prod(original_shape)], original_shape)', crop_ok,
           'the padding is cut off (first prod(shape) entries) and the original shape restored')
  # ---------------- pytree wrappers
  for q, n_iter in (('structured_rotation_pytree', 2), ('inverse_structured_rotation_pytree', 3)):
    fi = repo.func(MOD, q)
    ff = FuncFlow.of(repo, fi)
    check.analysed(fi)
    p_tree, p_rng = fi.positional_params[:2]
    # roles: LEAVES, TREEDEF = tree_flatten(<tree param>); KEYS = split(<rng param>, len(LEAVES))
    LEAVES = TREEDEF = None
    for ds in ff.rd.defs_at.values():
      for d in ds:
        v = d.value
        if isinstance(v, ast.Call) and ff.ext(v.func) == 'jax.tree_util.tree_flatten' and v.args and ff.param_of(v.args[0]) == p_tree and d.index:
          if d.index == (0,):
            LEAVES = d.name
          elif d.index == (1,):
            TREEDEF = d.name
    leaves_ok = LEAVES is not None
    split_ok = False
    keys_name = None
    for ds in ff.rd.defs_at.values():
      for d in ds:
        v = d.value
        if isinstance(v, ast.Call) and ff.ext(v.func) == 'jax.random.split' and len(v.args) == 2 and ff.param_of(v.args[0]) == p_rng:
          keys_name = d.name
          split_ok = isinstance(v.args[1], ast.Call) and ff.ext(v.args[1].func) == 'builtins.len' and txt(v.args[1].args[0]) == LEAVES
    zip_ok = False
    call_ok = False
    for n in ff.cfg.nodes:
      if n.kind == 'for' and isinstance(n.ast.iter, ast.Call) and ff.ext(n.ast.iter.func) == 'builtins.zip':
        za = [txt(a) for a in n.ast.iter.args]
        zip_ok = za[:2] == [LEAVES, keys_name] and len(za) == n_iter
        tg = [t.id for t in n.ast.target.elts]
        target_fn = f'{MOD}:' + q.replace('_pytree', '')
        for c in ast.walk(n.ast):
          if isinstance(c, ast.Call) and wmean.repo_fn(ff, c) == target_fn:
            call_ok = [txt(a) for a in c.args] == tg
    unflat = any(isinstance(rv, (ast.Call, ast.Tuple)) for _, rv in ff.returns()) and any(
        ff.ext(c.func) == 'jax.tree_util.tree_unflatten' and txt(c.args[0]) == TREEDEF for _, c in ff.calls())
    check.ob('R-SIB.rotation', fi, f'{q}: keys = split(rng, len(leaves)); zip(leaves, keys{", shapes" if n_iter == 3 else ""})',
             split_ok and leaves_ok and zip_ok and call_ok and unflat,
             f'leaf i of the flattened tree is paired with key i (split={split_ok}, leaves from the argument={leaves_ok}, zip order='
             f'{zip_ok}, per-leaf call takes them in that order={call_ok}, result rebuilt on the same tree structure={unflat})')
  # key linearity in the four functions
  ka = KeyAnalysis(repo)
  for q in ('structured_rotation', 'inverse_structured_rotation', 'structured_rotation_pytree', 'inverse_structured_rotation_pytree'):
    check_function(check, ka, repo.func(MOD, q), 'R-KEY')
  # the transform validates its block size and uses matching Hadamard factors
  wh = repo.func(MOD, 'walsh_hadamard_transform')
  wff = FuncFlow.of(repo, wh)
  check.analysed(wh)
  guard = any(n.kind == 'if' and isinstance(n.ast.test, ast.Compare) and txt(n.ast.test.left) == 'small_n' and isinstance(
      n.ast.test.ops[0], ast.LtE) and any(isinstance(s, ast.Raise) for s in n.ast.body) for n in wff.cfg.nodes)
  had = any(isinstance(x, ast.Call) and wmean.repo_fn(wff, x) == f'{MOD}:hadamard_matrix' and txt(x.args[0]) == 'd' for n in wff.cfg.nodes
            if n.ast is not None for x in n.walk())
  check.ob('R-SIB.rotation', wh, 'small_n <= 1 -> ValueError; hadamard_matrix(d) per axis size d', guard and had,
           'degenerate block sizes are rejected and each reshaped axis of size d is multiplied by the Hadamard matrix of order d',
           nontrivial=False)
