"""C03 - sequential batching is an exact, order-preserving partition (structural part)."""
from __future__ import annotations

import ast
from typing import List, Optional

from fjsa.flow import FuncFlow, call_args, guards_of, same, txt
from fjsa.model import FuncInfo
from fjsa.report import Check
from fjsa.rules import wmean
from fjsa.rules.pure import PurityAnalysis

MOD = 'fedjax.core.client_datasets'


def _view_loop(check: Check, fi: FuncInfo):
  """for start in range(0, size, batch): stop = start + batch; slice(start, stop)"""
  repo = check.repo
  ff = FuncFlow.of(repo, fi)
  loops = [n.ast for n in ff.cfg.nodes if n.kind == 'for']
  if len(loops) != 1:
    check.inconclusive('R-SIB.view', fi, 'loop', f'{len(loops)} loops')
    return None
  lp = loops[0]
  it = lp.iter
  rng_ok = (isinstance(it, ast.Call) and ff.ext(it.func) == 'builtins.range' and len(it.args) == 3 and isinstance(it.args[0], ast.Constant) and
            it.args[0].value == 0 and txt(it.args[1]) == 'self._data_size' and txt(it.args[2]) == 'self._batch_size')
  start = lp.target.id if isinstance(lp.target, ast.Name) else None
  stop_ok = False
  stop_name = None
  for st in lp.body:
    if isinstance(st, ast.Assign) and isinstance(st.value, ast.BinOp) and isinstance(st.value.op, ast.Add):
      parts = {txt(st.value.left), txt(st.value.right)}
      if parts == {start, 'self._batch_size'} and isinstance(st.targets[0], ast.Name):
        stop_ok = True
        stop_name = st.targets[0].id
  slice_ok = False
  proc_ok = False
  proc_name = None
  for st in lp.body:
    for c in ast.walk(st):
      if isinstance(c, ast.Call) and wmean.repo_fn(ff, c) == f'{MOD}:slice_examples' and len(c.args) == 2:
        a, s = c.args
        slice_ok = txt(a) == 'self._client_dataset.raw_examples' and isinstance(s, ast.Call) and txt(s.func) == 'slice' and [
            txt(x) for x in s.args] == [start, stop_name]
      if isinstance(c, ast.Call) and txt(c.func) == 'self._client_dataset.preprocessor' and len(c.args) == 1:
        proc_ok = True
        pst = ff.module.enclosing_stmt(c)
        if isinstance(pst, ast.Assign) and isinstance(pst.targets[0], ast.Name):
          proc_name = pst.targets[0].id
  return dict(loop=lp, range_ok=rng_ok, stop_ok=stop_ok, slice_ok=slice_ok, proc_ok=proc_ok, start=start, stop=stop_name, ff=ff,
              processed=proc_name)


def _full_pred(test: ast.AST, stop: str) -> Optional[bool]:
  """`stop <= self._data_size` (True when the batch is full)."""
  if isinstance(test, ast.Compare) and len(test.ops) == 1:
    l, op, r = txt(test.left), test.ops[0], txt(test.comparators[0])
    if l == stop and r == 'self._data_size' and isinstance(op, ast.LtE):
      return True
    if r == stop and l == 'self._data_size' and isinstance(op, ast.GtE):
      return True
    if l == stop and r == 'self._data_size' and isinstance(op, ast.Gt):
      return False
    if r == stop and l == 'self._data_size' and isinstance(op, ast.Lt):
      return False
  if isinstance(test, ast.UnaryOp) and isinstance(test.op, ast.Not):
    v = _full_pred(test.operand, stop)
    return None if v is None else not v
  return None


def run(check: Check):
  repo = check.repo
  check.rule('R-SIB.view', 'BatchView and PaddedBatchView iterate range(0, size, batch), slice raw examples [start, start+batch), '
             'preprocess the slice, and classify a full batch by the same predicate (stop <= size); the padded view pads only on '
             'the complement of that predicate; the plain view drops only a non-full batch')
  check.rule('R-PAIR.pad', 'pad_examples: mask = arange(size) < n (a prefix), the copy bound is the same n, zeros use '
             'v.shape[1:] and v.dtype, too small a size raises, an existing mask key raises')
  check.rule('R-PURE', 'no iterator or helper writes to self, to raw_examples or to its arrays (re-iteration is identical and '
             'the dataset is untouched, given pure user preprocessors); BatchPreprocessor copies the dict before running the chain')
  check.rule('R-BUCKET', '_pick_final_batch_size returns batch_size when the remainder is zero and otherwise the last `high` of '
             'a halving search bounded by the bucket count (shape only)')
  check.undecided('that range/slice covers every row exactly once for all (N, batch_size) and that the bucket search returns the '
                  'smallest admissible size for all (N mod b, b, buckets): unbounded integer arithmetic, outside this family')
  check.assume('user batch preprocessors are pure functions of their input batch')
  bv = repo.func(MOD, 'BatchView.__iter__')
  pv = repo.func(MOD, 'PaddedBatchView.__iter__')
  infos = {}
  for name, fi in (('BatchView', bv), ('PaddedBatchView', pv)):
    check.analysed(fi)
    info = _view_loop(check, fi)
    if info is None:
      continue
    infos[name] = info
    check.ob('R-SIB.view', fi, f'{name}: range(0, size, batch) / slice(start, start + batch)',
             info['range_ok'] and info['stop_ok'] and info['slice_ok'] and info['proc_ok'],
             f'range={info["range_ok"]}, stop=start+batch={info["stop_ok"]}, slice of raw examples [start, stop)={info["slice_ok"]}, '
             f'preprocessed={info["proc_ok"]}')
  # full-batch predicate and what happens on each side
  if 'PaddedBatchView' in infos:
    info = infos['PaddedBatchView']
    ff = info['ff']
    ys = [(n, y) for n, y in ff.yields()]
    full_arm = pad_arm = False
    seen_full = seen_pad = False
    wrong_pred = False
    FM = next((d.name for ds in ff.rd.defs_at.values() for d in ds if isinstance(d.value, ast.Call) and ff.ext(d.value.func) == 'numpy.ones'), None)
    PROC = info['processed']
    for n, y in ys:
      g = guards_of(ff, ff.module.enclosing_stmt(y))
      preds = [(_full_pred(t, info['stop']), pol) for t, pol in g]
      preds = [(p, pol) for p, pol in preds if p is not None]
      if not preds:
        # a comparison of the batch end with the data size that is not the full-batch predicate (strict / shifted): a wrong split
        if any(isinstance(t, ast.Compare) and info['stop'] in {txt(t.left), txt(t.comparators[0])} and 'self._data_size' in txt(t) for t, _ in g):
          wrong_pred = True
        continue
      is_full = preds[0][0] == preds[0][1]
      v = y.value
      seen_full, seen_pad = seen_full or is_full, seen_pad or not is_full
      if is_full:
        full_arm = isinstance(v, ast.Dict) and any(k is None for k in v.keys) and any(
            isinstance(k, ast.Name) and k.id == 'EXAMPLE_MASK_KEY' for k in v.keys if k is not None) and any(
                isinstance(x, ast.Name) and x.id == FM for x in v.values) and any(isinstance(x, ast.Name) and x.id == PROC for x in v.values)
      else:
        pad_arm = isinstance(v, ast.Call) and wmean.repo_fn(ff, v) == f'{MOD}:pad_examples' and len(v.args) == 2 and txt(
            v.args[1]) == 'self._final_batch_size' and txt(v.args[0]) == PROC
    check.ob('R-SIB.view', pv, 'stop <= size: all-True mask / else pad_examples(processed, final_batch_size)',
             False if wrong_pred else ((full_arm and pad_arm) if (seen_full and seen_pad) else None),
             f'full batches get an all-True mask (ok={full_arm}); only the incomplete final batch is padded, to the precomputed '
             f'final size (ok={pad_arm})')
    # padding is applied to what the preprocessor returned (the preprocessor never sees padding rows)
    for _, c in ff.calls():
      if wmean.repo_fn(ff, c) == f'{MOD}:pad_examples' and c.args:
        srcs = ff.expand(c.args[0])
        from_pre = any(isinstance(v, ast.Call) and txt(v.func).endswith('.preprocessor') for v in srcs)
        from_raw = any(isinstance(v, ast.Call) and wmean.repo_fn(ff, v) == f'{MOD}:slice_examples' for v in srcs)
        check.ob('R-SIB.view', pv, txt(c)[:70], True if from_pre and not from_raw else (False if from_raw else None),
                 'the incomplete batch is padded after preprocessing' if not from_raw else
                 'the raw slice is padded before the preprocessor runs: the preprocessor then sees (and may spread) the zero padding rows, '
                 'and the mask no longer describes its output', node=c)
    # full mask is all ones of batch_size
    fm = any(d.name == FM and isinstance(d.value, ast.Call) and ff.ext(d.value.func) == 'numpy.ones' and 'self._batch_size' in txt(
        d.value.args[0]) and 'bool' in txt(d.value) for ds in ff.rd.defs_at.values() for d in ds)
    check.ob('R-SIB.view', pv, 'full_mask = np.ones([batch_size], bool)', fm, 'the mask of a full batch marks every row as real')
  if 'BatchView' in infos:
    info = infos['BatchView']
    ff = info['ff']
    ok = False
    for n, y in ff.yields():
      g = guards_of(ff, ff.module.enclosing_stmt(y))
      for t, pol in g:
        if pol and isinstance(t, ast.BoolOp) and isinstance(t.op, ast.Or) and len(t.values) == 2:
          a, b = t.values
          ok = txt(a) == 'not self._drop_remainder' and _full_pred(b, info['stop']) is True
      yv = y.value
      ok = ok and isinstance(yv, ast.Name) and yv.id == info['processed']
    check.ob('R-SIB.view', bv, 'yield if not drop_remainder or stop <= size', ok,
             'every batch is yielded except an incomplete final batch when drop_remainder is set')
  # final batch size computed from the same (size, batch, buckets)
  init = repo.func(MOD, 'PaddedBatchView.__init__')
  okf = any(isinstance(st, ast.Assign) and txt(st.targets[0]) == 'self._final_batch_size' and isinstance(st.value, ast.Call) and [
      txt(a) for a in st.value.args] == ['self._data_size', 'self._batch_size', 'hparams.num_batch_size_buckets'] for st in init.node.body)
  check.ob('R-BUCKET', init, '_pick_final_batch_size(data_size, batch_size, num_batch_size_buckets)', okf,
           'the padded size of the final batch is derived from this view\'s own size, batch size and bucket count')
  _dataset(check)
  _view_fields(check)
  _pick(check)
  _pad_examples(check)
  _attach_mask(check)
  _slice_examples(check)
  # purity
  pa = PurityAnalysis(repo)
  targets = [bv, pv, repo.func(MOD, 'slice_examples'), repo.func(MOD, 'pad_examples'), repo.func(MOD, 'attach_mask'),
             repo.func(MOD, 'BatchPreprocessor.__call__'), repo.func(MOD, 'concat_examples'), repo.func(MOD, 'ClientDataset.__getitem__'),
             repo.func(MOD, 'ClientDataset.all_examples'), repo.func(MOD, 'ClientDataset.padded_batch'), repo.func(MOD, 'ClientDataset.batch')]
  for fi in targets:
    check.analysed(fi)
    bad = [mu for mu in pa.mutations(fi) if mu.root in fi.params or mu.root.startswith('<global')]
    for mu in bad:
      check.ob('R-PURE', fi, mu.construct, False, f'{mu.how}: iterating / slicing must not change the dataset ({mu.root})', node=mu.node, exact=True)
    if not bad:
      check.ob('R-PURE', fi, fi.qualname, True, 'no write through self / arguments')
  call = repo.func(MOD, 'BatchPreprocessor.__call__')
  cff = FuncFlow.of(repo, call)
  copy = False
  for n in cff.cfg.nodes:
    if n.kind == 'for' and txt(n.ast.iter) == 'self._fns':
      for st in n.ast.body:
        if isinstance(st, ast.Assign) and isinstance(st.value, ast.Call) and len(st.value.args) == 1 and isinstance(st.value.args[0], ast.Name):
          first = [d for d in cff.rd.reaching(next(x for x in cff.cfg.nodes if x.kind == 'for-iter' and x.ast is n.ast), st.value.args[0].id)]
          copy = bool(first) and all(isinstance(d.value, ast.Call) and cff.ext(d.value.func) == 'builtins.dict' and cff.param_of(
              d.value.args[0]) == call.positional_params[1] for d in first)
  check.ob('R-PURE.copy', call, 'out = dict(examples)', copy, 'preprocessing functions receive a copy of the mapping, not the caller\'s dict')


def _dataset(check: Check):
  """A dataset's size is the row count of the examples it holds now; a slice is a new dataset built from the sliced examples."""
  repo = check.repo
  ci = repo.cls(MOD, 'ClientDataset')
  ln, gi = ci.method('__len__'), ci.method('__getitem__')
  lff, gff = FuncFlow.of(repo, ln), FuncFlow.of(repo, gi)
  check.analysed(ln)
  check.analysed(gi)
  ok_len = False
  for _, rv in lff.returns():
    ok_len = any(isinstance(x, ast.Attribute) and x.attr == 'raw_examples' and txt(x.value) == 'self' for x in lff.deep_walk(rv))
  check.ob('R-SIB.size', ln, 'len(dataset) from self.raw_examples', ok_len,
           'the size is computed from the examples held now, not from a value cached at construction (a sliced / rebuilt dataset would keep '
           'the old size and every view would iterate past its rows)')
  ok_gi = False
  for _, rv in gff.returns():
    for v in gff.expand(rv):
      if isinstance(v, ast.Call):
        r = gff.callee(v)
        if r.kind == 'class' and r.cls is ci and len(v.args) >= 1:
          a0 = [w for w in gff.expand(v.args[0])]
          sl = any(isinstance(w, ast.Call) and wmean.repo_fn(gff, w) == f'{MOD}:slice_examples' and len(w.args) == 2 and txt(w.args[0]) == 'self.raw_examples'
                   and gff.param_of(w.args[1]) == gi.positional_params[1] for w in a0)
          pre = len(v.args) >= 2 and txt(v.args[1]) == 'self.preprocessor' or any(k.arg == 'preprocessor' and txt(k.value) == 'self.preprocessor' for k in v.keywords)
          ok_gi = sl and pre
  check.ob('R-SIB.size', gi, 'ClientDataset(slice_examples(self.raw_examples, index), self.preprocessor)', ok_gi,
           'a slice is a fresh dataset constructed from the sliced examples and the same preprocessor (not a shallow copy that keeps '
           'derived fields of the parent)')


def _view_fields(check: Check):
  """Views keep the hyper-parameters they were given: a field initialised from hparams.<f> is stored once, unmodified."""
  repo = check.repo
  n = 0
  for cname in ('BatchView', 'PaddedBatchView'):
    init = repo.cls(MOD, cname).method('__init__')
    ff = FuncFlow.of(repo, init)
    check.analysed(init)
    hp = init.positional_params[2] if len(init.positional_params) > 2 else 'hparams'
    stores = {}
    for nd in ff.cfg.nodes:
      if nd.kind == 'stmt' and isinstance(nd.ast, (ast.Assign, ast.AugAssign)):
        tgts = nd.ast.targets if isinstance(nd.ast, ast.Assign) else [nd.ast.target]
        for t in tgts:
          if isinstance(t, ast.Attribute) and txt(t.value) == 'self':
            stores.setdefault(t.attr, []).append(nd.ast)
    for attr, sts in stores.items():
      direct = [s for s in sts if isinstance(s, ast.Assign) and isinstance(s.value, ast.Attribute) and ff.param_of(s.value.value) == hp]
      if not direct:
        continue
      n += 1
      check.ob('R-SIB.fields', init, f'self.{attr} = {hp}.{direct[0].value.attr}', len(sts) == 1,
               f'`self.{attr}` holds the configured `{direct[0].value.attr}`; it is assigned {len(sts)} time(s) - a later adjustment (e.g. clamping '
               'to the client size) changes the batch shapes the caller asked for', node=sts[-1])
  check.floor('R-SIB.fields', 'hyper-parameter fields of the views', n, 2)


def _pick(check: Check):
  repo = check.repo
  fi = repo.func(MOD, '_pick_final_batch_size')
  ff = FuncFlow.of(repo, fi)
  check.analysed(fi)
  ds_, bs, nb = fi.positional_params[:3]
  rem_defs = [d for ds in ff.rd.defs_at.values() for d in ds if isinstance(d.value, ast.BinOp) and isinstance(d.value.op, ast.Mod) and ff.param_of(
      d.value.left) == ds_ and ff.param_of(d.value.right) == bs]
  rem_ok = len(rem_defs) == 1
  rem_name = rem_defs[0].name if rem_ok else None
  zero_ok = False
  for n in ff.cfg.nodes:
    if n.kind == 'if' and isinstance(n.ast.test, ast.Compare) and isinstance(n.ast.test.ops[0], ast.Eq) and txt(n.ast.test.left) == rem_name and txt(
        n.ast.test.comparators[0]) == '0':
      zero_ok = any(isinstance(s, ast.Return) and ff.param_of(s.value) == bs for s in n.ast.body)
  check.ob('R-BUCKET', fi, 'remainder == 0 -> batch_size', rem_ok and zero_ok, 'a dataset that divides evenly needs no padding')
  # bucket sizes are integers obtained by exact halving: no floating point on the way (log2 / true division round, and the
  # truncated result is one bucket off for remainders that are exactly batch_size / 2**k)
  for _, c in ff.calls():
    p_ = ff.ext(c.func) or ''
    if p_ in ('math.log2', 'math.log', 'numpy.log2', 'numpy.log', 'math.sqrt', 'math.pow', 'builtins.float', 'math.floor', 'math.ceil', 'builtins.round'):
      check.ob('R-BUCKET.float', fi, txt(c)[:60], False,
               'the bucket is computed through floating point: for some (batch_size, remainder) pairs the rounded result is off by one '
               'halving, so the final batch is twice as large as the bucket rule says (or too small to hold the remainder)', node=c, exact=True)
  for nd in ff.cfg.nodes:
    if nd.ast is not None:
      for x in nd.walk():
        if isinstance(x, ast.BinOp) and isinstance(x.op, ast.Div):
          check.ob('R-BUCKET.float', fi, txt(x)[:60], False, 'true division in the integer bucket computation', node=x, exact=True)
  # the halves are floor halves of the batch size itself: batch_size // 2, then low // 2
  halves = [x for nd in ff.cfg.nodes if nd.ast is not None for x in nd.walk() if isinstance(x, ast.BinOp) and isinstance(x.op, (ast.FloorDiv, ast.RShift))]
  seen_h = set()
  for x in halves:
    if id(x) in seen_h:
      continue
    seen_h.add(id(x))
    by_two = isinstance(x.right, ast.Constant) and x.right.value == (2 if isinstance(x.op, ast.FloorDiv) else 1)
    plain = isinstance(x.left, ast.Name)
    if by_two:
      check.ob('R-BUCKET.half', fi, txt(x), plain,
               'each bucket is the floor half of the previous one (batch_size // 2, low // 2): a rounded-up half makes the smallest bucket '
               'for an odd batch size larger than the rule allows', node=x)
  # halving search: if the code has the documented shape, its operators must be the right ones; another shape is
  # left undecided (integer arithmetic is outside this family) rather than reported
  for n in ff.cfg.nodes:
    if n.kind != 'while':
      continue
    t = n.ast.test
    if not (isinstance(t, ast.BoolOp) and isinstance(t.op, ast.And) and len(t.values) == 2 and all(
        isinstance(v, ast.Compare) and len(v.ops) == 1 for v in t.values)):
      check.undecided('_pick_final_batch_size loop condition has an unrecognised shape')
      continue
    keep = cnt = None
    for v in t.values:
      names = {x.id for x in ast.walk(v) if isinstance(x, ast.Name)}
      if rem_name in names:
        keep = v
      elif nb in names:
        cnt = v
    if keep is None or cnt is None:
      check.undecided('_pick_final_batch_size loop condition has an unrecognised shape')
      continue
    # keep halving while the smaller size still holds the remainder: low >= rem
    l, op, r = keep.left, keep.ops[0], keep.comparators[0]
    if isinstance(r, ast.Name) and r.id == rem_name:
      keep_ok = isinstance(op, ast.GtE)
    elif isinstance(l, ast.Name) and l.id == rem_name:
      keep_ok = isinstance(op, ast.LtE)
    else:
      keep_ok = False
    l, op, r = cnt.left, cnt.ops[0], cnt.comparators[0]
    if ff.param_of(r) == nb:
      cnt_ok = isinstance(op, ast.Lt)
    elif ff.param_of(l) == nb:
      cnt_ok = isinstance(op, ast.Gt)
    else:
      cnt_ok = False
    check.ob('R-BUCKET', fi, txt(t), keep_ok and cnt_ok,
             f'halve while the smaller size still holds the remainder (`low >= remainder`, ok={keep_ok}) and fewer than '
             f'num_batch_size_buckets sizes have been tried (`n < buckets`, ok={cnt_ok})', node=t)
    # the counter starts at 1 (the full batch size is the first bucket)
    starts = [d for ds in ff.rd.defs_at.values() for d in ds if d.kind == 'assign' and d.index is not None and wmean._loop_of(ff, d.node.ast) is None
              and isinstance(d.value, ast.Tuple)]
    cname = next((x.id for x in ast.walk(cnt) if isinstance(x, ast.Name) and ff.param_of(x) is None and x.id != nb), None)
    for d in starts:
      if d.name == cname:
        v0 = d.value.elts[d.index[0]]
        check.ob('R-BUCKET', fi, f'{cname} starts at {txt(v0)}', isinstance(v0, ast.Constant) and v0.value == 1,
                 'the unhalved batch size counts as the first bucket')


def _pad_examples(check: Check):
  repo = check.repo
  fi = repo.func(MOD, 'pad_examples')
  ff = FuncFlow.of(repo, fi)
  check.analysed(fi)
  p_ex, p_size = fi.positional_params[:2]
  cur = None
  for ds in ff.rd.defs_at.values():
    for d in ds:
      if isinstance(d.value, ast.Call) and wmean.repo_fn(ff, d.value) == f'{MOD}:num_examples' and ff.param_of(d.value.args[0]) == p_ex:
        cur = d.name
  mask_ok = False
  for ds in ff.rd.defs_at.values():
    for d in ds:
      v = d.value
      if isinstance(v, ast.Dict) and len(v.keys) == 1 and isinstance(v.keys[0], ast.Name) and v.keys[0].id == 'EXAMPLE_MASK_KEY':
        m = v.values[0]
        mask_ok = (isinstance(m, ast.Compare) and isinstance(m.ops[0], ast.Lt) and isinstance(m.left, ast.Call) and ff.ext(m.left.func) == 'numpy.arange'
                   and ff.param_of(m.left.args[0]) == p_size and txt(m.comparators[0]) == cur)
  check.ob('R-PAIR.pad', fi, 'mask = np.arange(size) < current_size', mask_ok,
           'the mask is True on exactly the first current_size rows (a prefix) of a batch of the requested size')
  copy_ok = zeros_ok = False
  for n in ff.cfg.nodes:
    if n.kind == 'for-bind':
      lp = n.ast
      v = lp.target.elts[1].id if isinstance(lp.target, ast.Tuple) else None
      PADV = next((st.targets[0].id for st in lp.body if isinstance(st, ast.Assign) and isinstance(st.value, ast.Call) and ff.ext(
          st.value.func) == 'numpy.zeros' and isinstance(st.targets[0], ast.Name)), None)
      for st in lp.body:
        if isinstance(st, ast.Assign) and isinstance(st.value, ast.Call) and ff.ext(st.value.func) == 'numpy.zeros':
          a = list(st.value.args) + [k.value for k in st.value.keywords]
          shape_txt = txt(a[0]) if a else ''
          has_tail = any(isinstance(x, ast.Subscript) and isinstance(x.value, ast.Attribute) and x.value.attr == 'shape' and txt(
              x.value.value) == v and isinstance(x.slice, ast.Slice) and txt(x.slice.lower) == '1' and x.slice.upper is None
                         for x in ast.walk(a[0])) if a else False
          has_size = any(isinstance(x, ast.Name) and x.id == p_size for x in ast.walk(a[0])) if a else False
          has_dtype = any(txt(x) == f'{v}.dtype' for x in a[1:])
          zeros_ok = has_tail and has_size and has_dtype
        if isinstance(st, ast.Assign) and isinstance(st.targets[0], ast.Subscript) and isinstance(st.targets[0].slice, ast.Slice):
          sl = st.targets[0].slice
          copy_ok = sl.lower is None and txt(sl.upper) == cur and txt(st.value) == v and txt(st.targets[0].value) == PADV
      # the padded array is what is stored under the feature's key
      stored = any(isinstance(st, ast.Assign) and isinstance(st.targets[0], ast.Subscript) and not isinstance(st.targets[0].slice, ast.Slice) and txt(
          st.value) == PADV for st in lp.body)
      copy_ok = copy_ok and stored
  check.ob('R-PAIR.pad', fi, 'padded = zeros((size,) + v.shape[1:], v.dtype); padded[:current_size] = v', copy_ok and zeros_ok,
           f'padding rows are zeros of the feature\'s own dtype and trailing shape (ok={zeros_ok}); the real rows are copied to the '
           f'same prefix the mask marks (ok={copy_ok})')
  raises = [n.ast for n in ff.cfg.nodes if n.kind == 'if' and any(isinstance(s, ast.Raise) for s in n.ast.body)]
  size_chk = any(txt(r.test) in (f'{cur} > {p_size}', f'{p_size} < {cur}') for r in raises)
  mask_chk = any('EXAMPLE_MASK_KEY in' in txt(r.test) for r in raises)
  check.ob('R-PAIR.pad', fi, 'size / existing-mask validation', size_chk and mask_chk,
           f'too small a target size (ok={size_chk}) and an already present mask feature (ok={mask_chk}) are rejected')


def _attach_mask(check: Check):
  repo = check.repo
  fi = repo.func(MOD, 'attach_mask')
  ff = FuncFlow.of(repo, fi)
  p_ex, p_mask = fi.positional_params[:2]
  ok = False
  for _, rv in ff.returns():
    if isinstance(rv, ast.Dict) and len(rv.keys) == 2 and rv.keys[0] is None and ff.param_of(rv.values[0]) == p_ex and isinstance(
        rv.keys[1], ast.Name) and rv.keys[1].id == 'EXAMPLE_MASK_KEY' and ff.param_of(rv.values[1]) == p_mask:
      ok = True
  check.ob('R-PAIR.pad', fi, '{**examples, EXAMPLE_MASK_KEY: mask}', ok, 'a new mapping with the mask added; features untouched')


def _slice_examples(check: Check):
  repo = check.repo
  fi = repo.func(MOD, 'slice_examples')
  ff = FuncFlow.of(repo, fi)
  p_ex, p_idx = fi.positional_params[:2]
  ok = None
  for _, rv in ff.returns():
    for v in (ff.expand(rv) if rv is not None else []):
      if isinstance(v, ast.DictComp) and len(v.generators) == 1 and isinstance(v.generators[0].target, ast.Tuple) and len(
          v.generators[0].target.elts) == 2 and txt(v.generators[0].iter) == f'{p_ex}.items()':
        kn, vn = [txt(t) for t in v.generators[0].target.elts]
        ok = txt(v.key) == kn and txt(v.value) == f'{vn}[{p_idx}]' and not v.generators[0].ifs
  if ok is None:
    # explicit loop: for k, v in examples.items(): out[k] = v[index]
    for n in ff.cfg.nodes:
      if n.kind == 'for' and txt(n.ast.iter) == f'{p_ex}.items()' and isinstance(n.ast.target, ast.Tuple) and len(n.ast.target.elts) == 2:
        kn, vn = [txt(t) for t in n.ast.target.elts]
        stores = [st for st in n.ast.body if isinstance(st, ast.Assign) and isinstance(st.targets[0], ast.Subscript)]
        if len(stores) == 1 and len(n.ast.body) == len([st for st in n.ast.body if not (isinstance(st, ast.Expr) and isinstance(st.value, ast.Constant))]):
          st = stores[0]
          ok = txt(st.targets[0].slice) == kn and txt(st.value) == f'{vn}[{p_idx}]' and len(n.ast.body) == 1
  check.ob('R-SIB.view', fi, '{k: v[index] for k, v in examples.items()}', ok,
           'every feature is sliced with the same index (rows stay aligned across features, order preserved)')
