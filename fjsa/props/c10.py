"""C10 - a training round is a pure function of (server state, clients)."""
from __future__ import annotations

import ast
from typing import Dict, List, Optional, Set

from fjsa.flow import FuncFlow, txt
from fjsa.model import FuncInfo, Repo
from fjsa.report import Check
from fjsa.rules import entries
from fjsa.rules.donate import DonationAnalysis
from fjsa.rules.pure import PurityAnalysis, Mutation

NONDETERMINISM_PREFIXES = ('numpy.random.', 'random.', 'time.', 'datetime.', 'os.urandom', 'uuid.', 'secrets.', 'builtins.hash', 'builtins.id')
ALLOWED_NONDET = {'numpy.random.RandomState', 'numpy.random.default_rng'}  # seeded generators are values


def entry_of(fi: FuncInfo, entry_nodes: Set[int]) -> FuncInfo:
  """Outermost ancestor-or-self of `fi` that is a round entry; else fi."""
  best = fi if id(fi.node) in entry_nodes else None
  s = fi.scope.parent
  while s is not None:
    if s.kind == 'function' and id(s.node) in entry_nodes:
      best = s.module.funcs_by_node[s.node]
    s = s.parent
  return best or fi


def binding_scope_outside(fi: FuncInfo, name: str, entry: FuncInfo) -> Optional[bool]:
  sc = fi.scope.lookup_scope(name)
  if sc is None:
    return None
  s = sc
  while s is not None:
    if s is entry.scope:
      return False
    s = s.parent
  return True


def classify(m: Mutation, entry: FuncInfo) -> Optional[str]:
  """Returns a description if the mutation is a purity violation for the
  round entry `entry`, else None."""
  root = m.root
  if root.startswith('<captured:'):
    name = root[len('<captured:'):-1]
    outside = binding_scope_outside(m.fi, name, entry)
    if outside is False:
      return None  # created inside this invocation
    return f'mutates captured variable {name!r} that outlives one invocation (hidden state between rounds)'
  if root.startswith('<global:'):
    return f'mutates module-level object {root[8:-1]!r}'
  if root.startswith('<nonlocal') or root.startswith('<global') or root.startswith('<outer'):
    return f'rebinds outer-scope name {root}'
  if root in m.fi.params:
    if root == 'self' and m.fi.name in ('__init__',):
      return None
    return f'writes through its parameter {root!r} (caller-visible)'
  # root is a parameter of an enclosing function seen through a closure
  sc = m.fi.scope.parent
  while sc is not None:
    if sc.kind == 'function' and root in sc.bindings and any(b.kind == 'param' for b in sc.bindings[root]):
      return f'writes through parameter {root!r} of enclosing {sc.qualname}'
    sc = sc.parent
  return None


def hidden_state(check: Check, mods, rule: str = 'R-PURE.state', only_kinds=('captured', 'global', 'param')) -> int:
  """The purity rule of C10 for the round entries defined in `mods`, reporting violations only (used by the properties that own
  those modules: a counter that accumulates across rounds, a cache at module level, a state list updated in place)."""
  repo = check.repo
  pa = PurityAnalysis(repo)
  algs = entries.find_algorithms(repo, mods)
  aggs = entries.find_aggregators(repo, mods)
  triples = entries.find_triples(repo, mods)
  entry_nodes: Set[int] = set()
  for a in algs + aggs:
    entry_nodes.add(id(a.apply.node))
    if a.init is not None:
      entry_nodes.add(id(a.init.node))
  for t in triples:
    for f in t.functions():
      entry_nodes.add(id(f.node))
  n = bad = 0
  for m in mods:
    for fi in m.functions():
      n += 1
      entry = entry_of(fi, entry_nodes)
      for mu in pa.mutations(fi):
        why = classify(mu, entry)
        if why is not None:
          bad += 1
          check.ob(rule, fi, mu.construct, False, f'{mu.how}: {why}', node=mu.node, exact=True)
  if not bad:
    check.ob(rule, (mods[0].relpath if mods else 'fedjax', '<functions>'), f'{n} functions', True,
             'no write reaches a parameter, a module-level object or a captured variable that outlives one invocation', nontrivial=False)
  return n


def donation_scope(check: Check, da=None, only_files=None, rule: str = 'R-DONATE.scope'):
  """Who may donate: only the private wrappers of tree_util (their callers own the first operand) and the per-client steps of
  for_each_client (the client state they donate is created by the backend). A donation declared anywhere else in the library
  invalidates buffers that belong to the caller of a public function (an optimizer state, the clients' updates ...)."""
  repo = check.repo
  da = da or DonationAnalysis(repo)
  DONORS = ('fedjax/core/tree_util.py', 'fedjax/core/for_each_client.py')
  for dm, node, t, nums in da.declared():
    if not dm.relpath.startswith('fedjax/') or (only_files is not None and dm.relpath not in only_files):
      continue
    if dm.relpath not in DONORS:
      check.ob(rule, dm.enclosing_func(node) or dm, f'donate_argnums={t}', False,
               'donation declared outside tree_util.py / for_each_client.py: the arguments of this function are the caller\'s (a server '
               'or optimizer state, client updates) and are deleted by the call', node=node, exact=True)


NON_STATE_VALUES = {'types.MappingProxyType', 'builtins.iter', 'builtins.map', 'builtins.filter', 'builtins.zip', 'builtins.open',
                    'builtins.enumerate', 'builtins.reversed'}


def run(check: Check):
  repo = check.repo
  check.rule('R-PURE', 'no heap write (subscript/attribute store, delete, mutating container method, mutating '
             'library call, or call of a repo function summarised as mutating) reaches an object aliased with a '
             'parameter, a module global, or a captured variable created outside the round entry; alias analysis '
             'is flow sensitive with per-function summaries')
  check.rule('R-DONATE', 'no value reachable from the arguments of an algorithm/aggregator function is at a donated '
             'position; private donating wrappers are referenced only in fedjax/core/tree_util.py')
  check.rule('R-FROZEN', 'every state class of a built-in algorithm/aggregator is a fedjax dataclass, which is '
             'dataclasses.dataclass(frozen=True) registered as a pytree')
  check.rule('R-STATE.plain', 'arguments of state constructors / state.replace(...) are not read-only views, iterators, generators, '
             'lambdas or handles (they would not pickle and are not pytrees)')
  check.rule('R-NONDET', 'no global RNG / clock call in any function of fedjax/algorithms or fedjax/aggregators')
  check.rule('R-KEY.K3', 'the key stored in the next compression state is an output of a split of the previous '
             'state key and differs from every key consumed in the round')
  check.undecided('equality of two calls\' floating-point outputs; pickle round-trip equality of states; purity of '
                  'user-supplied loss / optimizer callables')
  check.assume('user supplied callables (grad_fn, per_example_loss, optimizers, regularizers) are pure')
  pa = PurityAnalysis(repo)
  algo_mods = entries.modules_under(repo, 'fedjax.algorithms')
  agg_mods = entries.modules_under(repo, 'fedjax.aggregators')
  extra = [repo.module('fedjax.core.models')]
  algs = entries.find_algorithms(repo, algo_mods)
  aggs = entries.find_aggregators(repo, agg_mods)
  triples = entries.find_triples(repo, algo_mods + extra)
  check.floor('R-PURE', 'algorithms', len(algs), 7)
  check.floor('R-PURE', 'aggregators', len(aggs), 5)
  check.floor('R-PURE', 'for_each_client triples', len(triples), 12)
  entry_nodes: Set[int] = set()
  for a in algs + aggs:
    entry_nodes.add(id(a.apply.node))
    if a.init is not None:
      entry_nodes.add(id(a.init.node))
  for t in triples:
    for f in t.functions():
      entry_nodes.add(id(f.node))
  scope_mods = algo_mods + agg_mods + extra
  if check.tier == 'thorough':
    scope_mods = scope_mods + entries.modules_under(repo, 'examples') + entries.modules_under(repo, 'experiments')
  n_funcs = 0
  for m in scope_mods:
    advisory = m.name.split('.')[0] != 'fedjax'
    for fi in m.functions():
      n_funcs += 1
      check.analysed(fi)
      entry = entry_of(fi, entry_nodes)
      muts = pa.mutations(fi)
      reported = False
      for mu in muts:
        why = classify(mu, entry)
        if why is None:
          check.ob('R-PURE', fi, mu.construct, True,
                   f'heap write on {mu.root}: object created inside the same invocation of {entry.qualname}',
                   node=mu.node)
          continue
        reported = True
        check.ob('R-PURE', fi, mu.construct, False, f'{mu.how}: {why}', node=mu.node, advisory=advisory, exact=True)
      if not reported and id(fi.node) in entry_nodes:
        ff = FuncFlow.of(repo, fi)
        n_writes = sum(1 for n in ff.cfg.nodes if n.ast is not None for x in n.walk()
                       if isinstance(x, (ast.Subscript, ast.Attribute)) and isinstance(x.ctx, (ast.Store, ast.Del)))
        check.ob('R-PURE', fi, f'entry {fi.qualname}({", ".join(fi.params)})', True,
                 f'{n_writes} heap-store sites, none aliased with a parameter/captured state; callee summaries clean',
                 nontrivial=n_writes > 0 or len(list(ff.calls())) > 0)
  # -- nondeterminism sources
  for m in algo_mods + agg_mods:
    for fi in m.functions():
      ff = FuncFlow.of(repo, fi)
      for _, c in ff.calls():
        p = ff.ext(c.func)
        if p and p.startswith(NONDETERMINISM_PREFIXES) and p not in ALLOWED_NONDET:
          check.ob('R-NONDET', fi, txt(c), False, f'call of {p}: output would depend on hidden global state', node=c, exact=True)
  check.ob('R-NONDET', (algo_mods[0].relpath.rsplit('/', 1)[0] + '/*', '<all functions>'), 'global RNG / clock calls',
           True, f'scanned {n_funcs} functions of algorithms/aggregators/models: none', nontrivial=False)
  # -- frozen dataclasses
  dc = repo.func('fedjax.core.dataclasses', 'dataclass')
  ffd = FuncFlow.of(repo, dc)
  frozen = False
  for _, c in ffd.calls():
    if ffd.ext(c.func) == 'dataclasses.dataclass':
      for kw in c.keywords:
        if kw.arg == 'frozen' and isinstance(kw.value, ast.Constant) and kw.value.value is True:
          frozen = True
  check.ob('R-FROZEN', dc, 'dataclasses.dataclass(frozen=True)', frozen,
           'fedjax dataclass decorator must create frozen dataclasses')
  n_state = 0
  for m in algo_mods + agg_mods:
    for ci in m.classes():
      if not ci.name.endswith('State'):
        continue
      n_state += 1
      ok = False
      for d in ci.node.decorator_list:
        r = repo.resolve(ci.scope.parent, d)
        if r.kind == 'func' and r.func is dc:
          ok = True
      check.ob('R-FROZEN', ci, f'@dataclass class {ci.name}', ok,
               'state classes must use fedjax.core.dataclasses.dataclass (frozen pytree)')
  check.floor('R-FROZEN', 'state classes', n_state, 7)
  # -- what goes into a state survives pickling and is a pytree: no views, iterators, generators, lambdas, handles
  state_classes = [ci for m in algo_mods + agg_mods for ci in m.classes() if ci.name.endswith('State')]
  n_ctor = 0
  for m in algo_mods + agg_mods:
    for fi in m.functions():
      ff = FuncFlow.of(repo, fi)
      for _, c in ff.calls():
        r = ff.callee(c)
        is_ctor = r.kind == 'class' and r.cls in state_classes
        is_replace = isinstance(c.func, ast.Attribute) and c.func.attr == 'replace' and not c.args and c.keywords and any(
            ci is not None for ci in [None])
        if not (is_ctor or (isinstance(c.func, ast.Attribute) and c.func.attr == 'replace' and not c.args and c.keywords)):
          continue
        if is_ctor:
          n_ctor += 1
        for a in list(c.args) + [k.value for k in c.keywords]:
          bad = None
          for v in ff.expand(a):
            if isinstance(v, (ast.GeneratorExp, ast.Lambda)):
              bad = type(v).__name__
            elif isinstance(v, ast.Call):
              p_ = ff.ext(v.func) or ''
              if p_ in NON_STATE_VALUES or p_.startswith(('weakref.', 'threading.', 'itertools.')):
                bad = p_
          if bad:
            check.ob('R-STATE.plain', fi, txt(c)[:80], False,
                     f'a state field receives {bad}(...): such an object cannot be pickled / is not a pytree of arrays, so the state can no '
                     'longer be checkpointed and restored', node=a)
  # a state field that holds a numpy array is updated in place by `x = state.f; x += d`: every earlier state shares the new value
  from fjsa.flow import bound_args
  NP_MAKERS = ('numpy.zeros', 'numpy.ones', 'numpy.array', 'numpy.asarray', 'numpy.empty', 'numpy.full', 'numpy.zeros_like', 'numpy.ones_like')
  for m in algo_mods + agg_mods:
    np_fields = set()
    aug_sites = []
    for fi in m.functions():
      ff = FuncFlow.of(repo, fi)
      for _, c in ff.calls():
        r = ff.callee(c)
        if r.kind == 'class' and r.cls in state_classes:
          for fld, a in (bound_args(ff, c) or {}).items():
            if any(isinstance(v, ast.Call) and (ff.ext(v.func) or '') in NP_MAKERS for v in ff.expand(a)):
              np_fields.add(fld)
      for nd in ff.cfg.nodes:
        a = nd.ast
        if nd.kind == 'stmt' and isinstance(a, ast.AugAssign) and isinstance(a.target, ast.Name) and not getattr(a, '_fjsa_rebind', False):
          for d in ff.rd.reaching(nd, a.target.id):
            v = d.value
            if d.kind == 'assign' and isinstance(v, ast.Attribute) and ff.param_of(v.value) is not None:
              aug_sites.append((fi, a, v.attr))
    for fi, a, fld in aug_sites:
      if fld in np_fields:
        check.ob('R-STATE.inplace', fi, txt(a)[:80], False,
                 f'`{txt(a.target)}` is the caller\'s state.{fld}, which this module initialises with a numpy array: the augmented assignment '
                 'updates that array in place, so the input state (and every earlier state) changes with it', node=a, exact=True)
  check.ob('R-STATE.plain', (algo_mods[0].relpath.rsplit('/', 1)[0] + '/*', '<state constructors>'), f'{n_ctor} state constructor calls', True,
           'state fields are plain containers / arrays', nontrivial=False)
  check.floor('R-STATE.plain', 'state constructor calls', n_ctor, 10)
  # -- donation: nothing in algorithm/aggregator modules donates, private wrappers stay private
  da = DonationAnalysis(repo)
  n_sites = 0
  for m in algo_mods + agg_mods:
    for fi in m.functions():
      for s in da.sites(fi):
        n_sites += 1
        roots = da.ownership(s)
        check.ob('R-DONATE', fi, txt(s.call), not roots,
                 f'donated argument {txt(s.arg)} may share buffers with {sorted(roots)}', node=s.call)
  tu = repo.module('fedjax.core.tree_util')
  private_donors = []
  for name, bs in tu.scope.bindings.items():
    if name.startswith('_'):
      r = repo._resolve_bindings(tu.scope, name)
      if (r.kind in ('func', 'wrapped') and r.donated()) or (r.kind == 'func' and da.donated_params(r.func)):
        private_donors.append(name)
  check.floor('R-DONATE', 'private donating wrappers in tree_util', len(private_donors), 3)
  for m in repo.modules.values():
    if m is tu:
      continue
    for node in ast.walk(m.tree):
      if isinstance(node, ast.Attribute) and node.attr in private_donors:
        r = repo.resolve(repo.scope_of(m, node), node)
        if (r.kind == 'func' and r.func.module is tu) or r.kind == 'wrapped':
          fi = m.enclosing_func(node)
          check.ob('R-DONATE', fi or m, txt(node), False,
                   'module-private donating wrapper used outside fedjax/core/tree_util.py: its first argument is '
                   'invalidated', node=node, advisory=m.name.split('.')[0] != 'fedjax')
  donation_scope(check, da)
  # the optimizer wrapper used by server optimizers hands back fresh containers: it does not write into the params it was given
  from fjsa.props import c17
  c17._ignore_grads(check)
  # the backend choice is per-thread state read when an algorithm is built: the context manager restores it on every exit
  from fjsa.props import c02
  c02._scope(check)
  c02._backend_runs(check)
  check.ob('R-DONATE', tu, f'private donors {sorted(private_donors)}', True,
           f'referenced only inside tree_util.py; donation sites in algorithms/aggregators: {n_sites}', nontrivial=True)
  # -- compression state carries a fresh key
  from fjsa.rules import keys
  keys.check_aggregator_state_keys(check, repo, aggs, rule='R-KEY.K3')
