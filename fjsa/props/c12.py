"""C12 - degenerate hyper-parameters reduce every algorithm to FedAvg (sibling skeleton)."""
from __future__ import annotations

import ast
from typing import Dict, List, Optional

from fjsa.flow import FuncFlow, call_args, same, txt
from fjsa.model import FuncInfo
from fjsa.report import Check
from fjsa.rules import entries, roundcheck, skeleton as sk, trainer, wmean
from fjsa.rules.atomic import same_value

ALGOS = ['fed_avg', 'fed_prox', 'mime', 'mime_lite', 'agnostic_fed_avg', 'hyp_cluster', 'apfl']


def run(check: Check):
  repo = check.repo
  check.rule('R-SIB', 'the seven built-in algorithms share the FedAvg round skeleton: local training from the round\'s '
             'server params (same optimizer roles, gradient at the current params, fresh key per step), client update = '
             'start - trained, example-count-weighted zero-guarded mean (paired weights), server update from that mean; '
             'documented variants (frozen optimizer state in Mime/MimeLite, beta weights in AgnosticFedAvg) are a frozen table')
  check.rule('R-KEY', 'PRNG keys are used linearly in every client step (fresh randomness per step, per client)')
  check.rule('R-WMEAN', 'see C01; applied to every tree_inverse_weight site in fedjax/algorithms')
  check.rule('R-PROX', 'FedProx: loss = mean(example_loss + 0.5 * mu * |server - params|^2), mu a factor of the penalty, '
             'jax.grad w.r.t. argument 0, server anchor carried unchanged through the steps')
  check.rule('R-MIME', 'Mime/MimeLite: server params move by -lr * mean delta; optimizer state advanced once with the '
             'full-batch gradient evaluated at the round\'s server params')
  check.rule('R-HYP', 'HypCluster: per-cluster sums and weights indexed by the same cluster id; a cluster without '
             'examples keeps (opt_state, params); each client trains from the params of its assigned cluster')
  check.undecided('the numerical equalities themselves (up to rounding) along multi-round histories')
  algo_mods = [repo.module(f'fedjax.algorithms.{a}') for a in ALGOS]
  all_algo_mods = entries.modules_under(repo, 'fedjax.algorithms')
  triples = entries.find_triples(repo, all_algo_mods)
  algs = entries.find_algorithms(repo, algo_mods)
  check.floor('R-SIB', 'algorithms', len(algs), 7)
  facts: Dict[str, trainer.TrainerFacts] = {}
  n_inv = 0
  seen_triples = set()
  for alg in algs:
    name = alg.builder.module.name.split('.')[-1]
    fi = alg.apply
    check.analysed(fi)
    ff = FuncFlow.of(repo, fi)
    if len(fi.positional_params) > 1:
      roundcheck.check_no_client_filter(check, repo, fi, fi.positional_params[1])
      for _, rv in ff.returns():
        if isinstance(rv, ast.Tuple) and rv.elts and ff.param_of(rv.elts[0]) == fi.positional_params[0]:
          check.ob('R-ORDER.update', fi, 'return ' + txt(rv)[:60], False,
                   'apply returns the server state it was given: the server update is skipped on this path (a stateful server optimizer '
                   'must still take its step on a zero update)', node=rv, exact=True)
    sites = [(fi, c) for c in roundcheck.inv_calls(ff)]
    # helper functions called from apply (hyp_cluster.expectation_step)
    for _, c in ff.calls():
      r = ff.callee(c)
      if r.kind == 'func' and r.func.module is alg.builder.module and r.func.scope.parent.kind == 'module':
        hff = FuncFlow.of(repo, r.func)
        sites += [(r.func, x) for x in roundcheck.inv_calls(hff)]
    for owner, inv in sites:
      off = FuncFlow.of(repo, owner)
      lm0 = wmean.analyse_loop_mean(off, inv)
      # idiom (iii): num, den = tree_sum(outputs) -> checked in _pair_sum
      if lm0.unrecognised and _pair_sum(check, repo, owner, inv, triples):
        n_inv += 1
        continue
      n_inv += 1
      clients_param = 'clients' if 'clients' in owner.positional_params else None
      policy = 'agnostic' if name == 'agnostic_fed_avg' else 'len'
      lm = roundcheck.check_loop_mean_site(check, repo, owner, inv, triples, 'R-WMEAN', clients_param,
                                           weight_policy=policy)
      if lm is None or lm.loop is None:
        continue
      if policy == 'agnostic':
        _agnostic_weight(check, off, owner, lm)
      t = roundcheck.check_generator_loop(check, repo, owner, lm.loop, triples, 'R-WMEAN')
      if t is not None and id(t.call) not in seen_triples:
        seen_triples.add(id(t.call))
        f = trainer.check_train_triple(check, repo, t, 'R-SIB')
        if f is not None:
          facts[name] = f
      if owner is fi:
        roundcheck.check_diagnostics(check, repo, fi, lm.loop)
        if name != 'hyp_cluster':
          roundcheck.check_server_update(check, repo, alg, inv, 'R-SIB')
        if isinstance(lm.loop.iter, ast.Call) and clients_param and name not in ('agnostic_fed_avg',):
          roundcheck.check_client_tuples(check, repo, fi, lm.loop.iter, clients_param, 'R-SIB')
        elif name == 'agnostic_fed_avg' and isinstance(lm.loop.iter, ast.Call):
          roundcheck.check_client_tuples(check, repo, fi, lm.loop.iter, clients_param, 'R-SIB')
        _shared_is_round_params(check, ff, fi, lm.loop)
  check.floor('R-WMEAN', 'tree_inverse_weight sites in fedjax/algorithms', n_inv, 9)
  # sibling comparison against the FedAvg row
  ref = facts.get('fed_avg')
  if ref is None:
    check.error('anchor-shape: FedAvg trainer facts unavailable')
  else:
    for name, f in sorted(facts.items()):
      exp_variant = 'frozen' if name in ('mime', 'mime_lite') else 'updated'
      delta_ok = f.delta.startswith('shared') and ' - state[' in f.delta or (name == 'hyp_cluster' and f.delta.startswith('state['))
      start_ok = f.start.startswith('shared') or name == 'hyp_cluster'
      check.ob('R-SIB.row', (f'fedjax/algorithms/{name}.py', 'trainer'), f'{name} vs fed_avg',
               f.opt_state_variant == exp_variant and delta_ok and start_ok,
               f'start={f.start}; optimizer state {f.opt_state_variant}; delta={f.delta}; gradient points={f.grad_points}')
  check.floor('R-SIB', 'training triples analysed', len(facts), 7)
  # keys are used linearly in every step/init/final function of the algorithms
  from fjsa.rules.keys import KeyAnalysis, check_function
  ka = KeyAnalysis(repo)
  n_key = 0
  for t in triples:
    for f in t.functions():
      n_key += check_function(check, ka, f, 'R-KEY')
  check.floor('R-KEY', 'key uses in step functions', n_key, 20)
  from fjsa.props import c10
  c10.hidden_state(check, all_algo_mods, 'R-HYP.state')
  _fed_prox(check)
  _mime_family(check, algs)
  _mime_control_variate(check)
  _hyp_cluster(check, algs)
  _apfl(check, facts)


def _shared_is_round_params(check: Check, ff: FuncFlow, fi: FuncInfo, loop: ast.For):
  gen = loop.iter
  if not isinstance(gen, ast.Call) or not gen.args:
    return
  state_param = fi.positional_params[0]
  a0 = gen.args[0]
  ok = False
  for x in ff.expand(a0):
    if isinstance(x, ast.Attribute) and x.attr == 'params' and ff.param_of(x.value) == state_param:
      ok = True
    if isinstance(x, ast.Dict):
      for k, v in zip(x.keys, x.values):
        if isinstance(k, ast.Constant) and k.value == 'params':
          ok = any(isinstance(y, ast.Attribute) and y.attr == 'params' and ff.param_of(y.value) == state_param
                   for y in ff.expand(v))
  check.ob('R-SIB.shared', fi, txt(gen)[:80], ok,
           'clients must be trained from the params of the state passed into this round', node=gen)


def _agnostic_weight(check: Check, ff: FuncFlow, fi: FuncInfo, lm: wmean.LoopMean):
  """weight = metrics[cid]['beta'] for the loop's own client id (documented variant)."""
  tg = wmean.loop_targets(lm.loop)
  cid = tg[0].id if isinstance(tg[0], ast.Name) else None
  ok = False
  why = ''
  for e in ff.expand(lm.w_sum):
    why = txt(e)
    if isinstance(e, ast.Subscript) and isinstance(e.slice, ast.Constant) and e.slice.value == 'beta':
      inner = e.value
      if isinstance(inner, ast.Subscript) and isinstance(inner.slice, ast.Name) and inner.slice.id == cid:
        ok = True
  check.ob('R-WMEAN.weight', fi, f'weight {txt(lm.w_sum)}', ok,
           f'AgnosticFedAvg weights each client by its own beta (paper eq. 6): {why}', node=lm.w_sum)


def _pair_sum(check: Check, repo, owner: FuncInfo, inv: ast.Call, triples) -> bool:
  """Idiom (iii): num, den = tree_sum(co for _, co in grads_for_each_client(state.params, ...))."""
  ff = FuncFlow.of(repo, owner)
  if len(inv.args) < 2 or not all(isinstance(a, ast.Name) for a in inv.args[:2]):
    return False
  S, W = inv.args[0], inv.args[1]
  ds, dw = ff.defs_for(S), ff.defs_for(W)
  from_sum = lambda d: d.kind == 'assign' and isinstance(d.value, ast.Call) and wmean.repo_fn(ff, d.value) in wmean.SUM and d.index is not None
  s_sum, w_sum = [d for d in ds if from_sum(d)], [d for d in dw if from_sum(d)]
  mismatch = (bool(s_sum) != bool(w_sum)) or (s_sum and w_sum and s_sum[0].value is not w_sum[0].value)
  if (s_sum or w_sum) and (len(ds) != 1 or len(dw) != 1 or mismatch):
    extra = [txt(d.value)[:50] for d in list(ds) + list(dw) if not from_sum(d) and d.value is not None]
    check.ob('R-WMEAN.pair-sum', owner, txt(inv)[:90], False,
             f'the gradient sum or the count is modified between the sum over clients and the division ({extra}): whatever is added '
             f'to the count-weighted sum is divided by the number of examples', node=inv)
    return True
  if len(ds) != 1 or len(dw) != 1:
    return False
  d1, d2 = next(iter(ds)), next(iter(dw))
  if not (d1.kind == 'assign' and d1.value is d2.value and d1.index == (0,) and d2.index == (1,)):
    return False
  v = d1.value
  if not (isinstance(v, ast.Call) and wmean.repo_fn(ff, v) in wmean.SUM and v.args):
    return False
  gen = v.args[0]
  inner = None
  if isinstance(gen, ast.GeneratorExp) and len(gen.generators) == 1 and isinstance(gen.generators[0].iter, ast.Call):
    inner = gen.generators[0].iter
    tgt = gen.generators[0].target
    ok_elt = isinstance(tgt, ast.Tuple) and len(tgt.elts) == 2 and isinstance(gen.elt, ast.Name) and isinstance(
        tgt.elts[1], ast.Name) and gen.elt.id == tgt.elts[1].id
  else:
    ok_elt = False
  t = entries.triple_for_callee(repo, ff, inner, triples) if inner is not None else None
  check.ob('R-WMEAN.pair-sum', owner, txt(inv)[:90], ok_elt and t is not None,
           'full-batch gradient = tree_inverse_weight(*tree_sum(client outputs)) where each client output is the pair '
           f'(sum of count-weighted gradients, count) from {t.name if t else "?"}', node=inv)
  if t is None or t.step is None or t.final is None:
    return True
  # the pair is produced with paired accumulators inside the step
  sff = FuncFlow.of(repo, t.step)
  rec = sk.Record(sff, t.step.positional_params[0])
  ret = sk.returned_record(sff)
  fff = FuncFlow.of(repo, t.final)
  recf = sk.Record(fff, t.final.positional_params[1])
  pair_fields = None
  for _, rv in fff.returns():
    for x in fff.expand(rv):
      if isinstance(x, ast.Tuple) and len(x.elts) == 2:
        pair_fields = (recf.field_of(x.elts[0]), recf.field_of(x.elts[1]))
  ok_pair = False
  why = f'final returns fields {pair_fields}'
  if ret is not None and pair_fields and None not in pair_fields:
    fields, _ = ret
    gs, ns = fields.get(pair_fields[0]), fields.get(pair_fields[1])
    if gs is not None and ns is not None:
      # ns = state[n] + num ; gs = tree_add(tree_weight(grads, num), state[g])
      num1 = num2 = None
      for x in sff.expand(ns):
        if isinstance(x, ast.BinOp) and isinstance(x.op, ast.Add):
          for prev, term in ((x.left, x.right), (x.right, x.left)):
            if rec.field_of(prev) == pair_fields[1]:
              num2 = term
      for x in sff.expand(gs):
        if isinstance(x, ast.Call) and wmean.repo_fn(sff, x) in wmean.ADD and len(x.args) == 2:
          for prev, term in ((x.args[0], x.args[1]), (x.args[1], x.args[0])):
            if rec.field_of(prev) == pair_fields[0] and isinstance(term, ast.Call) and wmean.repo_fn(
                sff, term) in wmean.WEIGHT and len(term.args) >= 2:
              num1 = term.args[1]
      ok_pair = num1 is not None and num2 is not None and same_value(sff, num1, num2)
      why = f'gradient weighted by {txt(num1) if num1 is not None else "?"}, count adds {txt(num2) if num2 is not None else "?"}'
      # the count is the sum of the batch mask
      if ok_pair:
        okm = any(_is_mask_sum(sff, y, t.step.positional_params[1]) for y in sff.expand(num1))
        check.ob('R-MASK.count', t.step, f'num = {txt(sff.expand(num1)[0])[:60]}', okm,
                 'the per-batch weight must be the number of real (unmasked) examples of the batch')
  check.ob('R-WMEAN.pair-step', t.step, 'paired accumulators of the gradient pass', ok_pair, why)
  # evaluated at the round's server params
  if inner is not None and inner.args:
    sp = owner.positional_params[0]
    okp = any(isinstance(x, ast.Attribute) and x.attr == 'params' and ff.param_of(x.value) == sp
              for x in ff.expand(inner.args[0]))
    check.ob('R-MIME.grad-point', owner, txt(inner)[:80], okp,
             'the full-batch gradient must be evaluated at the round\'s server params', node=inner)
  return True


def _is_mask_sum(ff: FuncFlow, e: ast.AST, batch_param: str) -> bool:
  if isinstance(e, ast.Call) and ff.ext(e.func) in ('jax.numpy.sum', 'numpy.sum') and e.args:
    a = e.args[0]
    for x in ff.expand(a):
      if isinstance(x, ast.Subscript) and ff.param_of(x.value) == batch_param:
        from fjsa.model import const_str
        k = const_str(ff.repo, ff.scope_at(x), x.slice)
        if k == '__mask__':
          return True
  return False


def _fed_prox(check: Check):
  repo = check.repo
  builder = repo.func('fedjax.algorithms.fed_prox', 'fed_prox')
  loss = builder.nested('fed_prox_loss')
  ff = FuncFlow.of(repo, loss)
  check.analysed(loss)
  params = loss.positional_params
  # proximal term: product containing proximal_weight and tree_l2_squared(diff(server_params, params))
  prox_def = None
  ret = ff.returns()
  mean_arg = None
  for _, rv in ret:
    if isinstance(rv, ast.Call) and ff.ext(rv.func) == 'jax.numpy.mean' and rv.args:
      mean_arg = rv.args[0]
  ok_sum = False
  prox_expr = None
  if mean_arg is not None and isinstance(mean_arg, ast.BinOp) and isinstance(mean_arg.op, ast.Add):
    sides = [mean_arg.left, mean_arg.right]
    for a, b in (sides, sides[::-1]):
      ea = ff.expand(a)
      if len(ea) == 1 and isinstance(ea[0], ast.Call) and isinstance(ea[0].func, ast.Name) and not ff.is_local(ea[0].func):
        # per_example_loss(params, batch, rng)
        prox_expr = ff.expand(b)[0] if len(ff.expand(b)) == 1 else None
        ok_sum = True
  check.ob('R-PROX.sum', loss, txt(mean_arg) if mean_arg is not None else 'return', ok_sum,
           'loss must be mean(example_loss + proximal term): the penalty is added once per example before the mean')
  if prox_expr is not None:
    factors = _factors(prox_expr)
    has_mu = any(isinstance(f, ast.Name) and f.id == 'proximal_weight' and not ff.is_local(f) for f in factors)
    l2 = [f for f in factors if isinstance(f, ast.Call) and wmean.repo_fn(ff, f) == 'fedjax.core.tree_util:tree_l2_squared']
    half = any(isinstance(f, ast.Constant) and f.value == 0.5 for f in factors)
    ok_diff = False
    if l2 and l2[0].args:
      d = sk.find_delta(ff, l2[0].args[0])
      if d is not None:
        pa, pb = ff.param_of(d.minuend), ff.param_of(d.subtrahend)
        ok_diff = {pa, pb} == {params[0], params[1]}
    check.ob('R-PROX.term', loss, txt(prox_expr)[:90], has_mu and bool(l2) and half and ok_diff,
             f'penalty must be 0.5 * proximal_weight * |server_params - params|^2 (mu factor: {has_mu}, l2: {bool(l2)}, '
             f'0.5: {half}, difference of the two param arguments: {ok_diff}); it vanishes identically at mu = 0')
  else:
    check.inconclusive('R-PROX.term', loss, 'proximal term', 'cannot isolate the proximal term')
  # jax.grad(fed_prox_loss) differentiates argument 0
  bff = FuncFlow.of(repo, builder)
  okg = False
  for _, c in bff.calls():
    if bff.ext(c.func) == 'jax.grad' and c.args and isinstance(c.args[0], ast.Name) and c.args[0].id == 'fed_prox_loss':
      argnums = next((k.value for k in c.keywords if k.arg == 'argnums'), None)
      okg = argnums is None or (isinstance(argnums, ast.Constant) and argnums.value == 0)
      check.ob('R-PROX.grad', builder, txt(c), okg and params[0] == 'params',
               'gradient must be taken w.r.t. the trained params (argument 0), not the server anchor', node=c)
  # the step passes (current params, server anchor, batch, key)
  t = [x for x in entries.find_triples(repo, [repo.module('fedjax.algorithms.fed_prox')])]
  for tr in t:
    if tr.step is None:
      continue
    sff = FuncFlow.of(repo, tr.step)
    rec = sk.Record(sff, tr.step.positional_params[0])
    for _, c in sff.calls():
      if isinstance(c.func, ast.Name) and c.func.id == 'grad_fn' and len(c.args) >= 4:
        f0, f1 = rec.field_of(c.args[0]), rec.field_of(c.args[1])
        iff = FuncFlow.of(repo, tr.init)
        ri = sk.returned_record(iff)
        anchor_ok = False
        if ri is not None and f1 in ri[0]:
          anchor_ok = sk.shared_root(iff, ri[0][f1], tr.init.positional_params[0]) == ''
        check.ob('R-PROX.anchor', tr.step, txt(c)[:80], f0 == 'params' and f1 is not None and f1 != f0 and anchor_ok,
                 f'gradient must be evaluated at state[{f0!r}] with the proximal anchor state[{f1!r}] initialised from the '
                 f'server params (ok={anchor_ok})', node=c)


def _factors(e: ast.AST) -> List[ast.AST]:
  if isinstance(e, ast.BinOp) and isinstance(e.op, ast.Mult):
    return _factors(e.left) + _factors(e.right)
  return [e]


def _mime_family(check: Check, algs):
  repo = check.repo
  for alg in algs:
    name = alg.builder.module.name.split('.')[-1]
    if name not in ('mime', 'mime_lite'):
      continue
    su = None
    for c in alg.builder.scope.children:
      if c.kind == 'function' and c.name == 'server_update':
        su = alg.builder.module.funcs_by_node[c.node]
    if su is None:
      check.error(f'anchor-missing: {name}.server_update')
      continue
    ff = FuncFlow.of(repo, su)
    check.analysed(su)
    sites = sk.opt_apply_sites(ff, None)
    ok = False
    for oc in sites:
      sp = su.positional_params[0]
      grads_p = ff.param_of(oc.grads)
      ok_args = roundcheck._attr_of(ff, oc.opt_state, sp) == 'opt_state' and roundcheck._attr_of(ff, oc.params, sp) == 'params'
      # the new opt_state goes to ServerState(opt_state=...), the optimizer's params result is discarded
      ctor_ok = False
      for _, rv in ff.returns():
        for y in ff.expand(rv):
          if isinstance(y, ast.Call) and ff.callee(y).kind == 'class':
            fields = [f for f, _, _ in ff.callee(y).cls.fields]
            b = call_args(y, fields)
            ctor_ok = ('opt_state' in b and oc.res_opt is not None and sk.derives_from_result(ff, b['opt_state'], oc.res_opt)
                       and 'params' in b and not (oc.res_params is not None and sk.derives_from_result(ff, b['params'], oc.res_params)))
      # grads argument is the server_grads parameter, bound at the call site to the pair-sum result
      ok = ok_args and ctor_ok and grads_p is not None
      check.ob('R-MIME.opt-state', su, txt(oc.call)[:90], ok,
               f'optimizer state must be advanced by base_optimizer.apply(full-batch grads, state.opt_state, state.params) and '
               f'only its state result kept (args ok={ok_args}, ctor ok={ctor_ok}, grads param={grads_p})', node=oc.call)
      # binding of grads param at the call site in apply
      aff = FuncFlow.of(repo, alg.apply)
      for _, c in aff.calls():
        r = aff.callee(c)
        if r.kind == 'func' and r.func is su and grads_p is not None:
          b = call_args(c, su.positional_params)
          g = b.get(grads_p)
          okb = False
          if g is not None:
            for x in aff.expand(g):
              if isinstance(x, ast.Call) and wmean.repo_fn(aff, x) in wmean.INV:
                okb = True
              elif isinstance(x, ast.Call) and okb is False:
                # produced by a helper this rule does not know (a function that is not on the reference tree): not judged
                from fjsa import inline
                rr = aff.callee(x)
                if rr.kind == 'func' and rr.func.name not in (inline.known_defs(rr.func.module.relpath) or set()):
                  okb = None
          check.ob('R-MIME.grads-binding', alg.apply, txt(c)[:90], okb,
                   'the gradient handed to the server update must be the zero-guarded full-batch mean', node=c)
    if not sites:
      check.ob('R-MIME.opt-state', su, 'base_optimizer.apply', False, 'server never advances the optimizer state')


def _mime_control_variate(check: Check):
  """Mime: the control-variate gradient and the local gradient see the same batch and the same key."""
  repo = check.repo
  step = repo.func('fedjax.algorithms.mime', 'create_train_for_each_client').nested('client_step')
  ff = FuncFlow.of(repo, step)
  rec = sk.Record(ff, step.positional_params[0])
  gcalls = []
  seen = set()
  for _, c in ff.calls():
    if id(c) in seen:
      continue
    seen.add(id(c))
    if isinstance(c.func, ast.Name) and not ff.is_local(c.func) and len(c.args) == 3 and rec.field_of(c.args[0]) is not None:
      r = ff.resolve(c.func)
      if r.kind in ('param', 'local', 'unknown', 'wrapped'):
        gcalls.append(c)
  if len(gcalls) != 2:
    check.inconclusive('R-MIME.same-key', step, 'gradient calls', f'{len(gcalls)} gradient calls found, expected 2')
    return
  a, b = gcalls
  points = {rec.field_of(a.args[0]), rec.field_of(b.args[0])}
  same_batch = same_value(ff, a.args[1], b.args[1])
  same_key = same_value(ff, a.args[2], b.args[2])
  check.ob('R-MIME.same-key', step, 'grad_fn(init_params, batch, k) / grad_fn(params, batch, k)', same_batch and same_key and len(points) == 2,
           f'the control variate only cancels the stochastic part if both gradients use the same batch (ok={same_batch}) and the '
           f'same random key (ok={same_key}) at the two points {sorted(map(str, points))}', node=b)


def _hyp_cluster(check: Check, algs):
  repo = check.repo
  alg = next((a for a in algs if a.builder.module.name.endswith('hyp_cluster')), None)
  if alg is None:
    check.error('anchor-missing: hyp_cluster algorithm')
    return
  fi = alg.apply
  ff = FuncFlow.of(repo, fi)
  sp = fi.positional_params[0]
  sites = sk.opt_apply_sites(ff, None)
  check.floor('R-HYP', 'server optimizer sites', len(sites), 1)
  for oc in sites:
    loop = wmean._loop_of(ff, oc.call)
    ok_zip = False
    ok_none = False
    why = ''
    if isinstance(loop, ast.For) and isinstance(loop.iter, ast.Call) and ff.ext(loop.iter.func) == 'builtins.zip':
      names = [t.id for t in wmean.loop_targets(loop) if isinstance(t, ast.Name)]
      z = loop.iter.args
      order = []
      for a in z:
        for x in ff.expand(a):
          if isinstance(x, ast.Attribute) and ff.param_of(x.value) == sp:
            order.append(x.attr)
          elif isinstance(x, ast.Call):
            order.append('delta')
          else:
            order.append(txt(x)[:20])
      role = dict(zip(names, order))
      g, o, p = (txt(oc.grads), txt(oc.opt_state), txt(oc.params))
      ok_zip = role.get(g) == 'delta' and role.get(o) == 'opt_states' and role.get(p) == 'cluster_params'
      why = f'roles {role}'
      # None guard
      for test, pol in _guards(ff, oc.call):
        if isinstance(test, ast.Compare) and isinstance(test.ops[0], (ast.Is, ast.IsNot)) and isinstance(
            test.left, ast.Name) and test.left.id == g:
          is_none = isinstance(test.ops[0], ast.Is)
          if (is_none and not pol) or ((not is_none) and pol):
            # other arm keeps (opt_state, params)
            ifnode = _enclosing_if(ff, oc.call)
            other = ifnode.body if not pol else ifnode.orelse
            kept = {}
            for st in other:
              if isinstance(st, ast.Assign) and isinstance(st.value, ast.Tuple) and isinstance(st.targets[0], ast.Tuple) and len(st.value.elts) == len(
                  st.targets[0].elts):
                for t_, v_ in zip(st.targets[0].elts, st.value.elts):
                  if isinstance(t_, ast.Name) and isinstance(v_, ast.Name):
                    kept[t_.id] = v_.id
              elif isinstance(st, ast.Assign) and isinstance(st.targets[0], ast.Name) and isinstance(st.value, ast.Name):
                kept[st.targets[0].id] = st.value.id
            sa = ff.module.enclosing_stmt(oc.call)
            if isinstance(sa, ast.Assign) and isinstance(sa.targets[0], ast.Tuple) and len(sa.targets[0].elts) == 2 and all(
                isinstance(t_, ast.Name) for t_ in sa.targets[0].elts):
              r_o, r_p = (t_.id for t_ in sa.targets[0].elts)
              ok_none = kept.get(r_o) == o and kept.get(r_p) == p
              # other accepted form: `if delta is not None: opt_state, params = apply(delta, opt_state, params)` - the loop variables
              # themselves are overwritten and simply carried over when the guard does not hold
              if not other and (r_o, r_p) == (o, p):
                ok_none = True
              if not ok_none and not other and (r_o, r_p) != (o, p):
                ok_none = None   # nothing is assigned on the None arm: where the carried-over values come from is not recognised
    # both results (on either arm) end up in the lists that form the new ServerState, in field order
    ok_lists = False
    why_l = 'new state constructor not found'
    st_assign = ff.module.enclosing_stmt(oc.call)
    if isinstance(st_assign, ast.Assign) and isinstance(st_assign.targets[0], ast.Tuple) and len(st_assign.targets[0].elts) == 2:
      n_o, n_p = (t.id if isinstance(t, ast.Name) else None for t in st_assign.targets[0].elts)
      lists = {}
      for _, c in ff.calls():
        if isinstance(c.func, ast.Attribute) and c.func.attr == 'append' and isinstance(c.func.value, ast.Name) and c.args and isinstance(c.args[0], ast.Name):
          if wmean._loop_of(ff, c) is loop:
            lists[c.args[0].id] = c.func.value.id
      for _, rv in ff.returns():
        for x in ([rv.elts[0]] if isinstance(rv, ast.Tuple) and rv.elts else [rv]):
          if isinstance(x, ast.Call) and ff.callee(x).kind == 'class':
            fields = [f for f, _, _ in ff.callee(x).cls.fields]
            b = call_args(x, fields)
            got = {f: (b[f].id if isinstance(b.get(f), ast.Name) else None) for f in fields}
            ok_lists = got.get('cluster_params') == lists.get(n_p) and got.get('opt_states') == lists.get(n_o) and None not in (
                lists.get(n_p), lists.get(n_o))
            why_l = f'appended: {lists}; ServerState receives {got}'
    check.ob('R-HYP.carry', fi, 'cluster_params.append(next_params); opt_states.append(next_opt_state)', ok_lists,
             f'the updated params and the updated optimizer state of every cluster are what the new ServerState holds ({why_l})',
             node=oc.call)
    check.ob('R-HYP.roles', fi, txt(oc.call)[:80], ok_zip,
             f'cluster i is updated from delta i, opt_state i, params i of the same zip position ({why})', node=oc.call)
    check.ob('R-HYP.empty', fi, 'delta is None arm', ok_none if ok_none is not False or ok_zip else None,
             'a cluster that saw no example keeps its (opt_state, params) unchanged', node=oc.call)
  # expectation_step: client trains from the params of its assigned cluster
  es = repo.func('fedjax.algorithms.hyp_cluster', 'expectation_step')
  eff = FuncFlow.of(repo, es)
  okc = False
  for _, c in eff.calls():
    if isinstance(c.func, ast.Attribute) and c.func.attr == 'train_per_client_params' and c.args:
      for x in eff.expand(c.args[0]):
        if isinstance(x, ast.ListComp) and isinstance(x.elt, ast.Tuple) and len(x.elt.elts) == 4:
          last = x.elt.elts[3]
          cid = x.elt.elts[0]
          if (isinstance(last, ast.Subscript) and eff.param_of(last.value) == 'cluster_params' and isinstance(
              last.slice, ast.Subscript) and eff.param_of(last.slice.value) == 'client_cluster_ids' and same(last.slice.slice, cid)):
            okc = True
      check.ob('R-HYP.start', es, txt(c)[:80], okc,
               'each client must start from cluster_params[client_cluster_ids[<its own id>]]', node=c)
  # assignment = argmin over stacked losses
  ca = repo.func('fedjax.algorithms.hyp_cluster', '_cluster_assignment')
  cff = FuncFlow.of(repo, ca)
  oka = any(cff.ext(c.func) == 'jax.numpy.argmin' for _, c in cff.calls()) and not any(
      cff.ext(c.func) == 'jax.numpy.argmax' for _, c in cff.calls())
  check.ob('R-HYP.argmin', ca, 'jnp.argmin(jnp.stack(losses))', oka, 'clients are assigned to the cluster of minimal loss')


def _guards(ff, node):
  from fjsa.flow import guards_of
  return guards_of(ff, node)


def _enclosing_if(ff: FuncFlow, node: ast.AST) -> Optional[ast.If]:
  n = ff.module.parent_of.get(node)
  while n is not None:
    if isinstance(n, ast.If):
      return n
    n = ff.module.parent_of.get(n)
  return None


def _apfl(check: Check, facts):
  f = facts.get('apfl')
  if f is None:
    check.error('anchor-shape: APFL trainer facts unavailable')
    return
  ok = f.main_p == 'server_params' and f.main_o == 'server_opt_state' and f.opt_sites == 3 and \
      f.delta == "shared - state['server_params']" and f.grad_points[:1] == ["client_step_state['server_params']"]
  check.ob('R-SIB.apfl-global', ('fedjax/algorithms/apfl.py', 'create_train_for_each_client'), 'global branch', ok,
           f'the global model is trained from server_params/server_opt_state only and is what the delta is taken from '
           f'(p={f.main_p}, o={f.main_o}, delta={f.delta}, grad at {f.grad_points[:1]})')
