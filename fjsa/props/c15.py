"""C15 - centralised streams over many clients neither lose nor duplicate (structural part)."""
from __future__ import annotations

import ast
from typing import List, Optional, Tuple

from fjsa.flow import FuncFlow, call_args, guards_of, same, txt
from fjsa.model import FuncInfo
from fjsa.report import Check
from fjsa.rules import wmean

CD = 'fedjax.core.client_datasets'
FD = 'fedjax.core.federated_data'


def run(check: Check):
  repo = check.repo
  check.rule('R-ERR', 'both multi-client batchers compare every dataset\'s preprocessor (identity) and feature set with the first '
             'one and raise ValueError before touching that dataset\'s examples')
  check.rule('R-CONSERVE', 'buffered_shuffle: the value removed from the buffer is yielded exactly once on every path of the loop '
             'body, the incoming item is stored exactly once, every other store is a swap of two slots, the tail loop yields '
             'every buffer element; multi-client padded batcher: buf / buf_size are updated in pairs and consecutive slices of a '
             'client are contiguous; example-level shuffler enumerates every (dataset, row) once and flushes the last partial batch')
  check.rule('R-REPLAY', 'RepeatableIterator: on the first pass every value returned has been appended to the private replay '
             'buffer; a caller-owned container is never appended to; StopIteration re-seats the iterator on the buffer and is re-raised')
  check.undecided('the carry-over arithmetic of the multi-client batcher (which sizes fill or straddle batches); non-triviality '
                  'of the shuffled order; reproducibility for a fixed seed (numpy semantics)')
  _errors(check)
  _buffered_shuffle(check)
  _padded_multi(check)
  _concat(check)
  # the final (padded) batch of the centralised stream is built by pad_examples (rules of C03)
  from fjsa.props import c03
  c03._pad_examples(check)
  c03._pick(check)
  _shuffle_batch(check)
  _repeatable(check)
  _centralised(check)


def _errors(check: Check):
  repo = check.repo
  a = repo.func(CD, 'padded_batch_client_datasets')
  b = repo.func(CD, 'buffered_shuffle_batch_client_datasets').nested('gen_items')
  for fi in (a, b):
    ff = FuncFlow.of(repo, fi)
    check.analysed(fi)
    loops = [n for n in ff.cfg.nodes if n.kind == 'for' and isinstance(n.ast.iter, ast.Name) and n.ast.iter.id == 'datasets']
    if len(loops) != 1:
      check.inconclusive('R-ERR', fi, 'for dataset in datasets', 'dataset loop not found')
      continue
    lp = loops[0].ast
    ds = lp.target.id
    raises = []
    for n in ff.cfg.nodes:
      if n.kind == 'if' and wmean._loop_of(ff, n.ast) is lp and any(isinstance(s, ast.Raise) and 'ValueError' in txt(s.exc) for s in n.ast.body):
        raises.append(n)
    kinds = set()
    for n in raises:
      t = n.ast.test
      if isinstance(t, ast.Compare) and isinstance(t.ops[0], ast.IsNot) and txt(t.left) == f'{ds}.preprocessor':
        kinds.add('preprocessor')
      if isinstance(t, ast.Compare) and isinstance(t.ops[0], ast.NotEq) and f'set({ds}.raw_examples)' in (txt(t.left), txt(t.comparators[0])):
        kinds.add('features')
    # the checks dominate every use of the dataset's examples / length
    uses = []
    for n in ff.cfg.nodes:
      if n.ast is None or n in raises or wmean._loop_of(ff, n.ast) is not lp and n.kind != 'stmt':
        continue
      if n.kind == 'stmt' and wmean._loop_of(ff, n.ast) is lp:
        for x in n.walk():
          if isinstance(x, ast.Call) and txt(x.func) == 'len' and x.args and txt(x.args[0]) == ds:
            uses.append(n)
          if isinstance(x, ast.Attribute) and x.attr == 'raw_examples' and txt(x.value) == ds and not any(
              x is y for r in raises for y in r.walk()):
            st = ff.module.enclosing_stmt(x)
            if not (isinstance(st, ast.Assign) and txt(st.targets[0]) == 'features'):
              uses.append(n)
    # the mismatch tests sit in the `elif` of `if <first> is None: <remember first>`: the whole if/elif statement must
    # lie on every path to the uses
    heads = []
    for r in raises:
      top = r.ast
      p = ff.module.parent_of.get(top)
      while isinstance(p, ast.If) and top in p.orelse and wmean._loop_of(ff, p) is lp:
        top, p = p, ff.module.parent_of.get(p)
      hn = next((n for n in ff.cfg.nodes if n.kind == 'if' and n.ast is top), None)
      if hn is not None:
        heads.append(hn)
    dom = bool(uses) and len(heads) == len(raises) and all(all(ff.cfg.dominates(h, u) for h in heads) for u in uses)
    # ... for every dataset of the stream, empty ones included: no `continue` may skip the tests
    every = bool(heads) and all(wmean._on_every_iteration(ff, lp, h) for h in heads)
    check.ob('R-ERR.every', fi, 'mismatch tests run for every dataset', every,
             'every dataset of the stream is validated, whatever its size: a dataset skipped before the tests (e.g. an empty client) with a '
             'different preprocessor or feature set is accepted silently')
    check.ob('R-ERR', fi, 'preprocessor is not first / features != first -> ValueError', kinds == {'preprocessor', 'features'} and dom,
             f'mismatching datasets are rejected (checks present: {sorted(kinds)}) before their examples are used '
             f'(dominates {len(uses)} use sites: {dom})')


def _buffered_shuffle(check: Check):
  repo = check.repo
  fi = repo.func(CD, 'buffered_shuffle')
  ff = FuncFlow.of(repo, fi)
  check.analysed(fi)
  p_src, p_size, p_rng = fi.positional_params[:3]
  it_def = [d for ds in ff.rd.defs_at.values() for d in ds if isinstance(d.value, ast.Call) and ff.ext(d.value.func) == 'builtins.iter' and ff.param_of(
      d.value.args[0]) == p_src]
  itn = it_def[0].name if len(it_def) == 1 else None
  buf_def = [d for ds in ff.rd.defs_at.values() for d in ds if isinstance(d.value, ast.Call) and ff.ext(d.value.func) == 'builtins.list' and d.value.args and isinstance(
      d.value.args[0], ast.Call) and ff.ext(d.value.args[0].func) == 'itertools.islice']
  ok_fill = False
  bufn = None
  if len(buf_def) == 1 and itn:
    isl = buf_def[0].value.args[0]
    ok_fill = txt(isl.args[0]) == itn and ff.param_of(isl.args[1]) == p_size
    bufn = buf_def[0].name
  check.ob('R-CONSERVE.fill', fi, 'it = iter(source); buf = list(islice(it, buffer_size))', ok_fill,
           'the buffer takes the first buffer_size items of the single iterator; the loop continues with the same iterator')
  loops = [n.ast for n in ff.cfg.nodes if n.kind == 'for']
  main = [l for l in loops if isinstance(l.iter, ast.Name) and l.iter.id == itn]
  tail = [l for l in loops if isinstance(l.iter, ast.Name) and l.iter.id == bufn]
  if len(main) != 1 or bufn is None:
    check.inconclusive('R-CONSERVE', fi, 'main loop', 'loop over the source iterator not found')
    return
  lp = main[0]
  item = lp.target.id
  # stores to buf in the loop body
  take = None
  swaps_ok = True
  n_store = 0
  for st in ast.walk(lp):
    if isinstance(st, ast.Assign) and isinstance(st.targets[0], ast.Tuple) and isinstance(st.value, ast.Tuple):
      L, R = st.targets[0].elts, st.value.elts
      touches = any(isinstance(x, ast.Subscript) and txt(x.value) == bufn for x in L)
      if not touches:
        continue
      n_store += 1
      lt, rt = [txt(x) for x in L], [txt(x) for x in R]
      if item in rt:
        # r, buf[k] = buf[k], item
        k = [x for x in lt if x.startswith(bufn + '[')]
        others = [x for x in lt if not x.startswith(bufn + '[')]
        if len(k) == 1 and len(others) == 1 and sorted(rt) == sorted([k[0], item]) and rt.index(k[0]) == lt.index(others[0]) and rt.index(item) == lt.index(k[0]):
          take = (others[0], k[0], st)
        else:
          swaps_ok = False
      else:
        if sorted(lt) != sorted(rt) or lt == rt and len(lt) > 1 and False:
          swaps_ok = False
    elif isinstance(st, ast.Assign) and isinstance(st.targets[0], ast.Subscript) and txt(st.targets[0].value) == bufn:
      n_store += 1
      swaps_ok = False
    elif isinstance(st, ast.Call) and isinstance(st.func, ast.Attribute) and txt(st.func.value) == bufn and st.func.attr in (
        'append', 'pop', 'insert', 'remove', 'clear', 'extend'):
      swaps_ok = False
  ok_take = take is not None
  # yield of the removed value exactly once per iteration
  ys = [(n, y) for n, y in ff.yields() if wmean._loop_of(ff, y) is lp]
  seen = set()
  ys = [(n, y) for n, y in ys if not (id(y) in seen or seen.add(id(y)))]
  ok_yield = False
  if take is not None and len(ys) == 1:
    n, y = ys[0]
    ok_yield = isinstance(y.value, ast.Name) and y.value.id == take[0] and wmean._on_every_iteration(ff, lp, n) and all(
        d.node.ast is take[2] for d in ff.defs_for(y.value))
  check.ob('R-CONSERVE', fi, f'{take[0] if take else "r"}, {take[1] if take else "buf[k]"} = {take[1] if take else "buf[k]"}, {item}; ...; yield',
           ok_take and swaps_ok and ok_yield,
           f'each incoming item replaces exactly one buffered item (ok={ok_take}), which is yielded exactly once on every path '
           f'(ok={ok_yield}); all other writes to the buffer are swaps of two slots (ok={swaps_ok}, {n_store} store statement(s))')
  ok_tail = False
  if len(tail) == 1:
    t = tail[0]
    yy = [x for x in ast.walk(t) if isinstance(x, ast.Yield)]
    ok_tail = len(yy) == 1 and isinstance(yy[0].value, ast.Name) and isinstance(t.target, ast.Name) and yy[0].value.id == t.target.id and not any(
        isinstance(x, (ast.If, ast.Continue, ast.Break)) for x in ast.walk(t))
  else:
    ok_tail = any(isinstance(x, ast.YieldFrom) and txt(x.value) == bufn for x in ast.walk(fi.node))
  check.ob('R-CONSERVE.tail', fi, f'for x in {bufn}: yield x', ok_tail, 'after the source is exhausted every remaining buffered item is emitted once')
  # the initial shuffle and the swap index come from the supplied generator only
  rng_calls = [c for _, c in ff.calls() if isinstance(c.func, ast.Attribute) and ff.param_of(c.func.value) == p_rng]
  other = [c for _, c in ff.calls() if (ff.ext(c.func) or '').startswith(('numpy.random.', 'random.'))]
  check.ob('R-CONSERVE.rng', fi, f'{len(rng_calls)} uses of the supplied rng', bool(rng_calls) and not other,
           'all randomness comes from the RandomState passed in (reproducible for a fixed seed)')


def _padded_multi(check: Check):
  repo = check.repo
  fi = repo.func(CD, 'padded_batch_client_datasets')
  ff = FuncFlow.of(repo, fi)
  # ---- roles
  BUF = BSZ = SIZE = START = FM = None
  for _, c in ff.calls():
    if wmean.repo_fn(ff, c) == f'{CD}:concat_examples' and c.args and isinstance(c.args[0], ast.Name):
      BUF = c.args[0].id
    if wmean.repo_fn(ff, c) == f'{CD}:_pick_final_batch_size' and c.args and isinstance(c.args[0], ast.Name):
      BSZ = c.args[0].id
  for ds in ff.rd.defs_at.values():
    for d in ds:
      if isinstance(d.value, ast.Call) and ff.ext(d.value.func) == 'builtins.len' and wmean._loop_of(ff, d.node.ast) is not None:
        SIZE = d.name
      if isinstance(d.value, ast.Call) and ff.ext(d.value.func) == 'numpy.ones':
        FM = d.name
  whiles = [n.ast for n in ff.cfg.nodes if n.kind == 'while']
  for w in whiles:
    t = w.test
    if isinstance(t, ast.Compare) and isinstance(t.left, ast.BinOp) and isinstance(t.left.left, ast.Name):
      START = t.left.left.id
  if BUF is None:
    # the list that collects partial rows: receiver of .append(...) calls next to a `+=` on a counter
    cands = {}
    for _, c in ff.calls():
      if isinstance(c.func, ast.Attribute) and c.func.attr == 'append' and isinstance(c.func.value, ast.Name):
        cands[c.func.value.id] = cands.get(c.func.value.id, 0) + 1
    BUF = max(cands, key=cands.get) if cands else None
  if BSZ is None and BUF is not None:
    for _, c in ff.calls():
      if isinstance(c.func, ast.Attribute) and c.func.attr == 'append' and txt(c.func.value) == BUF:
        blk = _block_of(ff, ff.module.enclosing_stmt(c))
        for s_ in blk:
          if isinstance(s_, ast.AugAssign) and isinstance(s_.op, ast.Add) and isinstance(s_.target, ast.Name):
            BSZ = s_.target.id
  if not all([BUF, BSZ, SIZE, START]):
    check.inconclusive('R-CONSERVE.pairs', fi, 'roles', f'cannot recover roles buf={BUF} buf_size={BSZ} size={SIZE} start={START}')
    return
  B = 'hparams.batch_size'
  appends = [c for _, c in ff.calls() if isinstance(c.func, ast.Attribute) and txt(c.func.value) == BUF and c.func.attr == 'append']
  clears = [c for _, c in ff.calls() if isinstance(c.func, ast.Attribute) and txt(c.func.value) == BUF and c.func.attr == 'clear']
  seen = set()
  appends = [c for c in appends if not (id(c) in seen or seen.add(id(c)))]
  clears = [c for c in clears if not (id(c) in seen or seen.add(id(c)))]
  ok = True
  detail = []
  for c in appends:
    st = ff.module.enclosing_stmt(c)
    block = _block_of(ff, st)
    arg = c.args[0]
    want = None
    if isinstance(arg, ast.Name):  # whole examples of a client: += size
      want = {SIZE}
    elif isinstance(arg, ast.Call) and wmean.repo_fn(ff, arg) == f'{CD}:slice_examples':
      sl = arg.args[1]
      if isinstance(sl, ast.Call) and len(sl.args) == 2:
        want = {f'{txt(sl.args[1])} - {txt(sl.args[0])}'}
      elif isinstance(sl, ast.Call) and len(sl.args) == 1:
        flush = any(isinstance(s_, ast.Expr) and isinstance(s_.value, ast.Call) and s_.value in clears for s_ in block)
        ok = ok and flush
        detail.append(f'head slice followed by flush={flush}')
        continue
    incs = [s_ for s_ in block if isinstance(s_, ast.AugAssign) and txt(s_.target) == BSZ and isinstance(s_.op, ast.Add)]
    good = len(incs) == 1 and want is not None and txt(incs[0].value) in want
    detail.append(f'append with size += {txt(incs[0].value) if incs else "?"}: {good}')
    ok = ok and good
  for c in clears:
    st = ff.module.enclosing_stmt(c)
    block = _block_of(ff, st)
    z = any(isinstance(s_, ast.Assign) and txt(s_.targets[0]) == BSZ and isinstance(s_.value, ast.Constant) and s_.value.value == 0 for s_ in block)
    ok = ok and z
    detail.append(f'clear with size = 0: {z}')
  check.ob('R-CONSERVE.pairs', fi, 'row buffer / its size updated together', ok and len(appends) >= 3 and len(clears) >= 1,
           'the size counter is always the number of rows held in the buffer: ' + '; '.join(detail))
  # contiguity of the slices taken from one client
  ok_w = False
  for w in whiles:
    sl = [x for x in ast.walk(w) if isinstance(x, ast.Call) and txt(x.func) == 'slice' and len(x.args) == 2]
    adv = [s_ for s_ in w.body if isinstance(s_, ast.AugAssign) and txt(s_.target) == START and txt(s_.value) == B]
    if sl and adv:
      ok_w = txt(sl[0].args[0]) == START and txt(sl[0].args[1]) == f'{START} + {B}'
  tail = [x for x in ast.walk(fi.node) if isinstance(x, ast.Call) and txt(x.func) == 'slice' and len(x.args) == 2 and txt(x.args[1]) == SIZE]
  ok_t = bool(tail) and txt(tail[0].args[0]) == START and any(pol and txt(t) == f'{START} < {SIZE}' for t, pol in guards_of(ff, tail[0]))
  head = [x for x in ast.walk(fi.node) if isinstance(x, ast.Call) and txt(x.func) == 'slice' and len(x.args) == 1]
  ok_h = bool(head) and txt(head[0].args[0]) == START
  check.ob('R-CONSERVE.contiguous', fi, 'slice(start) | slice(start, start+B), start += B | slice(start, size)', ok_w and ok_t and ok_h,
           f'a client\'s rows are consumed as consecutive slices [0,start) [start,start+B)... [start,size): head={ok_h}, whole '
           f'batches={ok_w}, tail={ok_t}')
  # the cursor into the current client's rows starts afresh with every client
  from fjsa.flow import carried_reads
  dl = next((n.ast for n in ff.cfg.nodes if n.kind == 'for' and ff.param_of(n.ast.iter) == fi.positional_params[0]), None)
  if dl is not None:
    stale = carried_reads(ff, dl, START)
    check.ob('R-CONSERVE.cursor', fi, f'{START} assigned in every iteration before it is read', not stale,
             f'the position inside the current client must not be inherited from the previous client' +
             (f': `{START}` read at line(s) {sorted({x.lineno for x in stale})} can still hold the previous client\'s value - its first rows '
              'would be skipped' if stale else ''), node=stale[0] if stale else None)
    stale_sz = carried_reads(ff, dl, SIZE)
    check.ob('R-CONSERVE.cursor', fi, f'{SIZE} assigned in every iteration before it is read', not stale_sz,
             'the row count is the current client\'s', node=stale_sz[0] if stale_sz else None)
  # final flush
  fin = any(isinstance(x, ast.Call) and wmean.repo_fn(ff, x) == f'{CD}:_pick_final_batch_size' and txt(x.args[0]) == BSZ
            for x in ast.walk(fi.node))
  last = fi.node.body[-1]
  flush = isinstance(last, ast.If) and txt(last.test) == BUF and any(isinstance(x, ast.Yield) for x in ast.walk(last))
  check.ob('R-CONSERVE.tail', fi, 'if buffer: yield pad_examples(concat(buffer), pick(size, ...))', fin and flush,
           'rows still buffered at the end are emitted as the (padded) final batch sized from the row counter')
  # full batches carry the all-True mask
  ym = [y for _, y in ff.yields() if isinstance(y.value, ast.Call) and wmean.repo_fn(ff, y.value) == f'{CD}:attach_mask']
  okm = len(ym) >= 2 and FM is not None and all(txt(y.value.args[1]) == FM for y in ym)
  check.ob('R-CONSERVE.mask', fi, 'attach_mask(preprocessor(...), all-True mask)', okm, 'every full batch is emitted with an all-True mask')


def _concat(check: Check):
  """concat_examples keeps every piece of every feature: an empty piece still names the features of an all-empty stream."""
  repo = check.repo
  fi = repo.func(CD, 'concat_examples')
  ff = FuncFlow.of(repo, fi)
  check.analysed(fi)
  p = fi.positional_params[0]
  outer = next((n.ast for n in ff.cfg.nodes if n.kind == 'for' and ff.param_of(n.ast.iter) == p), None)
  apps = [(n, c) for n, c in ff.calls() if isinstance(c.func, ast.Attribute) and c.func.attr in ('append', 'extend')]
  ok = False
  why = 'no accumulation loop over the pieces found'
  if outer is not None and apps:
    n, c = apps[0]
    inner = wmean._loop_of(ff, c)
    every_outer = wmean._on_every_iteration(ff, outer, n) if inner is outer else (
        inner is not None and wmean._on_every_iteration(ff, inner, n) and wmean._loop_of(ff, inner) is outer and
        wmean._on_every_iteration(ff, outer, next(x for x in ff.cfg.nodes if x.ast is inner and x.kind == 'for')))
    key_ok = inner is None or inner is outer or (isinstance(inner.iter, ast.Call) and isinstance(inner.iter.func, ast.Attribute) and inner.iter.func.attr == 'items')
    ok = bool(every_outer and key_ok)
    why = f'every feature array of every piece is appended, unconditionally={bool(every_outer)}; pieces are visited feature by feature={key_ok}'
  check.ob('R-CONSERVE.concat', fi, 'for piece: for k, v in piece.items(): parts[k].append(v)', ok,
           why + ' - skipping (e.g. empty) pieces loses the feature set of a stream that only has empty clients')
  ret = [rv for _, rv in ff.returns()]
  cat = any(isinstance(x, ast.Call) and ff.ext(x.func) == 'numpy.concatenate' for rv in ret for x in ast.walk(rv))
  axis0 = all(not any(k.arg == 'axis' and not (isinstance(k.value, ast.Constant) and k.value.value == 0) for k in x.keywords)
              for rv in ret for x in ast.walk(rv) if isinstance(x, ast.Call) and ff.ext(x.func) == 'numpy.concatenate')
  check.ob('R-CONSERVE.concat', fi, 'np.concatenate(parts, axis=0) per feature', cat and axis0, 'pieces are joined along the example axis, in order')


def _block_of(ff: FuncFlow, st: ast.stmt) -> List[ast.stmt]:
  p = ff.module.parent_of.get(st)
  for fld in ('body', 'orelse', 'finalbody'):
    blk = getattr(p, fld, None)
    if isinstance(blk, list) and any(s is st for s in blk):
      return blk
  return []


def _shuffle_batch(check: Check):
  repo = check.repo
  outer = repo.func(CD, 'buffered_shuffle_batch_client_datasets')
  gen = outer.nested('gen_items')
  gff = FuncFlow.of(repo, gen)
  ok_enum = False
  for n in gff.cfg.nodes:
    if n.kind == 'for' and isinstance(n.ast.iter, ast.Call) and gff.ext(n.ast.iter.func) == 'builtins.range' and len(n.ast.iter.args) == 1:
      a = n.ast.iter.args[0]
      outer_loop = wmean._loop_of(gff, n.ast)
      dsn = outer_loop.target.id if isinstance(outer_loop, ast.For) and isinstance(outer_loop.target, ast.Name) else None
      if isinstance(a, ast.Call) and gff.ext(a.func) == 'builtins.len' and txt(a.args[0]) == dsn:
        yy = [x for x in ast.walk(n.ast) if isinstance(x, ast.Yield)]
        ok_enum = len(yy) == 1 and isinstance(yy[0].value, ast.Tuple) and txt(yy[0].value.elts[0]) == f'{dsn}.raw_examples' and txt(
            yy[0].value.elts[1]) == n.ast.target.id
  check.ob('R-CONSERVE.items', gen, 'for i in range(len(dataset)): yield (dataset.raw_examples, i)', ok_enum,
           'every row of every dataset is enumerated exactly once as an (examples, index) item')
  ff = FuncFlow.of(repo, outer)
  check.analysed(outer)
  sh = [c for _, c in ff.calls() if wmean.repo_fn(ff, c) == f'{CD}:buffered_shuffle']
  it_ok = False
  if len(sh) == 1 and isinstance(sh[0].args[0], ast.Name):
    it_ok = all(isinstance(d.value, ast.Call) and ff.callee(d.value).kind == 'func' and ff.callee(d.value).func is gen
                for d in ff.defs_for(sh[0].args[0])) and bool(ff.defs_for(sh[0].args[0]))
  ok_sh = len(sh) == 1 and [ff.param_of(a) for a in sh[0].args][1:] == ['buffer_size', 'rng'] and it_ok
  ok_b = False
  BUF = None
  for n in ff.cfg.nodes:
    if n.kind == 'for' and n.ast.iter is (sh[0] if sh else None):
      body = n.ast.body
      app = [s_ for s_ in body if isinstance(s_, ast.Expr) and isinstance(s_.value, ast.Call) and isinstance(s_.value.func, ast.Attribute) and
             s_.value.func.attr == 'append' and txt(s_.value.args[0]) == n.ast.target.id]
      if len(app) == 1:
        BUF = txt(app[0].value.func.value)
      full = [s_ for s_ in body if isinstance(s_, ast.If) and txt(s_.test) == f'len({BUF}) == batch_size']
      ok_b = len(app) == 1 and len(full) == 1 and any(isinstance(x, ast.Yield) for x in ast.walk(full[0])) and any(
          isinstance(x, ast.Call) and txt(x.func) == f'{BUF}.clear' for x in ast.walk(full[0]))
  last = outer.node.body[-1]
  ok_tail = isinstance(last, ast.If) and txt(last.test) == BUF and any(isinstance(x, ast.Yield) for x in ast.walk(last))
  # one row per item: slice(i, i + 1) of the item's own examples
  row = True
  for _, y in ff.yields():
    if y.value is None:
      continue
    sls = [x for x in ast.walk(y.value) if isinstance(x, ast.Call) and txt(x.func) == 'slice']
    row = row and len(sls) == 1 and len(sls[0].args) == 2 and txt(sls[0].args[1]) == f'{txt(sls[0].args[0])} + 1'
  check.ob('R-CONSERVE.batches', outer, 'append; if len(buffer) == batch_size: yield, clear; ...; if buffer: yield', ok_sh and ok_b and ok_tail and row,
           f'every shuffled item lands in exactly one batch (shuffle over all items={ok_sh}, assemble/flush={ok_b}, final partial '
           f'batch emitted={ok_tail}, one row per item={row})')


def _repeatable(check: Check):
  repo = check.repo
  ci = repo.cls(FD, 'RepeatableIterator')
  init, nxt = ci.method('__init__'), ci.method('__next__')
  iff, nff = FuncFlow.of(repo, init), FuncFlow.of(repo, nxt)
  check.analysed(init)
  check.analysed(nxt)
  # __init__: container arm -> first_pass False, buf = base; general arm -> first_pass True, buf = []
  arms = {}
  for n in iff.cfg.nodes:
    if n.kind == 'stmt' and isinstance(n.ast, ast.Assign) and isinstance(n.ast.targets[0], ast.Attribute):
      g = guards_of(iff, n.ast)
      pol = g[0][1] if g else None
      arms.setdefault(pol, {})[n.ast.targets[0].attr] = n.ast.value
  a_t, a_f = arms.get(True, {}), arms.get(False, {})
  ok_init = (isinstance(a_t.get('_first_pass'), ast.Constant) and a_t['_first_pass'].value is False and iff.param_of(a_t.get('_buf')) == 'base' and
             isinstance(a_f.get('_first_pass'), ast.Constant) and a_f['_first_pass'].value is True and isinstance(a_f.get('_buf'), ast.List) and
             not a_f['_buf'].elts)
  check.ob('R-REPLAY', init, 'container: first_pass=False, buf=base / otherwise: first_pass=True, buf=[]', ok_init,
           'copying is enabled exactly when the replay buffer is a private list')
  # the no-copy arm is taken only for builtin containers whose iter() restarts from the beginning with the same items
  REITERABLE = {'list', 'tuple', 'dict', 'str', 'bytes', 'bytearray', 'range', 'frozenset', 'set'}
  test = next((n.ast.test for n in iff.cfg.nodes if n.kind == 'if'), None)
  if test is not None:
    types, negated, shape_ok = [], False, True
    for x in ast.walk(test):
      if isinstance(x, ast.UnaryOp) and isinstance(x.op, ast.Not):
        negated = True
      if isinstance(x, ast.Call) and isinstance(x.func, ast.Name) and x.func.id == 'isinstance' and len(x.args) == 2:
        if iff.param_of(x.args[0]) != 'base':
          shape_ok = False
        t = x.args[1]
        if isinstance(t, ast.Name):
          # any(isinstance(base, c) for c in (...)): the comprehension variable ranges over a literal tuple
          comp = next((g for y in ast.walk(test) if isinstance(y, (ast.GeneratorExp, ast.ListComp)) for g in y.generators
                       if isinstance(g.target, ast.Name) and g.target.id == t.id), None)
          if comp is not None and isinstance(comp.iter, (ast.Tuple, ast.List)):
            types += comp.iter.elts
          else:
            types.append(t)
        elif isinstance(t, (ast.Tuple, ast.List)):
          types += t.elts
        else:
          types.append(t)
    names = []
    for t in types:
      r = repo.resolve(init.scope, t)
      names.append(r.path.split('.')[-1] if r.kind == 'ext' and r.path.startswith('builtins.') else txt(t))
    if not types or not shape_ok:
      check.inconclusive('R-REPLAY', init, txt(test)[:80], 'the no-copy condition is not an isinstance test of the base iterable; cannot decide '
                         'whether every base taking that arm replays itself')
    else:
      bad = sorted(set(names) - REITERABLE)
      check.ob('R-REPLAY.nocopy', init, 'no-copy arm only for builtin re-iterable containers', not negated and not bad,
               'an arbitrary iterable (a sampler, a dataset view, a file-backed stream) may give different or no items on a second '
               f'iter(); only {sorted(REITERABLE)} may skip the private copy (negated test: {negated}, other types: {bad})', node=test)
  # __next__: append guarded by self._first_pass, dominates the return
  apps = [c for _, c in nff.calls() if isinstance(c.func, ast.Attribute) and c.func.attr == 'append' and txt(c.func.value) == 'self._buf']
  ok_app = False
  if len(apps) == 1:
    c = apps[0]
    g = guards_of(nff, nff.module.enclosing_stmt(c))
    guarded = any(pol and txt(t) == 'self._first_pass' for t, pol in g)
    val_ok = isinstance(c.args[0], ast.Name) and any(isinstance(d.value, ast.Call) and txt(d.value.func) == 'next' for d in nff.defs_for(c.args[0]))
    rets = nff.returns()
    ret_ok = len(rets) == 1 and isinstance(rets[0][1], ast.Name) and rets[0][1].id == c.args[0].id
    ifn = next((n for n in nff.cfg.nodes if n.kind == 'if' and txt(n.ast.test) == 'self._first_pass' and any(c is x for s in n.ast.body for x in ast.walk(s))), None)
    dom = ifn is not None and nff.cfg.dominates(ifn, rets[0][0]) if rets else False
    ok_app = guarded and val_ok and ret_ok and dom
  other_mut = [c for _, c in nff.calls() if isinstance(c.func, ast.Attribute) and txt(c.func.value) == 'self._buf' and c.func.attr in (
      'clear', 'pop', 'remove', 'insert', 'extend', 'sort', 'reverse')]
  check.ob('R-REPLAY', nxt, 'if self._first_pass: self._buf.append(value); return value', ok_app and not other_mut,
           'every value handed out during the first pass is recorded before it is returned; a caller-owned container (first_pass '
           'False) is never modified')
  # StopIteration handler
  ok_stop = False
  for n in nff.cfg.nodes:
    if n.kind == 'except' and n.ast.type is not None and 'StopIteration' in txt(n.ast.type):
      body = n.ast.body
      reseat = any(isinstance(s, ast.Assign) and txt(s.targets[0]) == 'self._iter' and txt(s.value) == 'iter(self._buf)' for s in body)
      reraise = isinstance(body[-1], ast.Raise) and body[-1].exc is None
      done = any(isinstance(x, ast.Assign) and txt(x.targets[0]) == 'self._first_pass' and isinstance(x.value, ast.Constant) and x.value.value is False
                 for s in body for x in ast.walk(s))
      ok_stop = reseat and reraise and done
  check.ob('R-REPLAY', nxt, 'except StopIteration: first_pass = False; self._iter = iter(self._buf); raise', ok_stop,
           'the end of a pass stops recording, re-seats the iterator on the replay buffer and still signals the end to the caller')


def _centralised(check: Check):
  repo = check.repo
  fi = repo.func(FD, 'shuffle_repeat_batch_federated_data')
  ff = FuncFlow.of(repo, fi)
  check.analysed(fi)
  rs = [d for ds in ff.rd.defs_at.values() for d in ds if isinstance(d.value, ast.Call) and ff.ext(d.value.func) == 'numpy.random.RandomState' and ff.param_of(
      d.value.args[0]) == 'seed']
  ok = len(rs) == 1
  call_ok = False
  for _, c in ff.calls():
    if wmean.repo_fn(ff, c) == f'{CD}:buffered_shuffle_batch_client_datasets':
      b = call_args(c, ['datasets', 'batch_size', 'buffer_size', 'rng'])
      call_ok = ff.param_of(b.get('batch_size')) == 'batch_size' and ff.param_of(b.get('buffer_size')) == 'example_buffer_size' and isinstance(
          b.get('rng'), ast.Name) and rs and b['rng'].id == rs[0].name
  sc_ok = any(isinstance(c.func, ast.Attribute) and c.func.attr == 'shuffled_clients' and c.args and ff.param_of(c.args[0]) == 'client_buffer_size'
              for _, c in ff.calls())
  check.ob('R-CONSERVE.two-level', fi, 'shuffled_clients(client_buffer, seed1) -> buffered_shuffle_batch(..., example_buffer, rng)',
           ok and call_ok and sc_ok,
           f'one seeded generator drives both levels (ok={ok}); client-level buffer and example-level buffer are wired to their own '
           f'parameters (clients={sc_ok}, examples={call_ok})')
  pb = repo.func(FD, 'padded_batch_federated_data')
  pff = FuncFlow.of(repo, pb)
  okp = any(isinstance(x, ast.YieldFrom) and isinstance(x.value, ast.Call) and wmean.repo_fn(pff, x.value) == f'{CD}:padded_batch_client_datasets'
            for x in ast.walk(pb.node)) and any(isinstance(c.func, ast.Attribute) and c.func.attr == 'clients' for _, c in pff.calls())
  check.ob('R-CONSERVE.two-level', pb, 'yield from padded_batch_client_datasets(datasets of fd.clients(), ...)', okp,
           'centralised evaluation batches every client of the view, in the view\'s deterministic order')
