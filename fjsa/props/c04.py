"""C04 - shuffled batching samples without replacement, exact count, seeded (structural part)."""
from __future__ import annotations

import ast
from typing import List, Optional

from fjsa.flow import ntxt, FuncFlow, call_args, guards_of, same, txt
from fjsa.model import FuncInfo
from fjsa.report import Check
from fjsa.rules import wmean
from fjsa.rules.pure import PurityAnalysis

EXTRA_FORWARD_FILES = ('fedjax/core/dataclasses.py', 'fedjax/training/structured_flags.py')
MOD = 'fedjax.core.client_datasets'
GLOBAL_RNG_OK = {'numpy.random.RandomState', 'numpy.random.default_rng', 'numpy.random.Generator', 'numpy.random.SeedSequence'}


def run(check: Check, with_flags: bool = True):
  repo = check.repo
  check.rule('R-SEED', 'the generator used by ShuffleRepeatBatchView.__iter__ is a fresh np.random.RandomState(self._seed) created '
             'inside __iter__; no module of fedjax/core calls a global numpy / random module RNG function')
  check.rule('R-PERM', 'the index buffer is np.arange(size) and is afterwards only permuted in place by rng.shuffle: every '
             'window of it holds distinct indices; the shuffle happens exactly when the buffer is exhausted (and shuffling is '
             'enabled), together with the cursor reset; the cursor otherwise advances by the number of indices just copied')
  check.rule('R-SIZE', 'every batch is {k: v[indices]} with indices allocated with shape (batch_size,) and filled until '
             'filled == indices.size; the step count is min(num_steps, ceil-or-floor(N * epochs / batch)) as documented')
  check.rule('R-PURE', '__iter__ writes to no attribute of self and not to the dataset')
  check.undecided('the step-count arithmetic over all hyper-parameter combinations; window/permutation coverage over many epochs; '
                  'balance of usage counts - arithmetic over runtime values')
  fi = repo.func(MOD, 'ShuffleRepeatBatchView.__iter__')
  ff = FuncFlow.of(repo, fi)
  check.analysed(fi)
  # ---- seeding
  rs = [(d, d.value) for ds in ff.rd.defs_at.values() for d in ds if isinstance(d.value, ast.Call) and ff.ext(d.value.func) == 'numpy.random.RandomState']
  ok_seed = len(rs) == 1 and len(rs[0][1].args) == 1 and txt(rs[0][1].args[0]) == 'self._seed' and wmean._loop_of(ff, rs[0][0].node.ast) is None
  check.ob('R-SEED', fi, 'rng = np.random.RandomState(self._seed)', ok_seed,
           'each iteration of the view starts a fresh generator from the configured seed (repeatable for a fixed seed)')
  rng_name = rs[0][0].name if rs else None
  n_glob = 0
  for m in [mm for nm, mm in repo.modules.items() if nm.startswith('fedjax.core')]:
    for f in m.functions():
      f2 = FuncFlow.of(repo, f)
      for _, c in f2.calls():
        p = f2.ext(c.func) or ''
        if (p.startswith('numpy.random.') and p not in GLOBAL_RNG_OK) or p.startswith('random.'):
          n_glob += 1
          check.ob('R-SEED.global', f, txt(c)[:60], False,
                   f'{p} draws from hidden global state: batches would not be reproducible for a fixed seed', node=c)
  check.ob('R-SEED.global', ('fedjax/core/*', '<all functions>'), 'global RNG calls in fedjax/core', n_glob == 0,
           'none' if n_glob == 0 else f'{n_glob} call(s)', nontrivial=False)
  # ---- permutation invariant of buf
  buf_defs = [d for ds in ff.rd.defs_at.values() for d in ds if isinstance(d.value, ast.Call) and ff.ext(d.value.func) == 'numpy.arange']
  ok_arange = len(buf_defs) == 1 and txt(buf_defs[0].value.args[0]) == 'self._data_size'
  BUF = buf_defs[0].name if buf_defs else None
  if ok_arange:
    ok_arange = len([d for ds in ff.rd.defs_at.values() for d in ds if d.name == BUF]) == 1
  _index_dtype(check, fi, ff, buf_defs)
  if with_flags:
    _flags(check)
  # the number of batches is computed from len(dataset): the dataset's size is the number of rows it holds, also after slicing
  from fjsa.props import c03
  c03._dataset(check)
  writes = []
  for n in ff.cfg.nodes:
    if n.ast is None:
      continue
    for x in n.walk():
      if isinstance(x, ast.Subscript) and isinstance(x.ctx, ast.Store) and txt(x.value) == BUF:
        writes.append(x)
      if isinstance(x, ast.Call) and isinstance(x.func, ast.Attribute) and any(isinstance(a, ast.Name) and a.id == BUF for a in x.args):
        if not (x.func.attr == 'shuffle' and txt(x.func.value) == rng_name):
          if x.func.attr not in ('copy',):
            writes.append(x)
      if isinstance(x, ast.Call) and isinstance(x.func, ast.Attribute) and txt(x.func.value) == BUF and x.func.attr in (
          'sort', 'fill', 'put', 'resize', 'itemset'):
        writes.append(x)
  check.ob('R-PERM', fi, 'index buffer = np.arange(size); only rng.shuffle(buffer) writes it', ok_arange and not writes,
           'buf always holds each index exactly once' if not writes else f'buf is also written by {txt(writes[0])[:50]}')
  # ---- roles recovered from the copy statement  IND[F:F+U] = buf[C:C+U]  (name agnostic)
  roles = None
  buf_name = buf_defs[0].name if buf_defs else None
  for n in ff.cfg.nodes:
    if n.kind == 'stmt' and isinstance(n.ast, ast.Assign) and isinstance(n.ast.targets[0], ast.Subscript) and isinstance(n.ast.value, ast.Subscript):
      t, v = n.ast.targets[0], n.ast.value
      if isinstance(v.value, ast.Name) and v.value.id == buf_name and isinstance(v.slice, ast.Slice) and isinstance(t.slice, ast.Slice):
        c, cu = v.slice.lower, v.slice.upper
        f, fu = t.slice.lower, t.slice.upper
        if isinstance(c, ast.Name) and isinstance(f, ast.Name) and isinstance(cu, ast.BinOp) and isinstance(fu, ast.BinOp) and isinstance(
            cu.op, ast.Add) and isinstance(fu.op, ast.Add):
          u1 = [x for x in (cu.left, cu.right) if not (isinstance(x, ast.Name) and x.id == c.id)]
          u2 = [x for x in (fu.left, fu.right) if not (isinstance(x, ast.Name) and x.id == f.id)]
          if len(u1) == 1 and len(u2) == 1 and isinstance(u1[0], ast.Name) and same(u1[0], u2[0]) and isinstance(t.value, ast.Name):
            roles = dict(cursor=c.id, filled=f.id, used=u1[0].id, indices=t.value.id, node=n)
  if roles is None:
    # which variable indexes the features in the yielded batch?
    gather = None
    for y in [y for _, y in ff.yields()]:
      for x in ast.walk(y.value) if y.value is not None else []:
        pass
    for n in ff.cfg.nodes:
      if n.ast is None:
        continue
      for x in n.walk():
        if isinstance(x, ast.DictComp) and isinstance(x.value, ast.Subscript) and isinstance(x.value.slice, ast.Name):
          gather = x.value.slice.id
    bad_store = None
    if gather:
      for n in ff.cfg.nodes:
        if n.kind == 'stmt' and isinstance(n.ast, ast.Assign) and isinstance(n.ast.targets[0], ast.Subscript) and txt(n.ast.targets[0].value) == gather:
          bad_store = n.ast
    if bad_store is not None:
      check.ob('R-PERM.window', fi, 'indices[...] = <not a window of the permutation buffer>', False,
               'the batch indices are not copied from a window of the permutation buffer: examples can repeat within a pass '
               '(sampling with replacement)', node=bad_store)
    else:
      check.inconclusive('R-PERM.window', fi, 'indices[f:f+u] = buf[c:c+u]', 'window copy statement not recognised')
    return
  C, F, U, IND = roles['cursor'], roles['filled'], roles['used'], roles['indices']
  def stmts(pred):
    return [n for n in ff.cfg.nodes if n.kind == 'stmt' and pred(n.ast)]
  def is_aug_add(a, target, val):
    return isinstance(a, ast.AugAssign) and isinstance(a.op, ast.Add) and txt(a.target) == target and txt(a.value) == val
  adv = bool(stmts(lambda a: is_aug_add(a, C, U))) and bool(stmts(lambda a: is_aug_add(a, F, U)))
  # used = min(available, desired - filled)
  used_defs = [d for ds in ff.rd.defs_at.values() for d in ds if d.name == U]
  A = D = None
  used_ok = False
  if len(used_defs) == 1 and isinstance(used_defs[0].value, ast.Call) and ff.ext(used_defs[0].value.func) == 'builtins.min' and len(used_defs[0].value.args) == 2:
    for a in used_defs[0].value.args:
      if isinstance(a, ast.Name):
        A = a.id
      elif isinstance(a, ast.BinOp) and isinstance(a.op, ast.Sub) and isinstance(a.right, ast.Name) and a.right.id == F and isinstance(a.left, ast.Name):
        D = a.left.id
    used_ok = A is not None and D is not None
  # available = size - cursor (size = number of indices in buf)
  S = None
  avail_ok = False
  for d in [d for ds in ff.rd.defs_at.values() for d in ds if d.name == A]:
    v = d.value
    if isinstance(v, ast.BinOp) and isinstance(v.op, ast.Sub) and isinstance(v.right, ast.Name) and v.right.id == C and isinstance(v.left, ast.Name):
      S = v.left.id
      avail_ok = True
  size_ok = False
  for d in [d for ds in ff.rd.defs_at.values() for d in ds if d.name == S]:
    size_ok = txt(d.value) in (f'{buf_name}.shape[0]', f'len({buf_name})', f'{buf_name}.size', 'self._data_size')
  # exhaustion branch
  shuffles = [c for _, c in ff.calls() if isinstance(c.func, ast.Attribute) and c.func.attr == 'shuffle' and txt(c.func.value) == rng_name]
  ok_sh = False
  why = f'{len(shuffles)} shuffle sites'
  if len(shuffles) == 1 and A is not None:
    c = shuffles[0]
    arg_ok = len(c.args) == 1 and isinstance(c.args[0], ast.Name) and c.args[0].id == buf_name
    g = guards_of(ff, ff.module.enclosing_stmt(c))
    exhausted = any(pol and isinstance(t, ast.Compare) and isinstance(t.ops[0], ast.Eq) and txt(t.left) == A and isinstance(
        t.comparators[0], ast.Constant) and t.comparators[0].value == 0 for t, pol in g)
    enabled = any((not pol) and txt(t).endswith('skip_shuffle') for t, pol in g)
    ex_if = next((n.ast for n in ff.cfg.nodes if n.kind == 'if' and isinstance(n.ast.test, ast.Compare) and txt(n.ast.test.left) == A and isinstance(
        n.ast.test.ops[0], ast.Eq)), None)
    reset = ex_if is not None and any(isinstance(s_, ast.Assign) and txt(s_.targets[0]) == C and isinstance(s_.value, ast.Constant) and s_.value.value == 0
                                      for s_ in ex_if.body)
    refill = ex_if is not None and any(isinstance(s_, ast.Assign) and txt(s_.targets[0]) == A and txt(s_.value) == S for s_ in ex_if.body)
    # the exhaustion test is evaluated before `used` on every iteration of the fill loop
    ok_sh = arg_ok and exhausted and enabled and reset and refill
    why = (f'shuffles the index buffer={arg_ok}, only when {A} == 0={exhausted}, only when shuffling is enabled={enabled}, '
           f'cursor reset={reset}, window refilled={refill}')
  check.ob('R-PERM.reshuffle', fi, 'if available == 0: [shuffle]; cursor = 0; available = size', ok_sh,
           f'a new permutation is drawn exactly when the previous one is used up (never in the middle of a pass): {why}')
  # first pass starts exhausted (so it is shuffled): cursor initialised to the buffer size
  init_c = [d for ds in ff.rd.defs_at.values() for d in ds if d.name == C and d.kind == 'assign' and wmean._loop_of(ff, d.node.ast) is None]
  start_cursor = len(init_c) == 1 and txt(init_c[0].value) == S
  check.ob('R-PERM.window', fi, 'indices[f:f+u] = buffer[c:c+u]; c += u; f += u',
           avail_ok and size_ok and used_ok and adv and start_cursor,
           f'consecutive, non-overlapping windows of the current permutation are copied ({A} = {S} - {C}: {avail_ok}; {S} is the '
           f'buffer length: {size_ok}; {U} = min({A}, {D} - {F}): {used_ok}; both cursors advance by {U}: {adv}; the first pass '
           f'starts exhausted so that it is shuffled: {start_cursor})')
  # ---- exact size
  ind = [d for ds in ff.rd.defs_at.values() for d in ds if d.name == IND]
  ok_ind = len(ind) == 1 and isinstance(ind[0].value, ast.Call) and ff.ext(ind[0].value.func) in ('numpy.zeros', 'numpy.empty') and txt(
      ind[0].value.args[0]).replace(' ', '') in ('(self._batch_size,)', '[self._batch_size]', 'self._batch_size')
  des = any(d.name == D and txt(d.value) in (f'{IND}.size', f'len({IND})', f'{IND}.shape[0]', 'self._batch_size')
            for ds in ff.rd.defs_at.values() for d in ds)
  wh = any(n.kind == 'while' and isinstance(n.ast.test, ast.Compare) and txt(n.ast.test.left) == F and isinstance(n.ast.test.ops[0], ast.Lt) and txt(
      n.ast.test.comparators[0]) == D for n in ff.cfg.nodes)
  filled0 = any(d.name == F and isinstance(d.value, ast.Constant) and d.value.value == 0 for ds in ff.rd.defs_at.values() for d in ds)
  yields = [y for _, y in ff.yields()]
  ok_y = False
  for y in yields:
    v = y.value
    if isinstance(v, ast.Call) and txt(v.func).endswith('.preprocessor') and v.args:
      for x in ff.expand(v.args[0]):
        if isinstance(x, ast.DictComp) and isinstance(x.value, ast.Subscript) and txt(x.value.slice) == IND and txt(x.generators[0].iter).endswith(
            'raw_examples.items()'):
          ok_y = True
        # the module's own gather helper: slice_examples(<dataset>.raw_examples, indices) is {k: v[indices] for k, v in ...}
        if isinstance(x, ast.Call) and wmean.repo_fn(ff, x) == f'{MOD}:slice_examples' and len(x.args) == 2 and txt(x.args[0]).endswith(
            'raw_examples') and txt(x.args[1]) == IND:
          ok_y = True
  check.ob('R-SIZE', fi, 'indices = zeros((batch_size,)); while filled < size; yield {k: v[indices]}',
           ok_ind and des and wh and ok_y and filled0,
           f'every batch has exactly batch_size rows, all features gathered with the same indices (alloc={ok_ind}, target size='
           f'{des}, fill loop from 0={wh and filled0}, gather+preprocess={ok_y})')
  # outer loop: desired_num_steps
  outer = False
  inc = False
  seen_outer = False
  for n in ff.cfg.nodes:
    if n.kind == 'while' and isinstance(n.ast.test, ast.BoolOp) and isinstance(n.ast.test.op, ast.Or) and len(n.ast.test.values) == 2:
      a, b = n.ast.test.values
      if isinstance(a, ast.Compare) and isinstance(a.ops[0], ast.Is) and isinstance(b, ast.Compare) and len(b.ops) == 1 and txt(
          a.left) in (txt(b.comparators[0]), txt(b.left)):
        seen_outer = True
      if isinstance(a, ast.Compare) and isinstance(a.ops[0], ast.Is) and isinstance(b, ast.Compare) and isinstance(b.ops[0], ast.Lt) and txt(
          a.left) == txt(b.comparators[0]):
        limit_defs = [d for ds in ff.rd.defs_at.values() for d in ds if d.name == txt(a.left)]
        outer = bool(limit_defs) and all(txt(d.value) == 'self._num_steps' for d in limit_defs)
        cnt = txt(b.left)
        inc = any(isinstance(st, ast.AugAssign) and txt(st.target) == cnt and isinstance(st.value, ast.Constant) and st.value.value == 1
                  for st in n.ast.body) and any(d.name == cnt and isinstance(d.value, ast.Constant) and d.value.value == 0
                                               for ds in ff.rd.defs_at.values() for d in ds)
  check.ob('R-SIZE.steps', fi, 'while desired is None or num_steps < desired: ...; num_steps += 1', (outer and inc) if seen_outer else None,
           'exactly the computed number of batches is produced (or endlessly many when both limits are None)')
  _num_steps(check)
  pa = PurityAnalysis(repo)
  bad = [mu for mu in pa.mutations(fi) if mu.root in fi.params or mu.root.startswith('<global')]
  for mu in bad:
    check.ob('R-PURE', fi, mu.construct, False, f'{mu.how} ({mu.root})', node=mu.node, exact=True)
  if not bad:
    check.ob('R-PURE', fi, '__iter__', True, 'no write through self: repeated iteration with a fixed seed is identical')


WIDE_INT = {'int32', 'int64', 'intp', 'int_', 'uint32', 'uint64'}


def _dtype_name(ff: FuncFlow, call: ast.Call):
  d = next((k.value for k in call.keywords if k.arg == 'dtype'), None)
  if d is None and len(call.args) >= 2 and ff.ext(call.func) in ('numpy.zeros', 'numpy.empty', 'numpy.ones'):
    d = call.args[1]
  if d is None:
    return None   # numpy default
  p = ff.ext(d)
  if p and p.startswith('numpy.'):
    return p.split('.')[-1]
  if isinstance(d, ast.Constant) and isinstance(d.value, str):
    return d.value
  if isinstance(d, ast.Name) and d.id == 'int':
    return 'int_'
  return txt(d)


def _index_dtype(check: Check, fi, ff: FuncFlow, buf_defs):
  """Index arrays can address every row: the per-batch index array has the element type of the permutation buffer, and that
  type is at least 32 bits wide."""
  if len(buf_defs) != 1:
    return
  b_dt = _dtype_name(ff, buf_defs[0].value)
  idx_defs = [d for ds in ff.rd.defs_at.values() for d in ds if isinstance(d.value, ast.Call) and ff.ext(d.value.func) in ('numpy.zeros', 'numpy.empty')]
  for d in idx_defs:
    i_dt = _dtype_name(ff, d.value)
    wide = (b_dt is None or b_dt in WIDE_INT) and i_dt is not None and i_dt in WIDE_INT
    same_w = b_dt is None or i_dt == b_dt or (i_dt in ('int64', 'intp', 'int_'))
    check.ob('R-PERM.dtype', fi, f'{txt(d.value)[:60]} / {txt(buf_defs[0].value)[:50]}', wide and same_w,
             f'row indices are copied from the permutation buffer ({b_dt or "default int"}) into the batch index array ({i_dt}): a narrower '
             'type wraps silently for large clients and the batch then holds wrong (negative -> from the end) rows', node=d.value)
  check.floor('R-PERM.dtype', 'index arrays', len(idx_defs), 1)


def _flags(check: Check):
  """Batching hyper-parameters built from command-line flags take each flag value as it is (0 is a value, not 'unset')."""
  repo = check.repo
  SF = 'fedjax.training.structured_flags'
  try:
    m = repo.module(SF)
  except Exception:  # pylint: disable=broad-except
    return
  n = 0
  for ci in m.classes():
    g = ci.methods.get('get')
    if g is None or not ci.name.endswith('HParamsFlags'):
      continue
    gff = FuncFlow.of(repo, g)
    check.analysed(g)
    for _, rv in gff.returns():
      for c in gff.expand(rv):
        if not (isinstance(c, ast.Call) and (wmean.repo_fn(gff, c) or gff.callee(c).kind == 'class')):
          continue
        from fjsa.flow import bound_args
        for arg, v in bound_args(gff, c).items():
          n += 1
          direct = isinstance(v, ast.Call) and txt(v.func) == 'self._get_flag' and len(v.args) == 1 and isinstance(v.args[0], ast.Constant)
          ok = direct and v.args[0].value == arg
          check.ob('R-FORWARD.flags', g, f'{arg}={txt(v)[:50]}', ok,
                   f'hyper-parameter `{arg}` must be the value of the flag of the same name, unmodified (a truthiness default such as '
                   '`x or None` turns an explicit 0 into "unset")', node=v)
  check.floor('R-FORWARD.flags', 'hparams fields built from flags', n, 5)


def _num_steps(check: Check):
  repo = check.repo
  fi = repo.func(MOD, 'ShuffleRepeatBatchView.__init__')
  ff = FuncFlow.of(repo, fi)
  check.analysed(fi)
  # Case table over (num_epochs given?, drop_remainder, num_steps given?): the statements of __init__ are followed once per case with
  # the three tests decided by the case; what ends up in self._num_steps is an expression over len(dataset) and the hyper-parameters
  # and is compared with the definition. Independent of nesting, temporaries, helpers (inlined) and the order of the tests.
  from fjsa.rules import cases

  RENAME = {'len(client_dataset)': 'N', 'hparams.num_epochs': 'E', 'hparams.batch_size': 'B', 'hparams.num_steps': 'S',
            'self._data_size': 'N', 'self._batch_size': 'B'}

  def norm(e):
    return cases.canon_text(e, RENAME)

  def forms(*srcs):
    return {norm(ast.parse(x, mode='eval').body) for x in srcs}
  FLOOR = forms('N * E // B', '(N * E) // B')
  CEIL = forms('(N * E + B - 1) // B', '-(-(N * E) // B)', '-(-N * E // B)', '(N * E + (B - 1)) // B', '(N * E - 1) // B + 1')

  def capped(fs):
    return {f'min({", ".join(sorted(["S", f]))})' for f in fs}
  verdicts = {'bound': True, 'cap': True}
  detail = []
  truthy = set()
  floaty = set()
  for has_e in (True, False):
    for drop in (True, False):
      for has_s in (True, False):
        def decide(t, has_e=has_e, drop=drop, has_s=has_s):
          if isinstance(t, ast.UnaryOp) and isinstance(t.op, ast.Not):
            r = decide(t.operand)
            return None if r is None else not r
          if isinstance(t, ast.BoolOp):
            rs = [decide(v) for v in t.values]
            if isinstance(t.op, ast.And):
              return False if any(r is False for r in rs) else (None if any(r is None for r in rs) else True)
            return True if any(r is True for r in rs) else (None if any(r is None for r in rs) else False)
          if isinstance(t, ast.Compare) and len(t.ops) == 1 and isinstance(t.ops[0], (ast.Is, ast.IsNot)) and isinstance(
              t.comparators[0], ast.Constant) and t.comparators[0].value is None:
            k = txt(t.left)
            isnone = None
            if k.endswith('num_epochs'):
              isnone = not has_e
            elif k.endswith('num_steps'):
              isnone = not has_s
            if isnone is None:
              return None
            return isnone if isinstance(t.ops[0], ast.Is) else not isnone
          if isinstance(t, (ast.Name, ast.Attribute)) and txt(t).endswith('drop_remainder'):
            return drop
          if isinstance(t, (ast.Name, ast.Attribute)) and txt(t).endswith(('num_steps', 'num_epochs')):
            truthy.add(txt(t))   # `if hparams.num_steps:` - 0 is a value, not "unset"
            return has_s if txt(t).endswith('num_steps') else has_e
          return None
        env, _ = cases.evaluate(fi.node.body, {}, decide)
        got = None if env is cases.UNKNOWN else env.get('self._num_steps')
        g = norm(got) if isinstance(got, ast.AST) else None
        bound = (FLOOR if drop else CEIL)
        wrong_bound = (CEIL if drop else FLOOR)
        if not has_e:
          want = {'S'} if has_s else {'None'}
          key = 'cap'
          bad = FLOOR | CEIL | capped(FLOOR | CEIL)
        elif has_s:
          want = capped(bound)
          key = 'cap'
          bad = bound | wrong_bound | capped(wrong_bound) | {'S'}
        else:
          want = bound
          key = 'bound'
          bad = wrong_bound | capped(bound | wrong_bound) | {'S', 'None'}
        v = True if g in want else (False if g in bad else None)
        if v is None and isinstance(got, ast.AST) and any((isinstance(y, ast.BinOp) and isinstance(y.op, ast.Div)) or (
            isinstance(y, ast.Call) and txt(y.func).split('.')[-1] in ('floor', 'ceil', 'round', 'float', 'log2', 'trunc', 'rint')) for y in ast.walk(got)):
          floaty.add(txt(got)[:70])
        if v is None and isinstance(got, ast.AST):
          # neither a listed form: compare with the definition on a grid of small integers (constant folding of the expression)
          import itertools
          same_all, decided = True, True
          for N_, E_, B_, S_ in itertools.product(range(0, 8), range(1, 4), range(1, 5), range(0, 10)):
            ref = (N_ * E_) // B_ if drop else -(-(N_ * E_) // B_)
            exp = (S_ if has_s else 'None') if not has_e else (min(S_, ref) if has_s else ref)
            val = cases.arith_value(got, {'N': N_, 'E': E_, 'B': B_, 'S': S_}, RENAME)
            if val is None:
              decided = False
              break
            if val != exp:
              same_all = False
              break
          v = None if not decided else same_all
        detail.append(f'epochs={"set" if has_e else "None"},drop={drop},steps={"set" if has_s else "None"}: {g}')
        if v is False:
          verdicts[key] = False
        elif v is None and verdicts[key] is True:
          verdicts[key] = None
  shown = '; '.join(d for d in detail if 'epochs=set' in d and 'steps=None' in d)
  check.ob('R-SIZE.steps', fi, 'drop_remainder: N*epochs // b; else (N*epochs + b - 1) // b', verdicts['bound'],
           f'with num_epochs set: floor division when the remainder is dropped, ceiling division otherwise ({shown})')
  for ftxt in sorted(floaty):
    check.ob('R-SIZE.steps', fi, ftxt, False,
             'the number of batches is computed in floating point (true division, floor / ceil): for some (size, batch_size, epochs) the '
             'rounded result is one batch off the exact integer count', exact=True)
  for tname in sorted(truthy):
    check.ob('R-SIZE.steps', fi, f'if {tname}:', False,
             f'`{tname}` is an optional count tested by truthiness: 0 (train for no steps / no epochs) is taken for "not set"', exact=True)
  check.ob('R-SIZE.steps', fi, 'min(num_steps, epochs bound) / num_steps / None', verdicts['cap'],
           'both limits: the smaller one; only num_steps: exactly that many; neither: unbounded (None)')
  seed = any(isinstance(st, ast.Assign) and txt(st.targets[0]) == 'self._seed' and txt(st.value) == 'hparams.seed' for st in fi.node.body)
  skip = any(isinstance(st, ast.Assign) and txt(st.targets[0]) == 'self._skip_shuffle' and txt(st.value) == 'hparams.skip_shuffle' for st in fi.node.body)
  check.ob('R-SEED', fi, 'self._seed = hparams.seed; self._skip_shuffle = hparams.skip_shuffle', seed and skip,
           'the view uses the configured seed and shuffle switch', nontrivial=False)
