"""C01 - a federated-averaging round equals its mathematical definition."""
from __future__ import annotations

import ast

from fjsa.flow import FuncFlow, txt
from fjsa.report import Check
from fjsa.rules import entries, roundcheck, trainer, wmean
from fjsa.rules.div import DivAnalysis
from fjsa.rules.keys import KeyAnalysis, check_function
from fjsa.rules.pure import PurityAnalysis
from fjsa.props.c10 import classify, entry_of

MOD = 'fedjax.algorithms.fed_avg'


def run(check: Check):
  repo = check.repo
  check.rule('R-WMEAN', 'the value given to the server optimizer is tree_inverse_weight(S, W) with S, W zero-initialised '
             'accumulators updated on every path of the same loop over the for_each_client generator with '
             'tree_add(S, tree_weight(x, w)) and W += w for the same w; x is this client\'s output; '
             'w = len(dataset) looked up under the same client id')
  check.rule('R-DIV', 'tree_inverse_weight divides only under a `weight > 0` guard (zero total weight gives a zero '
             'update, not NaN)')
  check.rule('R-SIB', 'roles in the training triple: start from the server params, optimizer.init on them, '
             'apply(grads, opt_state, params) with results stored back, gradient evaluated at the current params with a '
             'freshly split key, client_final returns server - trained; server update applies the server optimizer '
             'to the mean and builds ServerState in field order')
  check.rule('R-YIELD1', 'one diagnostics entry per yielded client on every path; the returned mapping is fresh')
  check.rule('R-KEY', 'PRNG keys in the step are used linearly')
  check.rule('R-PURE', 'apply/server_update/step functions write through no parameter (shared with C10)')
  check.undecided('numerical equality with the closed-form definition; order/backend independence up to rounding; '
                  'correctness of optax update rules; behaviour of user losses')
  check.assume('for_each_client yields exactly one (id, output) per input client (decided by C02)')
  m = repo.module(MOD)
  algs = entries.find_algorithms(repo, [m])
  triples = entries.find_triples(repo, [m])
  if len(algs) != 1:
    check.error(f'anchor-shape: expected one FederatedAlgorithm in {MOD}, found {len(algs)}')
    return
  alg = algs[0]
  fi = alg.apply
  ff = FuncFlow.of(repo, fi)
  check.analysed(fi)
  clients_param = fi.positional_params[1]
  state_param = fi.positional_params[0]
  invs = roundcheck.inv_calls(ff)
  check.floor('R-WMEAN', 'tree_inverse_weight sites in apply', len(invs), 1)
  roundcheck.check_no_client_filter(check, repo, fi, clients_param)
  # the state that goes into a round is the caller's: no function on the round's path donates its arguments
  from fjsa.props import c10
  from fjsa.props import c17
  c17._ignore_grads(check)
  c10.donation_scope(check, only_files=('fedjax/core/optimizers.py', 'fedjax/algorithms/fed_avg.py', 'fedjax/core/models.py'))
  # every way out of apply goes through the server update: a round that returns the state it was given (e.g. "nothing to average")
  # skips the optimizer step, which a stateful optimizer still has to take
  for _, rv in ff.returns():
    if isinstance(rv, ast.Tuple) and rv.elts and ff.param_of(rv.elts[0]) == state_param:
      check.ob('R-ORDER.update', fi, 'return ' + txt(rv)[:60], False,
               'apply returns the server state it was given: the server optimizer is not applied on this path, so its state (momentum, '
               'Adam moments) is not advanced as the definition of the round requires', node=rv, exact=True)
  for inv in invs:
    lm = roundcheck.check_loop_mean_site(check, repo, fi, inv, triples, 'R-WMEAN', clients_param)
    if lm is None or lm.loop is None:
      continue
    t = roundcheck.check_generator_loop(check, repo, fi, lm.loop, triples, 'R-WMEAN')
    roundcheck.check_diagnostics(check, repo, fi, lm.loop)
    if isinstance(lm.loop.iter, ast.Call):
      gen = lm.loop.iter
      roundcheck.check_client_tuples(check, repo, fi, gen, clients_param, 'R-SIB')
      # shared input of the generator is the round's server params
      if gen.args:
        a0 = gen.args[0]
        ok = any(isinstance(x, ast.Attribute) and x.attr == 'params' and ff.param_of(x.value) == state_param
                 for x in ff.expand(a0))
        check.ob('R-SIB.shared', fi, txt(gen)[:80], ok, 'clients must be trained from the params of the state passed '
                 'into this round', node=gen)
    if t is not None:
      facts = trainer.check_train_triple(check, repo, t, 'R-SIB')
      if facts is not None:
        check.ob('R-SIB.fedavg-row', t.owner, 'trainer roles', facts.start == 'shared' and facts.opt_state_variant == 'updated'
                 and facts.delta.startswith('shared - state['),
                 f'start={facts.start}, optimizer state {facts.opt_state_variant}, delta={facts.delta}')
    roundcheck.check_server_update(check, repo, alg, inv, 'R-SIB')
  # the number of local steps (client batch stream) and the padding-step selection of the parallel backend are part of the
  # round's definition: shared rules with C04 / C02
  from fjsa.props import c02, c04
  check.rule('R-SIZE', 'local step count of the client batch stream (shared with C04)')
  check.rule('R-MASK', 'parallel backend: padded steps / clients never change a real client\'s state or output (shared with C02)')
  c04.run(check, with_flags=False)
  c02._pmap(check)
  c02._backend_runs(check)
  # zero guard of the normaliser (R-DIV) in tree_util
  da = DivAnalysis(repo)
  for q in ('tree_inverse_weight',):
    tf = repo.func('fedjax.core.tree_util', q)
    sites = da.sites(tf)
    check.floor('R-DIV', f'division sites in {q}', len(sites), 1)
    for s in sites:
      ok = s.cls != 'DATA' or s.guard is not None
      check.ob('R-DIV', tf, txt(s.node), ok, f'denominator {txt(s.denom)} is {s.cls}; guard: {s.guard}', node=s.node)
    tff = FuncFlow.of(repo, tf)
    # result is tree_weight(pytree, inverse_weight)
    rets = tff.returns()
    okr = all(rv is not None and isinstance(rv, ast.Call) and wmean.repo_fn(tff, rv) in wmean.WEIGHT for _, rv in rets)
    check.ob('R-DIV.result', tf, 'return tree_weight(pytree, inverse)', okr, 'the guarded reciprocal scales every leaf')
  # keys
  ka = KeyAnalysis(repo)
  for t in triples:
    for f in t.functions():
      check_function(check, ka, f, 'R-KEY')
  check_function(check, ka, fi, 'R-KEY')
  # purity of the round functions
  pa = PurityAnalysis(repo)
  entry_nodes = {id(fi.node)} | {id(f.node) for t in triples for f in t.functions()}
  for f in m.functions():
    bad = [(mu, classify(mu, entry_of(f, entry_nodes))) for mu in pa.mutations(f)]
    bad = [(mu, why) for mu, why in bad if why]
    for mu, why in bad:
      check.ob('R-PURE', f, mu.construct, False, f'{mu.how}: {why}', node=mu.node)
    if not bad and id(f.node) in entry_nodes:
      check.ob('R-PURE', f, f'entry {f.qualname}', True, 'no write through parameters / captured state')
