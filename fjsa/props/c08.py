"""C08 - all FederatedData implementations expose the same mapping (structural part)."""
from __future__ import annotations

import ast
import re
from typing import Dict, List, Optional, Tuple

from fjsa.flow import FuncFlow, call_args, guards_of, same, txt
from fjsa.model import ClassInfo, FuncInfo
from fjsa.report import Check
from fjsa.rules import wmean
from fjsa.rules.pure import PurityAnalysis

FD = 'fedjax.core.federated_data'
IMFD = 'fedjax.core.in_memory_federated_data'
SQL = 'fedjax.core.sqlite_federated_data'
CD = 'fedjax.core.client_datasets'
RANGE_NAMES = {'start': 'start', 'stop': 'stop', 'self._start': 'start', 'self._stop': 'stop'}


def _norm_cmp(c: ast.Compare) -> List[Tuple[str, str, str]]:
  """[(bound kind, op as `id OP bound`, id text)] for chained/simple comparisons against start/stop."""
  out = []
  left = c.left
  for op, right in zip(c.ops, c.comparators):
    lt, rt = txt(left), txt(right)
    opname = type(op).__name__
    flip = {'Lt': 'Gt', 'Gt': 'Lt', 'LtE': 'GtE', 'GtE': 'LtE', 'Eq': 'Eq', 'NotEq': 'NotEq'}
    if rt in RANGE_NAMES and opname in flip:
      out.append((RANGE_NAMES[rt], opname, lt))
    elif lt in RANGE_NAMES and opname in flip:
      out.append((RANGE_NAMES[lt], flip[opname], rt))
    left = right
  return out


def run(check: Check):
  repo = check.repo
  check.rule('R-SIB.exhaustive', 'every concrete FederatedData defines all abstract methods with the interface\'s arity')
  check.rule('R-SIB.range', 'all range tests are half open: id >= start and id < stop (SQL clauses, point-lookup guards, '
             'Subset/InMemory comprehensions); _range_where covers the four None combinations')
  check.rule('R-SQL', 'every SELECT on federated_data in a view method is range-restricted (interpolates _range_where and '
             'binds start/stop) or is a point lookup guarded by the Python range test; iteration queries are ORDER BY rowid')
  check.rule('R-KEYERR', 'point lookups raise KeyError on every path that does not return a client of the view; the subset '
             'wrapper tests membership before delegating')
  check.rule('R-DERIVE', 'slice/preprocess_* return a new object of the same class built from the current fields with only the '
             'intended field changed; SQLite slices go through intersect_slice_ranges; Subset/InMemory filter the current ids; '
             'preprocessor chains are immutable (append builds a new object from tuple _fns + (fn,))')
  check.rule('R-ORDER', '_client_dataset applies the client preprocessor, then attaches the batch preprocessor; iteration '
             'is over sorted ids / ORDER BY rowid; get_clients preserves request order; shuffled passes wrap a full clients() pass')
  check.rule('R-PURE', 'no view method writes through self (outside __init__) or its arguments')
  check.rule('R-EMPTY', 'constructors do not index an id collection without an emptiness guard (an empty view is constructible)')
  check.undecided('equality of content across implementations; shuffled-pass coverage as a permutation (C15); SQLite BLOB '
                  'collation vs Python bytes ordering')
  base = repo.cls(FD, 'FederatedData')
  abstract = {n: f for n, f in base.methods.items() if any('abstractmethod' in txt(d) for d in f.node.decorator_list)}
  check.floor('R-SIB.exhaustive', 'abstract methods', len(abstract), 11)
  impls = [repo.cls(IMFD, 'InMemoryFederatedData'), repo.cls(SQL, 'SQLiteFederatedData'), repo.cls(FD, 'SubsetFederatedData')]
  found = [c for c in repo.subclasses_of(base)]
  for c in found:
    if c not in impls and c.module.name.startswith('fedjax'):
      impls.append(c)
  for ci in impls:
    for name, af in abstract.items():
      mth = ci.methods.get(name)
      if mth is None:
        check.ob('R-SIB.exhaustive', ci, f'{ci.name}.{name}', False, 'abstract method not implemented')
        continue
      check.analysed(mth)
      ok = len(mth.positional_params) == len(af.positional_params)
      check.ob('R-SIB.exhaustive', mth, f'{ci.name}.{name}({", ".join(mth.positional_params)})', ok,
               f'interface has {len(af.positional_params)} positional parameters', nontrivial=False)
  _ranges(check, impls)
  _subset_total(check)
  _none_tests(check, impls)
  _cursors(check)
  _range_where(check)
  _sql(check)
  _keyerror(check)
  _derive(check)
  _intersect(check)
  _slice_filters(check)
  _fetch_loops(check)
  _preprocessors(check)
  _client_dataset(check)
  _order(check, impls)
  _empty(check, impls)
  # purity of view methods
  n = view_purity(check, impls + [repo.cls(FD, 'ClientPreprocessor'), repo.cls(CD, 'BatchPreprocessor')])
  check.floor('R-PURE', 'view methods', n, 35)


def _ranges(check: Check, impls):
  repo = check.repo
  n = 0
  for ci in impls:
    for name in ('slice', 'client_size', 'get_client', 'get_clients', 'client_sizes', 'clients', 'num_clients', 'client_ids'):
      mth = ci.methods.get(name)
      if mth is None:
        continue
      for x in ast.walk(mth.node):
        if isinstance(x, ast.Compare):
          for kind, op, idt in _norm_cmp(x):
            if op in ('Eq', 'NotEq'):
              continue
            n += 1
            want = 'GtE' if kind == 'start' else 'Lt'
            check.ob('R-SIB.range', mth, txt(x), op == want,
                     f'client ids are selected by the half-open range [start, stop): `{idt} '
                     f'{">=" if kind == "start" else "<"} {kind}` expected', node=x)
  check.floor('R-SIB.range', 'python range comparisons', n, 8)


def _none_tests(check: Check, impls):
  """Optional range bounds are tested with `is (not) None`, never by truthiness: b'' is a legal client id / bound."""
  repo = check.repo
  funcs = [repo.func(FD, 'intersect_slice_ranges')]
  for ci in impls:
    for name in ('slice', 'client_size', 'get_client', '_range_where', 'num_clients', 'client_ids', 'client_sizes', '_read_clients'):
      mth = ci.methods.get(name)
      if mth is not None:
        funcs.append(mth)
  n = 0
  for fi in funcs:
    opt = set()
    for p in fi.params:
      ann = fi.param_annotation(p)
      if ann is not None and 'Optional' in txt(ann):
        opt.add(p)
    opt |= {'self._start', 'self._stop'}
    tests = []
    for x in ast.walk(fi.node):
      if isinstance(x, (ast.If, ast.IfExp, ast.While)):
        tests.append(x.test)
      elif isinstance(x, ast.BoolOp):
        tests.extend(x.values)
      elif isinstance(x, ast.UnaryOp) and isinstance(x.op, ast.Not):
        tests.append(x.operand)
      elif isinstance(x, ast.comprehension):
        tests.extend(x.ifs)
    for t in tests:
      if isinstance(t, (ast.Name, ast.Attribute)) and txt(t) in opt:
        n += 1
        check.ob('R-SIB.none-test', fi, f'truth test of {txt(t)}', False,
                 f'`{txt(t)}` is Optional: testing it by truthiness treats the legal bound b\'\' (an empty range) like "no bound" '
                 f'and the view is enlarged; use `is not None`', node=t)
    nn = sum(1 for x in ast.walk(fi.node) if isinstance(x, ast.Compare) and isinstance(x.ops[0], (ast.Is, ast.IsNot)) and txt(x.left) in opt)
    if nn:
      check.ob('R-SIB.none-test', fi, f'{nn} `is None` tests on optional bounds', True, 'bounds are compared with None explicitly',
               nontrivial=False)


def _cursors(check: Check, rule: str = 'R-ORDER.cursor'):
  """Every query of a view gets its own cursor: a cursor stored on the object is iteration state shared by all passes."""
  repo = check.repo
  ci = repo.cls(SQL, 'SQLiteFederatedData')
  shared = set()
  for mth in ci.methods.values():
    for x in ast.walk(mth.node):
      if isinstance(x, ast.Assign) and isinstance(x.targets[0], ast.Attribute) and txt(x.targets[0].value) == 'self' and isinstance(
          x.value, ast.Call) and isinstance(x.value.func, ast.Attribute) and x.value.func.attr in ('cursor', 'execute'):
        shared.add(x.targets[0].attr)
  n_exec = 0
  for name, mth in ci.methods.items():
    for x in ast.walk(mth.node):
      if isinstance(x, ast.Call) and isinstance(x.func, ast.Attribute) and x.func.attr in ('execute', 'executemany', 'fetchone', 'fetchall', 'fetchmany'):
        recv = x.func.value
        if x.func.attr.startswith('execute'):
          n_exec += 1
        if isinstance(recv, ast.Attribute) and txt(recv.value) == 'self' and recv.attr in shared:
          check.ob(rule, mth, txt(x)[:70], False,
                   f'self.{recv.attr} is one cursor shared by every pass over this view: two iterations that are alive at the same '
                   f'time (nested loops, zip, a shuffled pass and a plain pass) steal each other\'s rows', node=x)
  check.ob(rule, ci, f'{n_exec} queries, cursors stored on self: {sorted(shared)}', not shared,
           'every query runs on a fresh cursor (connection.execute), so concurrent passes are independent')
  check.floor(rule, 'queries', n_exec, 6)


def _range_where(check: Check):
  repo = check.repo
  fi = repo.func(SQL, 'SQLiteFederatedData._range_where')
  ff = FuncFlow.of(repo, fi)
  check.analysed(fi)
  arms = {}
  for _, rv in ff.returns():
    if not (isinstance(rv, ast.Constant) and isinstance(rv.value, str)):
      check.inconclusive('R-SIB.range', fi, txt(rv) if rv is not None else 'return', 'WHERE clause is not a string literal')
      continue
    st = ff.module.enclosing_stmt(rv)
    conds = guards_of(ff, st)
    # evaluate which of (start None?, stop None?) combinations reach this return
    for s_none in (True, False):
      for e_none in (True, False):
        if all(_eval_none_test(t, s_none, e_none) == pol for t, pol in conds if _eval_none_test(t, s_none, e_none) is not None) and all(
            _eval_none_test(t, s_none, e_none) is not None for t, pol in conds):
          arms.setdefault((s_none, e_none), []).append(rv.value)
  ok_all = True
  for (s_none, e_none), sqls in sorted(arms.items()):
    sql = sqls[0]
    has_start = bool(re.search(r':start\s*<=\s*client_id|client_id\s*>=\s*:start', sql))
    has_stop = bool(re.search(r'client_id\s*<\s*:stop|:stop\s*>\s*client_id', sql))
    bad_ops = bool(re.search(r':start\s*<\s*client_id|client_id\s*>\s*:start|client_id\s*<=\s*:stop|:stop\s*>=\s*client_id', sql))
    mentions_start, mentions_stop = ':start' in sql, ':stop' in sql
    ok = (has_start == (not s_none)) and (has_stop == (not e_none)) and not bad_ops and mentions_start == (not s_none) and mentions_stop == (not e_none)
    if has_start and has_stop:
      ok = ok and bool(re.search(r'\bAND\b', sql))
    ok_all = ok_all and ok and len(sqls) == 1
    check.ob('R-SIB.range', fi, f'start None={s_none}, stop None={e_none}: {sql!r}', ok and len(sqls) == 1,
             'the clause must restrict by `:start <= client_id` iff start is set and by `client_id < :stop` iff stop is set')
  check.ob('R-SIB.range', fi, '_range_where covers all four None combinations', len(arms) == 4,
           f'{len(arms)} of 4 (start, stop) None-combinations reach a return', nontrivial=True)


def _eval_none_test(t: ast.AST, s_none: bool, e_none: bool) -> Optional[bool]:
  if isinstance(t, ast.BoolOp):
    vals = [_eval_none_test(v, s_none, e_none) for v in t.values]
    if any(v is None for v in vals):
      return None
    return all(vals) if isinstance(t.op, ast.And) else any(vals)
  if isinstance(t, ast.UnaryOp) and isinstance(t.op, ast.Not):
    v = _eval_none_test(t.operand, s_none, e_none)
    return None if v is None else not v
  if isinstance(t, ast.Compare) and len(t.ops) == 1 and isinstance(t.comparators[0], ast.Constant) and t.comparators[0].value is None:
    name = txt(t.left)
    if name not in RANGE_NAMES:
      return None
    is_none = s_none if RANGE_NAMES[name] == 'start' else e_none
    if isinstance(t.ops[0], ast.Is):
      return is_none
    if isinstance(t.ops[0], ast.IsNot):
      return not is_none
  return None


def _sql(check: Check):
  repo = check.repo
  ci = repo.cls(SQL, 'SQLiteFederatedData')
  n_range = n_point = 0
  for name, mth in ci.methods.items():
    ff = FuncFlow.of(repo, mth)
    for _, c in ff.calls():
      if not (isinstance(c.func, ast.Attribute) and c.func.attr == 'execute' and c.args):
        continue
      q = c.args[0]
      sql_text = ''.join(v.value for v in q.values if isinstance(v, ast.Constant)) if isinstance(q, ast.JoinedStr) else (
          q.value if isinstance(q, ast.Constant) else '')
      if 'FROM federated_data' not in sql_text:
        continue
      interp = isinstance(q, ast.JoinedStr) and any(isinstance(v, ast.FormattedValue) and isinstance(v.value, ast.Call) and txt(
          v.value.func) == 'self._range_where' for v in q.values)
      if interp:
        n_range += 1
        binds = c.args[1] if len(c.args) > 1 else None
        b_ok = isinstance(binds, ast.Dict) and {k.value: txt(v) for k, v in zip(binds.keys, binds.values) if isinstance(
            k, ast.Constant)} == {'start': 'self._start', 'stop': 'self._stop'}
        where_ok = bool(re.search(r'WHERE\s*$', sql_text.split('{')[0])) or 'WHERE ' in sql_text
        check.ob('R-SQL', mth, sql_text.strip()[:70], b_ok and where_ok,
                 'a range-restricted query must bind :start/:stop to the view\'s own bounds', node=c)
        if name in ('client_ids', 'client_sizes', '_read_clients', 'clients'):
          ordered = 'ORDER BY rowid' in sql_text
          check.ob('R-SQL.order', mth, sql_text.strip()[:70], ordered,
                   'iteration order must be deterministic: ORDER BY rowid', node=c)
      elif re.search(r'WHERE\s+client_id\s*=\s*\?', sql_text):
        n_point += 1
        g = guards_of(ff, c)
        st = ff.module.enclosing_stmt(c)
        g = guards_of(ff, st)
        guarded = False
        for t, pol in g:
          if pol and _is_range_guard(t, mth.positional_params[1]):
            guarded = True
        arg_ok = len(c.args) > 1 and isinstance(c.args[1], ast.List) and len(c.args[1].elts) == 1 and ff.param_of(
            c.args[1].elts[0]) == mth.positional_params[1]
        check.ob('R-SQL', mth, sql_text.strip()[:70], guarded and arg_ok,
                 'a point lookup must be guarded by (start is None or start <= id) and (stop is None or id < stop) and look up '
                 'exactly the requested id', node=c)
      else:
        check.ob('R-SQL', mth, sql_text.strip()[:70], False,
                 'query on federated_data is neither range-restricted through _range_where() nor a guarded point lookup: it '
                 'can expose clients outside the view', node=c)
  check.floor('R-SQL', 'range-restricted queries', n_range, 4)
  check.floor('R-SQL', 'point lookups', n_point, 2)


def _is_range_guard(t: ast.AST, idname: str) -> bool:
  """(self._start is None or self._start <= id) and (self._stop is None or id < self._stop)"""
  if not (isinstance(t, ast.BoolOp) and isinstance(t.op, ast.And) and len(t.values) == 2):
    return False
  kinds = set()
  for v in t.values:
    if not (isinstance(v, ast.BoolOp) and isinstance(v.op, ast.Or) and len(v.values) == 2):
      return False
    none_t, cmp_t = v.values
    if not (isinstance(none_t, ast.Compare) and isinstance(none_t.ops[0], ast.Is) and isinstance(cmp_t, ast.Compare)):
      return False
    nc = _norm_cmp(cmp_t)
    if len(nc) != 1 or nc[0][2] != idname:
      return False
    kind, op, _ = nc[0]
    if txt(none_t.left) not in RANGE_NAMES or RANGE_NAMES[txt(none_t.left)] != kind:
      return False
    if (kind, op) not in (('start', 'GtE'), ('stop', 'Lt')):
      return False
    kinds.add(kind)
  return kinds == {'start', 'stop'}


def _keyerror(check: Check):
  repo = check.repo
  sq = repo.cls(SQL, 'SQLiteFederatedData')
  for name in ('client_size', 'get_client'):
    mth = sq.method(name)
    ff = FuncFlow.of(repo, mth)
    # every return is inside the range guard and a `result is not None` test; the fall-through raises KeyError
    rets = ff.returns()
    ok_ret = bool(rets)
    for n, rv in rets:
      g = guards_of(ff, n.ast)
      has_range = any(pol and _is_range_guard(t, mth.positional_params[1]) for t, pol in g)
      has_found = any((not pol) and isinstance(t, ast.Compare) and isinstance(t.ops[0], ast.Is) and isinstance(
          t.comparators[0], ast.Constant) and t.comparators[0].value is None for t, pol in g)
      ok_ret = ok_ret and has_range and has_found
    last = mth.node.body[-1]
    raises = isinstance(last, ast.Raise) and last.exc is not None and 'KeyError' in txt(last.exc)
    falls = ff.cfg.exit.id in ff.cfg.reachable_from([ff.cfg.entry], avoid={n.id for n, _ in rets}, labels_excluded=('exc', 'raise', 'reraise'))
    check.ob('R-KEYERR', mth, f'{name}: return only for ids of the view, else raise KeyError', ok_ret and raises and not falls,
             f'returns guarded by the range test and a found row (ok={ok_ret}); fall-through raises KeyError (ok={raises}); '
             f'no path returns None (ok={not falls})')
  sub = repo.cls(FD, 'SubsetFederatedData')
  for name in ('client_size', 'get_client', 'get_clients'):
    mth = sub.method(name)
    ff = FuncFlow.of(repo, mth)
    tests = []
    for n in ff.cfg.nodes:
      if n.kind == 'if':
        t = n.ast.test
        if isinstance(t, ast.Compare) and isinstance(t.ops[0], ast.NotIn) and txt(t.comparators[0]) == 'self._client_ids':
          if any(isinstance(s, ast.Raise) and 'KeyError' in txt(s.exc) for s in n.ast.body):
            tests.append(n)
    ok = False
    why = 'no membership test that raises KeyError'
    if tests:
      tnode = tests[0]
      # dominates every return / yield that hands out a dataset
      outs = [n for n, _ in ff.returns()] + [n for n, _ in ff.yields()]
      ok = bool(outs) and all(ff.cfg.dominates(tnode, o) for o in outs)
      why = f'membership test dominates all {len(outs)} outputs: {ok}'
    check.ob('R-KEYERR', mth, f'{name}: if id not in self._client_ids: raise KeyError', ok,
             f'ids outside the subset must raise KeyError before anything is handed out ({why})')
  # in-memory: lookup through the mapping (raises KeyError by itself)
  im = repo.cls(IMFD, 'InMemoryFederatedData').method('_client_dataset')
  ff = FuncFlow.of(repo, im)
  ok = any(isinstance(x, ast.Subscript) and txt(x.value) == 'self._client_to_data_mapping' and ff.param_of(x.slice) == im.positional_params[1]
           for x in ast.walk(im.node))
  check.ob('R-KEYERR', im, 'self._client_to_data_mapping[client_id]', ok,
           'an unknown id raises KeyError from the mapping lookup (the mapping holds exactly the view\'s clients)')


def _ctor_args(ff: FuncFlow, call: ast.Call, init: FuncInfo) -> Dict[str, ast.AST]:
  return call_args(call, init.positional_params[1:])


def _derive(check: Check):
  repo = check.repo
  # ---- SQLite
  sq = repo.cls(SQL, 'SQLiteFederatedData')
  init = sq.method('__init__')
  field_of_param = {}
  for st in init.node.body:
    if isinstance(st, ast.Assign) and isinstance(st.targets[0], ast.Attribute) and isinstance(st.value, ast.Name):
      field_of_param[st.value.id] = 'self.' + st.targets[0].attr
  for name, changed in (('slice', {'start', 'stop'}), ('preprocess_client', {'preprocess_client'}),
                        ('preprocess_batch', {'preprocess_batch'})):
    mth = sq.method(name)
    ff = FuncFlow.of(repo, mth)
    for _, rv in ff.returns():
      ok = isinstance(rv, ast.Call) and txt(rv.func) == sq.name
      detail = []
      if ok:
        b = _ctor_args(ff, rv, init)
        for p, fld in field_of_param.items():
          a = b.get(p)
          if a is None:
            ok = False
            detail.append(f'{p} missing')
            continue
          if p in changed:
            if name == 'slice':
              good = isinstance(a, ast.Name) and a.id == p and _from_intersect(ff, a, p)
            else:
              good = isinstance(a, ast.Call) and txt(a.func) == f'{fld}.append' and len(a.args) == 1 and ff.param_of(a.args[0]) == mth.positional_params[1]
          else:
            good = txt(a) == fld
          if not good:
            detail.append(f'{p}={txt(a)}')
          ok = ok and good
      check.ob('R-DERIVE', mth, txt(rv)[:100] if rv is not None else 'return', ok,
               f'{name} must rebuild the view from its own fields, changing only {sorted(changed)}' +
               (f' (unexpected: {detail})' if detail else ''), node=rv)
  # ---- InMemory
  im = repo.cls(IMFD, 'InMemoryFederatedData')
  iinit = im.method('__init__')
  for name, changed in (('preprocess_client', 1), ('preprocess_batch', 2)):
    mth = im.method(name)
    ff = FuncFlow.of(repo, mth)
    for _, rv in ff.returns():
      ok = isinstance(rv, ast.Call) and txt(rv.func) == im.name and len(rv.args) == 3
      if ok:
        exp = ['self._client_to_data_mapping', 'self._preprocess_client', 'self._preprocess_batch']
        for i, a in enumerate(rv.args):
          if i == changed:
            ok = ok and isinstance(a, ast.Call) and txt(a.func) == exp[i] + '.append' and ff.param_of(a.args[0]) == mth.positional_params[1]
          else:
            ok = ok and txt(a) == exp[i]
      check.ob('R-DERIVE', mth, txt(rv)[:100] if rv is not None else 'return', ok,
               f'{name} must rebuild the dataset with the same data and only the intended preprocessor extended', node=rv)
  mth = im.method('slice')
  ff = FuncFlow.of(repo, mth)
  for _, rv in ff.returns():
    ok = isinstance(rv, ast.Call) and txt(rv.func) == im.name and len(rv.args) == 3 and txt(rv.args[1]) == 'self._preprocess_client' and txt(
        rv.args[2]) == 'self._preprocess_batch'
    dc = rv.args[0] if ok else None
    ok = ok and isinstance(dc, ast.DictComp) and txt(dc.value) == f'self._client_to_data_mapping[{txt(dc.key)}]' and isinstance(
        dc.generators[0].iter, ast.Name)
    check.ob('R-DERIVE', mth, txt(rv)[:100] if rv is not None else 'return', ok,
             'slice must rebuild the dataset from the selected ids with their own data and the same preprocessors', node=rv)
  # comprehension sources: the current id set
  for ci in (im, repo.cls(FD, 'SubsetFederatedData')):
    mth = ci.method('slice')
    n = 0
    for x in ast.walk(mth.node):
      if isinstance(x, ast.GeneratorExp) or isinstance(x, ast.SetComp):
        g = x.generators[0]
        if g.ifs:
          n += 1
          ok = txt(g.iter) == 'self._client_ids' and txt(x.elt) == txt(g.target)
          check.ob('R-DERIVE', mth, txt(x)[:80], ok, 'a slice selects among the *current* ids of the view (never enlarges it)',
                   node=x)
    check.floor('R-DERIVE', f'{ci.name}.slice comprehensions', n, 3)
  # ---- Subset derivations delegate to base with the same id set, validate=False
  sub = repo.cls(FD, 'SubsetFederatedData')
  for name in ('slice', 'preprocess_client', 'preprocess_batch'):
    mth = sub.method(name)
    ff = FuncFlow.of(repo, mth)
    for _, rv in ff.returns():
      ok = isinstance(rv, ast.Call) and txt(rv.func) == sub.name and len(rv.args) >= 2
      if ok:
        inner = rv.args[0]
        ok = isinstance(inner, ast.Call) and txt(inner.func) == f'self._base.{name}' and [ff.param_of(a) for a in inner.args] == mth.positional_params[1:]
        ids = rv.args[1]
        if name == 'slice':
          srcs = ff.expand(ids)
          ok = ok and bool(srcs) and all(txt(x) == 'self._client_ids' or (isinstance(x, ast.Call) and txt(x.func) == 'set' and x.args and isinstance(
              x.args[0], (ast.GeneratorExp, ast.SetComp, ast.ListComp)) and txt(x.args[0].generators[0].iter) == 'self._client_ids') or (
                  isinstance(x, (ast.SetComp,)) and txt(x.generators[0].iter) == 'self._client_ids') for x in srcs)
        else:
          ok = ok and txt(ids) == 'self._client_ids'
      check.ob('R-DERIVE', mth, txt(rv)[:100] if rv is not None else 'return', ok,
               f'the wrapper must apply {name} to its base with the same arguments and keep (or narrow) its own id set', node=rv)


def _subset_total(check: Check):
  """R-FILTER.total: SubsetFederatedData filters the streams of its base. The base interface promises no iteration order (SQLite
  iterates in insertion order), so a filter loop may never leave early: no break / return inside a loop over self._base.<stream>()."""
  repo = check.repo
  sub = repo.cls(FD, 'SubsetFederatedData')
  n = 0
  for name in ('client_sizes', 'clients', 'shuffled_clients', 'client_ids'):
    try:
      mth = sub.method(name)
    except Exception:
      continue
    if mth is None:
      continue
    check.analysed(mth)
    for lp in ast.walk(mth.node):
      if isinstance(lp, (ast.For, ast.While)) and any(
          isinstance(x, ast.Attribute) and txt(x).startswith('self._base.') for x in ast.walk(lp.iter if isinstance(lp, ast.For) else lp.test)):
        n += 1
        exits = []
        stack = list(lp.body)
        while stack:
          x = stack.pop()
          if isinstance(x, (ast.FunctionDef, ast.Lambda, ast.AsyncFunctionDef)):
            continue
          if isinstance(x, (ast.Break, ast.Return)):
            exits.append(x)
          if isinstance(x, (ast.For, ast.While)):
            # a break inside a nested loop leaves that loop only; a return leaves ours
            stack.extend(y for y in ast.walk(x) if isinstance(y, ast.Return))
            continue
          stack.extend(ast.iter_child_nodes(x))
        check.ob('R-FILTER.total', mth, f'for ... in {txt(lp.iter)[:60] if isinstance(lp, ast.For) else txt(lp.test)[:60]}', not exits,
                 'the filter visits every element of the base stream' if not exits else
                 f'the loop over the base stream is left early ({type(exits[0]).__name__.lower()} at line {exits[0].lineno}): the base '
                 'promises no id order (SQLite iterates in insertion order), so members of the subset that come later are dropped',
                 node=exits[0] if exits else lp, exact=True)
  check.floor('R-FILTER.total', 'filter loops over a base stream in SubsetFederatedData', n, 1)


def _slice_filters(check: Check):
  """The id filter of the Python-side slice() implementations, decided per case of (start given?, stop given?): no filter when both
  are None, `start <= i` / `i < stop` for one bound, their conjunction for two - whatever the branch structure."""
  from fjsa.rules import cases
  from fjsa.flow import lt_form
  repo = check.repo
  for modname, cname in ((FD, 'SubsetFederatedData'), (IMFD, 'InMemoryFederatedData')):
    fi = repo.cls(modname, cname).method('slice')
    ff = FuncFlow.of(repo, fi)
    ps = fi.positional_params
    if len(ps) < 3:
      continue
    p_start, p_stop = ps[1], ps[2]
    verdict = True
    shown = []
    for has_start in (False, True):
      for has_stop in (False, True):
        def decide(t, has_start=has_start, has_stop=has_stop):
          if isinstance(t, ast.BoolOp):
            rs = [decide(v) for v in t.values]
            if isinstance(t.op, ast.And):
              return False if any(r is False for r in rs) else (None if any(r is None for r in rs) else True)
            return True if any(r is True for r in rs) else (None if any(r is None for r in rs) else False)
          if isinstance(t, ast.UnaryOp) and isinstance(t.op, ast.Not):
            r = decide(t.operand)
            return None if r is None else not r
          if isinstance(t, ast.Compare) and len(t.ops) == 1 and isinstance(t.ops[0], (ast.Is, ast.IsNot)) and isinstance(
              t.comparators[0], ast.Constant) and t.comparators[0].value is None and isinstance(t.left, ast.Name):
            given = has_start if t.left.id == p_start else (has_stop if t.left.id == p_stop else None)
            if given is None:
              return None
            return (not given) if isinstance(t.ops[0], ast.Is) else given
          return None
        env, ret = cases.evaluate(fi.node.body, {}, decide)
        got = None
        if env is not cases.UNKNOWN and ret is not None:
          # the id collection is the argument of the constructor call that is not the base / mapping: find comprehension filters in it
          comps = [x for x in ast.walk(ret) if isinstance(x, (ast.GeneratorExp, ast.SetComp, ast.ListComp, ast.DictComp))]
          conds = set()
          junction = 'and'
          for cmp_ in comps:
            for g in cmp_.generators:
              var = txt(g.target)
              for cond in g.ifs:
                parts = cond.values if isinstance(cond, ast.BoolOp) else [cond]
                if isinstance(cond, ast.BoolOp) and isinstance(cond.op, ast.Or):
                  junction = 'or'
                for c_ in parts:
                  if isinstance(c_, ast.Compare) and len(c_.ops) == 2:     # start <= i < stop
                    c1 = ast.Compare(left=c_.left, ops=[c_.ops[0]], comparators=[c_.comparators[0]])
                    c2 = ast.Compare(left=c_.comparators[0], ops=[c_.ops[1]], comparators=[c_.comparators[1]])
                    sub = [c1, c2]
                  else:
                    sub = [c_]
                  for c2_ in sub:
                    f = lt_form(c2_)
                    if f is None:
                      conds.add(('?', txt(c2_)))
                    else:
                      small, strict, big = f
                      conds.add((txt(small), '<' if strict else '<=', txt(big)))
          got = (frozenset(conds), junction)
          want = set()
          if has_start:
            want.add((p_start, '<=', None))
          if has_stop:
            want.add((None, '<', p_stop))
          ok = True
          norm = set()
          for c_ in conds:
            if len(c_) == 3 and c_[0] == p_start and c_[1] == '<=':
              norm.add((p_start, '<=', None))
            elif len(c_) == 3 and c_[2] == p_stop and c_[1] == '<':
              norm.add((None, '<', p_stop))
            else:
              norm.add(c_)
          ok = norm == want and (junction == 'and' or len(conds) < 2)
          shown.append(f'start {"set" if has_start else "None"}, stop {"set" if has_stop else "None"}: {sorted(map(str, conds))} ({junction})')
          if not ok:
            verdict = False
        else:
          if verdict:
            verdict = None
    check.ob('R-SIB.range-py', fi, f'{cname}.slice id filter', verdict,
             'ids are kept iff start <= id (when start is given) and id < stop (when stop is given): ' + '; '.join(shown)[:400])


def _fetch_loops(check: Check):
  """`while True: row = cursor.fetchone(); if row is None: break; yield ...` - the row loops of the SQLite view stop exactly at the end of
  the result set: the break is taken when (and only when) fetchone() returned None, and the row is used on the other arm."""
  repo = check.repo
  ci = repo.cls('fedjax.core.sqlite_federated_data', 'SQLiteFederatedData')
  n = 0
  for name, mth in ci.methods.items():
    ff = FuncFlow.of(repo, mth)
    for d in [d for ds in ff.rd.defs_at.values() for d in ds if isinstance(d.value, ast.Call) and isinstance(d.value.func, ast.Attribute) and
              d.value.func.attr == 'fetchone' and d.index is None]:
      loop = wmean._loop_of(ff, d.node.ast)
      if loop is None:
        continue
      n += 1
      breaks = [x for x in ast.walk(loop) if isinstance(x, ast.Break)]
      ok = None
      if not breaks and isinstance(loop, ast.While) and isinstance(loop.test, ast.Constant) and loop.test.value is True and not any(
          isinstance(x, ast.Return) for x in ast.walk(loop)):
        ok = False   # while True without any way out: the None that ends the result set is used as a row
      for b in breaks:
        gs = [(t, pol) for t, pol in guards_of(ff, b, implied=False) if isinstance(t, ast.Compare) and txt(t.left) == d.name and isinstance(
            t.ops[0], ast.Is) and isinstance(t.comparators[0], ast.Constant) and t.comparators[0].value is None]
        if gs:
          ok = all(pol for _, pol in gs) if ok is None else (ok and all(pol for _, pol in gs))
      check.ob('R-SQL.fetch', mth, f'{d.name} = cursor.fetchone(); if {d.name} is None: break', ok,
               'the loop ends when fetchone() returns None and continues otherwise' if ok else
               'the loop leaves on a row and goes on with None (or the end test was not recognised)', node=d.node.ast)
  return n


def view_purity(check: Check, classes, rule: str = 'R-PURE', only=None) -> int:
  repo = check.repo
  pa = PurityAnalysis(repo)
  n = 0
  for ci in classes:
    for name, mth in ci.methods.items():
      if name in ('__init__', '__del__', '__enter__', '__exit__') or (only is not None and name not in only):
        continue
      n += 1
      bad = [mu for mu in pa.mutations(mth) if mu.root in mth.params or mu.root.startswith('<global')]
      for mu in bad:
        check.ob(rule, mth, mu.construct, False,
                 f'{mu.how}: deriving or reading a view must not change the dataset it was derived from ({mu.root})',
                 node=mu.node, exact=True)
      if not bad:
        check.ob(rule, mth, f'{ci.name}.{name}', True, 'no write through self / arguments', nontrivial=False)
  return n


def _from_intersect(ff: FuncFlow, a: ast.Name, which: str) -> bool:
  ds = ff.defs_for(a)
  for d in ds:
    v = d.value
    if not (isinstance(v, ast.Call) and wmean.repo_fn(ff, v) == f'{FD}:intersect_slice_ranges'):
      return False
    exp = ['self._start', 'self._stop', 'start', 'stop']
    if [txt(x) for x in v.args] != exp:
      return False
    if d.index != ((0,) if which == 'start' else (1,)):
      return False
  return bool(ds)


def _intersect(check: Check):
  repo = check.repo
  fi = repo.func(FD, 'intersect_slice_ranges')
  ff = FuncFlow.of(repo, fi)
  check.analysed(fi)
  cs, ce, ns, ne = fi.positional_params
  # Case table over which of the four bounds are None (the function only ever tests them with `is None`): the result of every
  # case is computed by following the statements with the tests decided by the case. Independent of how the branches are nested.
  want = {
      0: {(False, False): ('builtins.max', frozenset((cs, ns))), (False, True): cs, (True, False): ns, (True, True): None},
      1: {(False, False): ('builtins.min', frozenset((ce, ne))), (False, True): ce, (True, False): ne, (True, True): None},
  }
  verdicts = {'combine': True, 'inherit': True}
  for cur_none in (False, True):
    for new_none in (False, True):
      none = {cs: cur_none, ce: cur_none, ns: new_none, ne: new_none}
      got = _eval_case(ff, fi.node.body, {p_: p_ for p_ in fi.positional_params}, none)
      for k in (0, 1):
        w = want[k][(cur_none, new_none)]
        g = got[k] if isinstance(got, tuple) and len(got) == 2 else _UNKNOWN
        if w is None:
          good = True if (g is None or (isinstance(g, str) and none.get(g))) else (None if g is _UNKNOWN else False)
        else:
          good = True if g == w else (None if g is _UNKNOWN else False)
        key = 'combine' if not (cur_none or new_none) else 'inherit'
        if good is False:
          verdicts[key] = False
        elif good is None and verdicts[key] is True:
          verdicts[key] = None
  check.ob('R-DERIVE.intersect', fi, 'start = max(current, new); stop = min(current, new)', verdicts['combine'],
           'slicing a slice intersects the ranges (never enlarges): later start wins by max, earlier stop by min')
  check.ob('R-DERIVE.intersect', fi, 'a bound that is None leaves the other one in force', verdicts['inherit'],
           'an unspecified new bound keeps the current restriction; an unrestricted current range takes the new bound')


_UNKNOWN = object()


def _eval_case(ff: FuncFlow, body, env, none):
  """Follows `body` with every `<name> is None` test decided by `none` (param -> is it None); values are parameter names, None, or
  (max|min, {params}). Returns the returned tuple of values, or _UNKNOWN when a statement is outside this small language."""
  def val(e):
    if isinstance(e, ast.Constant) and e.value is None:
      return None
    if isinstance(e, ast.Name):
      return env.get(e.id, _UNKNOWN)
    if isinstance(e, ast.Call) and ff.ext(e.func) in ('builtins.max', 'builtins.min') and not e.keywords:
      vs = [val(a) for a in e.args]
      if all(isinstance(v, str) for v in vs):
        return (ff.ext(e.func), frozenset(vs))
      return _UNKNOWN
    if isinstance(e, ast.Tuple):
      return tuple(val(x) for x in e.elts)
    if isinstance(e, ast.IfExp):
      t = test(e.test)
      return _UNKNOWN if t is None else val(e.body if t else e.orelse)
    return _UNKNOWN

  def is_none(v):
    if v is None:
      return True
    if isinstance(v, str):
      return none.get(v)
    if isinstance(v, tuple) and v and v[0] in ('builtins.max', 'builtins.min'):
      return False
    return None

  def test(t):
    if isinstance(t, ast.UnaryOp) and isinstance(t.op, ast.Not):
      r = test(t.operand)
      return None if r is None else not r
    if isinstance(t, ast.BoolOp):
      rs = [test(x) for x in t.values]
      if isinstance(t.op, ast.And):
        return False if any(r is False for r in rs) else (None if any(r is None for r in rs) else True)
      return True if any(r is True for r in rs) else (None if any(r is None for r in rs) else False)
    if isinstance(t, ast.Compare) and len(t.ops) == 1 and isinstance(t.ops[0], (ast.Is, ast.IsNot)) and isinstance(
        t.comparators[0], ast.Constant) and t.comparators[0].value is None:
      r = is_none(val(t.left))
      return None if r is None else (r if isinstance(t.ops[0], ast.Is) else not r)
    return None

  def run(stmts):
    for st in stmts:
      if isinstance(st, ast.Expr) and isinstance(st.value, ast.Constant):
        continue
      if isinstance(st, ast.Pass):
        continue
      if isinstance(st, (ast.Assign, ast.AnnAssign)) and (isinstance(st, ast.AnnAssign) or len(st.targets) == 1):
        tg = st.target if isinstance(st, ast.AnnAssign) else st.targets[0]
        if st.value is None:
          continue
        v = val(st.value)
        if isinstance(tg, ast.Name):
          env[tg.id] = v
        elif isinstance(tg, ast.Tuple) and isinstance(v, tuple) and len(v) == len(tg.elts) and all(isinstance(x, ast.Name) for x in tg.elts):
          for x, y in zip(tg.elts, v):
            env[x.id] = y
        else:
          return _UNKNOWN
        continue
      if isinstance(st, ast.If):
        t = test(st.test)
        if t is None:
          return _UNKNOWN
        r = run(st.body if t else st.orelse)
        if r is not None:
          return r
        continue
      if isinstance(st, ast.Return):
        return val(st.value) if st.value is not None else _UNKNOWN
      return _UNKNOWN
    return None

  env = dict(env)
  r = run(body)
  return _UNKNOWN if r is None else r


def _preprocessors(check: Check):
  repo = check.repo
  for modname, cname in ((FD, 'ClientPreprocessor'), (CD, 'BatchPreprocessor')):
    ci = repo.cls(modname, cname)
    init = ci.method('__init__')
    tup = any(isinstance(st, ast.Assign) and txt(st.targets[0]) == 'self._fns' and isinstance(st.value, ast.Call) and txt(
        st.value.func) == 'tuple' for st in init.node.body)
    ap = ci.method('append')
    ff = FuncFlow.of(repo, ap)
    ok = None
    fnp = ap.positional_params[1]

    def seq_of(e):
      """['self._fns', 'fn'] style description of a concatenation / display, None when it is something else."""
      if isinstance(e, ast.BinOp) and isinstance(e.op, ast.Add):
        l, r = seq_of(e.left), seq_of(e.right)
        return None if l is None or r is None else l + r
      if isinstance(e, (ast.Tuple, ast.List)):
        out = []
        for x in e.elts:
          if isinstance(x, ast.Starred):
            sub = seq_of(x.value)
            if sub is None:
              return None
            out += sub
          elif ff.param_of(x) == fnp:
            out.append('fn')
          else:
            return None
        return out
      if txt(e) == 'self._fns':
        return ['chain']
      if isinstance(e, ast.Call) and txt(e.func) in ('tuple', 'list') and len(e.args) == 1:
        return seq_of(e.args[0])
      return None
    for _, rv in ff.returns():
      for v in (ff.expand(rv) if rv is not None else []):
        if isinstance(v, ast.Call) and txt(v.func) == cname and (len(v.args) == 1 or (not v.args and len(v.keywords) == 1)):
          a = v.args[0] if v.args else v.keywords[0].value
          for w in ff.expand(a):
            sq = seq_of(w)
            if sq is not None:
              ok = sq == ['chain', 'fn']
    in_place = any(isinstance(c.func, ast.Attribute) and c.func.attr in ('append', 'extend', 'insert') and txt(c.func.value) == 'self._fns'
                   for _, c in ff.calls())
    if in_place:
      ok = False
    check.ob('R-DERIVE.chain', ap, f'{cname}(self._fns + (fn,))', (ok and tup) if ok is not None else None,
             f'appending registers fn last and builds a new chain; the stored chain is an immutable tuple (ok={tup})')
    call = ci.method('__call__')
    cff = FuncFlow.of(repo, call)
    loop_ok = copy_ok = False
    for n in cff.cfg.nodes:
      if n.kind == 'for' and txt(n.ast.iter) == 'self._fns':
        loop_ok = True
    for n in cff.cfg.nodes:
      if n.kind == 'for' and txt(n.ast.iter) == 'self._fns':
        for st in n.ast.body:
          if isinstance(st, ast.Assign) and isinstance(st.value, ast.Call) and st.value.args and isinstance(st.value.args[-1], ast.Name):
            it_node = next(x for x in cff.cfg.nodes if x.kind == 'for-iter' and x.ast is n.ast)
            first = cff.rd.reaching(it_node, st.value.args[-1].id)
            copy_ok = bool(first) and all(isinstance(d.value, ast.Call) and cff.ext(d.value.func) == 'builtins.dict' for d in first)
    check.ob('R-ORDER.chain', call, 'for f in self._fns: out = f(out)', loop_ok and copy_ok,
             f'functions run in registration order (ok={loop_ok}) on a copy of the input mapping (ok={copy_ok})')


def _client_dataset(check: Check):
  repo = check.repo
  for modname, cname in ((IMFD, 'InMemoryFederatedData'), (SQL, 'SQLiteFederatedData')):
    mth = repo.cls(modname, cname).method('_client_dataset')
    ff = FuncFlow.of(repo, mth)
    check.analysed(mth)
    ok = False
    for _, rv in ff.returns():
      if isinstance(rv, ast.Call) and wmean.repo_fn(ff, rv) is None and ff.callee(rv).kind == 'class' and ff.callee(rv).cls.name == 'ClientDataset':
        if len(rv.args) == 2 and txt(rv.args[1]) == 'self._preprocess_batch':
          for x in ff.expand(rv.args[0]):
            if isinstance(x, ast.Call) and txt(x.func) == 'self._preprocess_client' and len(x.args) == 2 and ff.param_of(x.args[0]) == mth.positional_params[1]:
              ok = True
    check.ob('R-ORDER.preprocess', mth, 'ClientDataset(self._preprocess_client(id, raw), self._preprocess_batch)', ok,
             'client-level preprocessing runs first on the raw examples of this id; the batch preprocessor is attached to the '
             'resulting ClientDataset')


def federated_impls(repo):
  base = repo.cls(FD, 'FederatedData')
  impls = [repo.cls(IMFD, 'InMemoryFederatedData'), repo.cls(SQL, 'SQLiteFederatedData'), repo.cls(FD, 'SubsetFederatedData')]
  for c in repo.subclasses_of(base):
    if c not in impls and c.module.name.startswith('fedjax'):
      impls.append(c)
  return impls


def shuffled_stream(check: Check, ci, rule: str):
  """shuffled_clients: one RandomState(seed) built unconditionally from the seed parameter, endless full passes."""
  repo = check.repo
  sc = ci.method('shuffled_clients')
  ff = FuncFlow.of(repo, sc)
  check.analysed(sc)
  seedp = sc.positional_params[2] if len(sc.positional_params) > 2 else 'seed'
  rs_calls = [c for _, c in ff.calls() if ff.ext(c.func) == 'numpy.random.RandomState']
  rs = [d for ds in ff.rd.defs_at.values() for d in ds if isinstance(d.value, ast.Call) and ff.ext(d.value.func) == 'numpy.random.RandomState']
  seeded = (len(rs_calls) == 1 and len(rs) == 1 and bool(rs[0].value.args) and ff.param_of(rs[0].value.args[0]) == seedp and
            wmean._loop_of(ff, rs[0].node.ast) is None and not guards_of(ff, rs[0].node.ast, implied=False))
  # the seed parameter is not rewritten or tested for truthiness (seed 0 is a seed)
  seed_tests = [n for n in ff.cfg.nodes if n.kind in ('if', 'while') and any(isinstance(x, ast.Name) and x.id == seedp for x in ast.walk(n.ast.test))]
  seed_tests += [x for x in ast.walk(sc.node) if isinstance(x, (ast.IfExp, ast.BoolOp)) and any(
      isinstance(y, ast.Name) and y.id == seedp for y in ast.walk(x.test if isinstance(x, ast.IfExp) else x))]
  full = False
  for _, c in ff.calls():
    if wmean.repo_fn(ff, c) == f'{CD}:buffered_shuffle' and c.args:
      src = c.args[0]
      full = isinstance(src, ast.Call) and txt(src.func) in ('self.clients', 'self._read_clients') and not src.args
  check.ob(rule, sc, f'{ci.name}.shuffled_clients', bool(seeded) and full and not seed_tests,
           f'one RandomState(seed) for the whole stream, built from the seed argument whatever its value (ok={bool(seeded)}, '
           f'seed tested/defaulted: {len(seed_tests)}); every pass shuffles a complete pass over the view (ok={full})')


def _order(check: Check, impls):
  repo = check.repo
  for ci in impls:
    # get_clients keeps the request order
    gc = ci.method('get_clients')
    ff = FuncFlow.of(repo, gc)
    p = gc.positional_params[1]
    loops = [n.ast for n in ff.cfg.nodes if n.kind == 'for']
    ok = False
    for lp in loops:
      if ff.param_of(lp.iter) == p:
        ok = True
      elif isinstance(lp.iter, ast.Call) and txt(lp.iter.func) == 'self._base.get_clients' and [ff.param_of(a) for a in lp.iter.args] == [p]:
        ok = True
    ys = [y for _, y in ff.yields()]
    ok = ok and len(ys) >= 1
    check.ob('R-ORDER.get-clients', gc, f'{ci.name}.get_clients', ok, 'clients are produced by one pass over the requested ids, in request order')
    shuffled_stream(check, ci, 'R-ORDER.shuffled')
  sorted_ids_rule(check, 'R-ORDER.sorted')
  subset_ids_are_a_set(check, 'R-DERIVE.set')


def subset_ids_are_a_set(check: Check, rule: str):
  """SubsetFederatedData keeps its ids in a set on every path (duplicates in the given ids collapse, membership tests are exact)."""
  repo = check.repo
  init = repo.cls(FD, 'SubsetFederatedData').method('__init__')
  ff = FuncFlow.of(repo, init)
  check.analysed(init)
  p_ids = init.positional_params[2]
  stores = [nd.ast for nd in ff.cfg.nodes if nd.kind == 'stmt' and isinstance(nd.ast, ast.Assign) and txt(nd.ast.targets[0]) == 'self._client_ids']
  ok = bool(stores)
  why = []
  for st in stores:
    v = st.value
    if isinstance(v, ast.Call) and ff.ext(v.func) in ('builtins.set', 'builtins.frozenset'):
      continue
    if isinstance(v, ast.Name):
      for d in ff.defs_for(v):
        if d.kind == 'param':
          # the parameter itself may reach the store only when it already is a set: an unconditional
          # `if not isinstance(ids, set): ids = set(ids)` before it
          def only_isinstance(t):
            while isinstance(t, ast.UnaryOp) and isinstance(t.op, ast.Not):
              t = t.operand
            return isinstance(t, ast.Call) and ff.ext(t.func) == 'builtins.isinstance' and t.args and isinstance(t.args[0], ast.Name) and t.args[0].id == p_ids
          conv = [nd.ast for nd in ff.cfg.nodes if nd.kind == 'if' and only_isinstance(nd.ast.test)]
          uncond = [c for c in conv if not guards_of(ff, c, implied=False) and wmean._loop_of(ff, c) is None]
          if not uncond:
            ok = False
            why.append('the conversion to a set is missing or conditional')
        elif not (isinstance(d.value, ast.Call) and ff.ext(d.value.func) in ('builtins.set', 'builtins.frozenset')):
          ok = False
          why.append(f'{txt(d.value)[:40]} is not a set')
    else:
      ok = False
      why.append(f'{txt(v)[:40]} is not a set')
  check.ob(rule, init, 'self._client_ids is a set on every path', ok,
           'the ids of a subset view are a set whatever the options (e.g. validate=False): a list with duplicates would list a client twice and '
           'a sampler could return it twice in one round' + (': ' + '; '.join(why) if why else ''))


def sorted_ids_rule(check: Check, rule: str):
  repo = check.repo
  # deterministic order of id iteration for the dict/set backed implementations
  for modname, cname in ((IMFD, 'InMemoryFederatedData'), (FD, 'SubsetFederatedData')):
    ci = repo.cls(modname, cname)
    mth = ci.method('client_ids')
    ff = FuncFlow.of(repo, mth)
    ok = any(isinstance(x, ast.Call) and ff.ext(x.func) == 'builtins.sorted' for _, rv in ff.returns() for x in ast.walk(rv))
    check.ob(rule, mth, f'{cname}.client_ids', ok, 'ids are iterated in sorted order (deterministic)')
    cl = ci.method('clients')
    cff = FuncFlow.of(repo, cl)
    srcs = [c.args[0] for _, c in cff.calls() if txt(c.func) == 'self.get_clients' and c.args]
    ok2 = False
    for s in srcs:
      if isinstance(s, ast.Call) and cff.ext(s.func) == 'builtins.sorted':
        ok2 = True
      elif txt(s) == 'self._client_ids':
        # sorted at construction
        init = ci.method('__init__')
        ok2 = any(isinstance(st, ast.Assign) and txt(st.targets[0]) == 'self._client_ids' and isinstance(st.value, ast.Call) and txt(
            st.value.func) == 'sorted' for st in ast.walk(init.node))
    check.ob(rule, cl, f'{cname}.clients', ok2, 'clients() iterates the sorted ids')


def _empty(check: Check, impls):
  repo = check.repo
  n = 0
  for ci in impls:
    init = ci.methods.get('__init__')
    if init is None:
      continue
    ff = FuncFlow.of(repo, init)
    check.analysed(init)
    for x in ast.walk(init.node):
      hit = None
      if isinstance(x, ast.Subscript) and isinstance(x.slice, ast.Constant) and x.slice.value in (0, -1) and 'ids' in txt(x.value):
        hit = x
      if isinstance(x, ast.Call) and txt(x.func) == 'next' and x.args and 'ids' in txt(x.args[0]) and len(x.args) == 1:
        hit = x
      if hit is None:
        continue
      n += 1
      coll = hit.value if isinstance(hit, ast.Subscript) else hit.args[0]
      guarded = False
      for t, pol in guards_of(ff, hit):
        names = txt(t)
        if txt(coll) in names and pol:
          guarded = True
        if f'not {txt(coll)}' in names and not pol:
          guarded = True
      check.ob('R-EMPTY', init, txt(hit), guarded,
               f'{txt(hit)} on a possibly empty id collection: constructing an empty view (e.g. an empty slice) raises '
               f'IndexError instead of yielding an empty dataset' if not guarded else 'guarded by an emptiness test', node=hit)
  check.floor('R-EMPTY', 'first-element accesses in constructors', n, 1)
