"""C14 - every built-in metric equals its definition on its whole domain (structural part)."""
from __future__ import annotations

import ast
from typing import Dict, List, Optional, Tuple

from fjsa.flow import FuncFlow, call_args, guards_of, same, txt
from fjsa.model import ClassInfo, FuncInfo
from fjsa.report import Check
from fjsa.rules import metricsrules as mr
from fjsa.rules import wmean

MOD = mr.MOD
ARGSORT = {'jax.numpy.argsort', 'numpy.argsort'}
ARGMAX = {'jax.numpy.argmax', 'numpy.argmax'}


def run(check: Check):
  repo = check.repo
  check.rule('R-SLICE', 'a slice bound taken from a user-supplied int field (k) is clamped at 0: a negative k must not '
             'mean "all but the last |k|"')
  check.rule('R-FOLD', 'membership of a target in a tuple of values is a disjunction: a fold `acc *= (t == v)` from ones is '
             'a conjunction of equalities with different constants (always false for more than one value)')
  check.rule('R-PAIR', 'sequence metrics weight numerator and denominator with the same '
             'get_target_weight(target, self.masked_target_values) of the same target')
  check.rule('R-TYPE', 'zero() and evaluate_example() of a metric build the same Stat class; zero() has all-zero arguments')
  check.rule('R-ORDER', 'a logits mask is added to the predictions before argmax/argsort; top-k ranks by argsort of the '
             'negated scores (ties toward the lowest index); the confusion matrix sets exactly cell [target, predicted]')
  check.rule('R-XENT', 'cross entropy is -sum(one_hot(target) * log_softmax(pred), axis=-1): the log-probabilities come from '
             'log_softmax (never log(softmax(.)), which overflows to -inf/NaN for finite logits that are far apart), sparse targets are '
             'one-hot encoded over the class axis, the reduction is over the class axis only')
  _xent(check)
  _truncation(check)
  check.undecided('agreement of every metric with an independent reference implementation on all inputs (values)')
  metrics = mr.metric_classes(repo)
  stats = [c.name for c in mr.stat_classes(repo)]
  check.floor('R-TYPE', 'metric classes', len(metrics), 14)
  n_slice = n_fold = n_pair = 0
  for ci in metrics:
    ev = ci.methods.get('evaluate_example')
    zero = ci.methods.get('zero')
    if ev is None or zero is None:
      check.ob('R-TYPE', ci, f'class {ci.name}', False, 'metric lacks zero() or evaluate_example()')
      continue
    check.analysed(ev)
    check.analysed(zero)
    ff = FuncFlow.of(repo, ev)
    zf = FuncFlow.of(repo, zero)
    fields = {f: a for f, a, _ in ci.fields}
    # ---- type agreement
    zc = [n for n, _ in mr.return_stat_classes(repo, zero, stats)]
    ec = [n for n, _ in mr.return_stat_classes(repo, ev, stats)]
    if ci.name == 'PerDomainMetric':
      _per_domain(check, ci, ev, zero)
    else:
      ok = bool(zc) and bool(ec) and None not in zc and None not in ec and len(set(zc + ec)) == 1
      check.ob('R-TYPE', ci, f'{ci.name}: zero -> {sorted(set(map(str, zc)))}, evaluate_example -> {sorted(set(map(str, ec)))}', ok,
               'zero() and every return of evaluate_example() must build the same Stat class through its new() factory')
      for _, rv in zf.returns():
        if isinstance(rv, ast.Call):
          zok = all(mr.is_zero_literal(zf, a) for a in rv.args) and bool(rv.args)
          check.ob('R-TYPE.zero', zero, txt(rv), zok, 'the identity statistic has all-zero arguments', nontrivial=False)
    # ---- R-SLICE
    for n in ff.cfg.nodes:
      if n.ast is None:
        continue
      for x in n.walk():
        if isinstance(x, ast.Subscript):
          for sl in _slices(x.slice):
            for bound, which in ((sl.upper, 'upper'), (sl.lower, 'lower')):
              if bound is None:
                continue
              fld = _self_field(bound)
              if fld is None or fld not in fields or txt(fields[fld]) != 'int':
                if fld is None:
                  inner = _clamped_field(bound)
                  if inner and inner in fields:
                    n_slice += 1
                    check.ob('R-SLICE', ev, txt(x)[:70], True, f'bound {txt(bound)} clamps self.{inner} at 0', node=x)
                continue
              n_slice += 1
              check.ob('R-SLICE', ev, txt(x)[:70], False,
                       f'slice bound self.{fld} is a user-supplied int used unclamped: a negative value silently selects '
                       f'"all but the last |{fld}|" (documented: {fld} < 1 yields 0)', node=x)
    # ---- R-FOLD
    for n in ff.cfg.nodes:
      if n.kind == 'stmt' and isinstance(n.ast, ast.AugAssign) and isinstance(n.ast.op, ast.Mult) and isinstance(n.ast.target, ast.Name):
        v = n.ast.value
        if isinstance(v, ast.Compare) and len(v.ops) == 1 and isinstance(v.ops[0], ast.Eq):
          loop = wmean._loop_of(ff, n.ast)
          if isinstance(loop, ast.For) and _self_field(loop.iter) in fields:
            n_fold += 1
            check.ob('R-FOLD', ev, txt(n.ast), False,
                     f'`{txt(n.ast)}` over self.{_self_field(loop.iter)} starting from ones is the conjunction '
                     f'(target == v1) and (target == v2) ...: unsatisfiable for two or more values, so the rate is always 0',
                     node=n.ast)
    for n in ff.cfg.nodes:
      if n.kind == 'for-iter' and _self_field(n.ast.iter) == 'oov_target_values':
        body_ok = _membership_or(ff, n.ast)
        if body_ok is not None:
          n_fold += 1
          if body_ok:
            check.ob('R-FOLD', ev, f'for v in self.oov_target_values', True,
                     'membership accumulated as a disjunction (maximum / logical_or / sum) starting from zeros', node=n.ast)
    # vectorised membership: any/all over a broadcast comparison with an array built from self.<values>
    for _, c in ff.calls():
      red = (ff.ext(c.func) or '').split('.')[-1]
      if red not in ('any', 'all') or not c.args:
        continue
      cmpx = next((x for x in ff.deep_walk(c.args[0]) if isinstance(x, ast.Compare) and len(x.ops) == 1 and isinstance(x.ops[0], (ast.Eq, ast.NotEq))), None)
      if cmpx is None:
        continue
      fld = next((_self_field(y) for s_ in (cmpx.left, cmpx.comparators[0]) for y in ff.deep_walk(s_) if _self_field(y) in ('oov_target_values',)), None)
      if fld is None:
        continue
      n_fold += 1
      is_or = (red == 'any' and isinstance(cmpx.ops[0], ast.Eq))
      check.ob('R-FOLD', ev, txt(c)[:70], is_or,
               f'membership in self.{fld} is a disjunction: any(target == values). `{red}` over `{txt(cmpx.ops[0].__class__.__name__)}` requires the '
               'target to equal every value at once (never true for two or more values) or counts everything for an empty tuple', node=c)
    # ---- R-PAIR target weights
    tw_calls = [c for _, c in ff.calls() if wmean.repo_fn(ff, c) == f'{MOD}:get_target_weight']
    if tw_calls:
      n_pair += 1
      _target_weight_pairing(check, ci, ev, ff, tw_calls)
    # ---- logits mask before argmax / argsort
    if 'logits_mask' in fields:
      _logits_mask_order(check, ev, ff)
    # ---- top-k ranking
    for _, c in ff.calls():
      if ff.ext(c.func) in ARGSORT and c.args:
        neg = isinstance(c.args[0], ast.UnaryOp) and isinstance(c.args[0].op, ast.USub)
        check.ob('R-ORDER.rank', ev, txt(c)[:60], neg,
                 'top-k must rank by descending score: argsort of the negated scores (stable: ties toward the lowest index)',
                 node=c)
  check.floor('R-SLICE', 'k-bounded slices', n_slice, 2)
  check.floor('R-FOLD', 'membership folds', n_fold, 1)
  check.floor('R-PAIR', 'sequence metrics using get_target_weight', n_pair, 8)
  from fjsa.props import c05
  c05.static_metric_fields(check)
  for ci_ in mr.stat_classes(repo):
    c05._stat_algebra(check, ci_, [c.name for c in mr.stat_classes(repo)])
  _get_target_weight(check)
  _accuracy(check)
  _confusion(check)


def _is_target(ff: FuncFlow, e: ast.AST) -> bool:
  """e is (a copy of) example[self.target_key]."""
  for x in ff.expand(e):
    if isinstance(x, ast.Subscript) and _self_field(x.slice) == 'target_key' and ff.param_of(x.value) is not None:
      continue
    return False
  return True


def _refs_logits_mask(ff: FuncFlow, e: ast.AST) -> bool:
  for x in ff.deep_walk(e):
    if _self_field(x) == 'logits_mask':
      return True
  return False


def _slices(s: ast.AST) -> List[ast.Slice]:
  if isinstance(s, ast.Slice):
    return [s]
  if isinstance(s, ast.Tuple):
    return [e for e in s.elts if isinstance(e, ast.Slice)]
  return []


def _self_field(e: ast.AST) -> Optional[str]:
  if isinstance(e, ast.Attribute) and isinstance(e.value, ast.Name) and e.value.id == 'self':
    return e.attr
  return None


def _clamped_field(e: ast.AST) -> Optional[str]:
  """max(self.k, 0) / jnp.maximum(self.k, 0) -> 'k'."""
  if isinstance(e, ast.Call) and len(e.args) == 2:
    fn = txt(e.func)
    if fn in ('max', 'jnp.maximum', 'np.maximum'):
      flds = [_self_field(a) for a in e.args]
      zeros = [a for a in e.args if isinstance(a, ast.Constant) and a.value == 0]
      if zeros and any(flds):
        return next(f for f in flds if f)
  return None


def _membership_or(ff: FuncFlow, loop: ast.For) -> Optional[bool]:
  for st in loop.body:
    if isinstance(st, ast.Assign) and isinstance(st.value, ast.Call) and len(st.value.args) == 2:
      p = ff.ext(st.value.func)
      if p in ('jax.numpy.maximum', 'jax.numpy.logical_or', 'jax.numpy.bitwise_or'):
        if any(isinstance(a, ast.Compare) and isinstance(a.ops[0], ast.Eq) for a in st.value.args):
          acc = st.targets[0]
          init_ok = True
          if isinstance(acc, ast.Name):
            for d in [d for ds in ff.rd.defs_at.values() for d in ds if d.name == acc.id and wmean._loop_of(ff, d.node.ast) is None]:
              v = d.value
              init_ok = isinstance(v, ast.Call) and ff.ext(v.func) in ('jax.numpy.zeros_like', 'jax.numpy.zeros')
          return init_ok
    if isinstance(st, ast.AugAssign) and isinstance(st.op, (ast.Add, ast.BitOr)) and isinstance(st.value, ast.Compare) and isinstance(
        st.value.ops[0], ast.Eq):
      return True
  return None


def _target_weight_pairing(check: Check, ci: ClassInfo, ev: FuncInfo, ff: FuncFlow, tw_calls):
  repo = check.repo
  # target_weight variable(s)
  tw_names = set()
  for c in tw_calls:
    st = ff.module.enclosing_stmt(c)
    if isinstance(st, ast.Assign) and isinstance(st.targets[0], ast.Name):
      tw_names.add(st.targets[0].id)
    b = call_args(c, ['target', 'masked_target_values'])
    ok_args = _self_field(b.get('masked_target_values')) == 'masked_target_values'
    tgt = b.get('target')
    ok_tgt = False
    if tgt is not None:
      for x in ff.expand(tgt):
        if isinstance(x, ast.Subscript) and ff.param_of(x.value) == ev.positional_params[1] and _self_field(x.slice) == 'target_key':
          ok_tgt = True
    check.ob('R-PAIR.target-weight', ev, txt(c), ok_args and ok_tgt,
             'weights come from get_target_weight(example[self.target_key], self.masked_target_values)', node=c)
  if len(tw_names) > 1 or len(tw_calls) != 1:
    return
  # the weights are either the one variable bound to the call or (when used once) the call itself
  tw_label = next(iter(tw_names)) if tw_names else 'get_target_weight(...)'
  def tw(n):
    return (isinstance(n, ast.Name) and n.id in tw_names) or n is tw_calls[0]
  for _, rv in ff.returns():
    for x in ff.expand(rv):
      if not (isinstance(x, ast.Call) and isinstance(x.func, ast.Attribute) and x.func.attr == 'new'):
        continue
      cls = txt(x.func.value)
      uses = [[n for n in ff.deep_walk(a) if tw(n)] for a in x.args]
      if cls == 'MeanStat' and len(x.args) == 2:
        den_ok = _reduces_to(ff, x.args[1], tw)
        ok = den_ok and (bool(uses[0]) or ci.name in ('SequenceLength',))
        # numerator must *multiply* by the weight (or be a reduction of it)
        num_ok = _weighted(ff, x.args[0], tw) or (ci.name in ('SequenceLength', 'SequenceTruncationRate') and (
            ci.name != 'SequenceLength' or _reduces_to(ff, x.args[0], tw)))
        check.ob('R-PAIR.num-den', ev, txt(x)[:90], ok and num_ok,
                 f'numerator and denominator of the mean must both be built from the same `{tw_label}` '
                 f'(numerator weighted: {num_ok}; denominator is a reduction of it: {den_ok})', node=x)
      elif cls == 'SumStat' and len(x.args) == 1:
        check.ob('R-PAIR.num-den', ev, txt(x)[:90], bool(uses[0]), f'the count must be built from `{tw_label}`', node=x)


def _reduces_to(ff: FuncFlow, e: ast.AST, tw) -> bool:
  """e is tw, or sum/any (nested) of tw: a count derived from the weights only."""
  start = [e] if not (isinstance(e, ast.Name) and not tw(e)) else ff.expand(e)
  for x in start:
    cur = x
    for _ in range(4):
      if isinstance(cur, ast.Name) or tw(cur):
        break
      if isinstance(cur, ast.Call) and ff.ext(cur.func) in ('jax.numpy.sum', 'jax.numpy.any', 'jax.numpy.count_nonzero') and cur.args:
        cur = cur.args[0]
        continue
      if isinstance(cur, ast.Call) and isinstance(cur.func, ast.Attribute) and cur.func.attr == 'astype':
        cur = cur.func.value
        continue
      return False
    if not tw(cur):
      return False
  return True


def _weighted(ff: FuncFlow, e: ast.AST, tw) -> bool:
  for n in ff.deep_walk(e):
    if isinstance(n, ast.BinOp) and isinstance(n.op, ast.Mult):
      if any(tw(s) for s in (n.left, n.right)):
        return True
  return False


def _logits_mask_order(check: Check, ev: FuncInfo, ff: FuncFlow):
  aug = None
  for n in ff.cfg.nodes:
    if n.kind == 'stmt' and isinstance(n.ast, (ast.AugAssign, ast.Assign)):
      a = n.ast
      is_add = isinstance(a, ast.AugAssign) and isinstance(a.op, ast.Add) or (isinstance(a, ast.Assign) and isinstance(
          a.value, ast.BinOp) and isinstance(a.value.op, ast.Add))
      if not is_add:
        continue
      operand = a.value if isinstance(a, ast.AugAssign) else a.value
      if _refs_logits_mask(ff, operand):
        tamper = [y for y in ff.deep_walk(operand) if isinstance(y, ast.Call) and (ff.ext(y.func) or '').split('.')[-1] in (
            'nan_to_num', 'clip', 'maximum', 'minimum', 'where', 'tanh')]
        if tamper:
          check.ob('R-ORDER.logits-mask', ev, txt(tamper[0])[:60], False,
                   'the configured logits mask is altered before it is added (-inf made finite): a masked class with a large enough '
                   'logit is ranked again', node=tamper[0], exact=True)
        tgt = a.target if isinstance(a, ast.AugAssign) else a.targets[0]
        if isinstance(tgt, ast.Name):
          aug = (n, tgt.id)
  if aug is None:
    check.ob('R-ORDER.logits-mask', ev, 'pred += logits_mask', False, 'the configured logits mask is never added to the predictions')
    return
  node, pname = aug
  guarded = any(isinstance(t, ast.Compare) and isinstance(t.ops[0], ast.Is) and _self_field(t.left) == 'logits_mask' and not pol
                for t, pol in guards_of(ff, node.ast))
  n_rank = 0
  for _, c in ff.calls():
    if ff.ext(c.func) in ARGMAX | ARGSORT and c.args:
      names = [x for x in ast.walk(c.args[0]) if isinstance(x, ast.Name) and x.id == pname]
      if not names:
        continue
      n_rank += 1
      ds = ff.defs_for(names[0])
      ok = any(d.node is node for d in ds)
      check.ob('R-ORDER.logits-mask', ev, txt(c)[:60], ok and guarded,
               'on the masked configuration the scores ranked must be the ones the logits mask was added to', node=c)
  if n_rank == 0:
    check.inconclusive('R-ORDER.logits-mask', ev, 'argmax/argsort', 'ranking call not found')


def _per_domain(check: Check, ci: ClassInfo, ev: FuncInfo, zero: FuncInfo):
  repo = check.repo
  zf, ef = FuncFlow.of(repo, zero), FuncFlow.of(repo, ev)
  def base_calls(ff, meth):
    return [c for _, c in ff.calls() if isinstance(c.func, ast.Attribute) and c.func.attr == meth and
            isinstance(c.func.value, ast.Attribute) and _self_field(c.func.value) == 'base']
  zok = len(base_calls(zf, 'zero')) >= 1
  eok = len(base_calls(ef, 'evaluate_example')) == 1 and len(base_calls(ef, 'zero')) >= 1
  check.ob('R-TYPE', ci, 'PerDomainMetric delegates to base', zok and eok,
           f'zero() broadcasts base.zero() (ok={zok}); evaluate_example() selects between base.evaluate_example() and '
           f'base.zero() per domain (ok={eok})')
  # the domain mask is a one-hot of the example's own domain id with num_domains columns
  ok = False
  for _, c in ef.calls():
    if ef.ext(c.func) == 'jax.nn.one_hot' and len(c.args) >= 2:
      a0 = c.args[0]
      ok = isinstance(a0, ast.Subscript) and _self_field(a0.slice) == 'domain_id_key' and _self_field(c.args[1]) == 'num_domains'
  check.ob('R-ORDER.domain', ev, 'one_hot(example[self.domain_id_key], self.num_domains)', ok,
           'the statistic is routed to exactly the slot of the example\'s own domain')


def _get_target_weight(check: Check):
  repo = check.repo
  fi = repo.func(MOD, 'get_target_weight')
  ff = FuncFlow.of(repo, fi)
  check.analysed(fi)
  ok = False
  acc_name = None
  for n in ff.cfg.nodes:
    if n.kind == 'stmt' and isinstance(n.ast, ast.AugAssign) and isinstance(n.ast.op, ast.Mult) and isinstance(n.ast.target, ast.Name):
      v = n.ast.value
      loop = wmean._loop_of(ff, n.ast)
      if isinstance(v, ast.Compare) and isinstance(v.ops[0], ast.NotEq) and isinstance(loop, ast.For) and ff.param_of(
          loop.iter) == fi.positional_params[1] and ff.param_of(v.left) == fi.positional_params[0] and isinstance(
              loop.target, ast.Name) and txt(v.comparators[0]) == loop.target.id:
        ok = True
        acc_name = n.ast.target.id
  init_ok = acc_name is not None and any(d.kind == 'assign' and isinstance(d.value, ast.Call) and ff.ext(d.value.func) == 'jax.numpy.ones_like'
                                         for ds in ff.rd.defs_at.values() for d in ds if d.name == acc_name)
  ret_ok = any(isinstance(rv, ast.Name) and rv.id == acc_name for _, rv in ff.returns())
  ok = ok and ret_ok
  check.ob('R-FOLD.mask', fi, 'weight *= target != masked_value', ok and init_ok,
           'a position is unmasked iff it differs from every masked value: conjunction of inequalities starting from ones')


def _truncation(check: Check):
  """A sequence is truncated iff no position holds the end-of-sequence id: a reduction over every position of the comparison with
  self.eos_target_value, not a look at one position."""
  repo = check.repo
  ci = repo.cls(MOD, 'SequenceTruncationRate')
  ev = ci.method('evaluate_example')
  ff = FuncFlow.of(repo, ev)
  check.analysed(ev)
  cmps = [x for nd in ff.cfg.nodes if nd.ast is not None for x in nd.walk() if isinstance(x, ast.Compare) and len(x.ops) == 1 and any(
      _self_field(s) == 'eos_target_value' for s in (x.left, x.comparators[0]))]
  seen = set()
  cmps = [c for c in cmps if not (id(c) in seen or seen.add(id(c)))]
  if not cmps:
    check.undecided('SequenceTruncationRate: no comparison with eos_target_value found; truncation test not judged')
    return
  for c in cmps:
    other = c.comparators[0] if _self_field(c.left) == 'eos_target_value' else c.left
    whole = _is_target(ff, other)
    parent = ff.module.parent_of.get(c)
    # all(target != eos)  or  not any(target == eos) / ~any(...)
    red = None
    if isinstance(parent, ast.Call) and c in parent.args:
      red = (ff.ext(parent.func) or '').split('.')[-1]
    ok = whole and ((red == 'all' and isinstance(c.ops[0], ast.NotEq)) or (red == 'any' and isinstance(c.ops[0], ast.Eq)))
    check.ob('R-FOLD.truncated', ev, txt(parent if isinstance(parent, ast.Call) else c)[:70], ok,
             'truncated iff *no* position of the target equals the end-of-sequence id (all(target != eos)); testing a single position '
             '(e.g. the last unmasked token) assumes that masked ids only occur as trailing padding', node=c)


def _xent(check: Check):
  repo = check.repo
  fi = repo.func(MOD, 'unreduced_cross_entropy_loss')
  ff = FuncFlow.of(repo, fi)
  check.analysed(fi)
  p_t, p_p = fi.positional_params[:2]
  SOFTMAX = {'jax.nn.softmax', 'jax.scipy.special.softmax'}
  LOGS = {'jax.numpy.log', 'numpy.log', 'jax.numpy.log2', 'jax.numpy.log10'}
  for _, c in ff.calls():
    if ff.ext(c.func) in LOGS and c.args:
      unstable = any(isinstance(v, ast.Call) and ff.ext(v.func) in SOFTMAX for a in c.args[:1] for v in ff.deep_walk(a))
      check.ob('R-XENT.stable', fi, txt(c)[:70], not unstable,
               'log(softmax(x)) underflows to log(0) = -inf (and 0 * -inf = NaN) as soon as two finite logits differ by ~90 or more; '
               'log_softmax subtracts the maximum first', node=c)
  ls = [c for _, c in ff.calls() if ff.ext(c.func) in ('jax.nn.log_softmax', 'jax.scipy.special.log_softmax')]
  ok_ls = len(ls) == 1 and ls[0].args and ff.param_of(ls[0].args[0]) == p_p and not any(
      k.arg == 'axis' and txt(k.value) not in ('-1',) for k in ls[0].keywords)
  if ls:
    check.ob('R-XENT', fi, 'log_softmax(preds)', ok_ls, 'log-probabilities of the predictions over the class (last) axis')
  else:
    check.undecided('unreduced_cross_entropy_loss does not call log_softmax: its formulation is not judged beyond R-XENT.stable')
  oh = [c for _, c in ff.calls() if ff.ext(c.func) == 'jax.nn.one_hot']
  ok_oh = len(oh) == 1 and len(oh[0].args) >= 2 and ff.param_of(oh[0].args[0]) == p_t and any(
      isinstance(v, ast.Subscript) and ff.param_of(v.value.value if isinstance(v.value, ast.Attribute) else v.value) == p_p and txt(v.slice) == '-1'
      for v in ff.expand(oh[0].args[1]))
  if oh:
    check.ob('R-XENT', fi, 'one_hot(targets, preds.shape[-1])', ok_oh, 'sparse targets are encoded over the number of classes of the predictions')
  ret_ok = None
  for _, rv in ff.returns():
    for v in ff.expand(rv):
      if ls and isinstance(v, ast.UnaryOp) and isinstance(v.op, ast.USub) and isinstance(v.operand, ast.Call) and ff.ext(v.operand.func) == 'jax.numpy.sum':
        sm = v.operand
        ax = next((k.value for k in sm.keywords if k.arg == 'axis'), None)
        prod = sm.args[0] if sm.args else None
        facs = []
        if isinstance(prod, ast.BinOp) and isinstance(prod.op, ast.Mult):
          facs = [prod.left, prod.right]
        has_lp = ls and any(any(w is ls[0] for w in ff.expand(f)) for f in facs)
        has_t = any(any((isinstance(w, ast.Call) and w in oh) or ff.param_of(w) == p_t for w in ff.expand(f)) or (isinstance(f, ast.Name) and f.id == p_t)
                    for f in facs)
        ret_ok = ax is not None and txt(ax) == '-1' and bool(has_lp) and has_t
  if ret_ok is not None:
    check.ob('R-XENT', fi, '-sum(targets * log_preds, axis=-1)', ret_ok, 'the loss of an example is minus the log-probability of its target, '
             'reduced over the class axis only')


def _accuracy(check: Check):
  repo = check.repo
  for cname in ('Accuracy', 'SequenceTokenAccuracy'):
    ev = repo.cls(MOD, cname).method('evaluate_example')
    ff = FuncFlow.of(repo, ev)
    ok = False
    for n in ff.cfg.nodes:
      if n.ast is None:
        continue
      for x in n.walk():
        if isinstance(x, ast.Compare) and isinstance(x.ops[0], ast.Eq):
          sides = [x.left, x.comparators[0]]
          am = [s for s in sides if isinstance(s, ast.Call) and ff.ext(s.func) in ARGMAX]
          tg = [s for s in sides if _is_target(ff, s)]
          if am and tg:
            ax = next((k.value for k in am[0].keywords if k.arg == 'axis'), None)
            ok = ax is None or (isinstance(ax, ast.UnaryOp) and isinstance(ax.operand, ast.Constant) and ax.operand.value == 1)
    check.ob('R-ORDER.argmax', ev, 'target == argmax(pred, axis=-1)', ok,
             'correct iff the target equals the first index of the maximal score along the class axis')


def _confusion(check: Check):
  repo = check.repo
  ev = repo.cls(MOD, 'ConfusionMatrix').method('evaluate_example')
  ff = FuncFlow.of(repo, ev)
  ok = False
  for _, c in ff.calls():
    if isinstance(c.func, ast.Attribute) and c.func.attr == 'set' and isinstance(c.func.value, ast.Subscript):
      sub = c.func.value
      if isinstance(sub.value, ast.Attribute) and sub.value.attr == 'at' and isinstance(sub.slice, ast.Tuple) and len(sub.slice.elts) == 2:
        r, col = sub.slice.elts
        one = c.args and isinstance(c.args[0], ast.Constant) and c.args[0].value == 1
        col_ok = any(isinstance(x, ast.Call) and ff.ext(x.func) in ARGMAX for x in ff.expand(col))
        ok = _is_target(ff, r) and col_ok and one
  check.ob('R-ORDER.confusion', ev, 'zeros.at[target, argmax(pred)].set(1)', ok,
           'one count at row = target, column = predicted class, all other cells zero')
  # shape validation raises
  raises = any(isinstance(n.ast, ast.Raise) for n in ff.cfg.nodes if n.kind == 'stmt')
  check.ob('R-ORDER.confusion', ev, 'num_classes != len(pred) -> ValueError', raises,
           'a prediction vector of the wrong length is rejected instead of being silently mis-indexed', nontrivial=False)
  # the guard of that raise is tabulated over (num_classes, len(pred)) in 1..4 x 1..4: it rejects exactly the unequal pairs (a
  # one-sided test lets a longer prediction through, and classes beyond num_classes are silently dropped by the out-of-bounds .at[].set)
  from fjsa.flow import guards_of
  from fjsa.props.c20 import _eval_guard
  rs = [n for n in ff.cfg.nodes if n.kind == 'stmt' and isinstance(n.ast, ast.Raise)]
  if len(rs) == 1:
    gs = guards_of(ff, rs[0].ast)
    atoms = {}
    for t, _ in gs:
      for x in ast.walk(t):
        if isinstance(x, ast.Attribute) and x.attr == 'num_classes':
          atoms[txt(x)] = 'a'
        elif isinstance(x, ast.Call) and ff.ext(x.func) == 'builtins.len':
          atoms[txt(x)] = 'b'
        elif isinstance(x, ast.Subscript) and isinstance(x.value, ast.Attribute) and x.value.attr == 'shape':
          atoms[txt(x)] = 'b'
    verdict = None
    if set(atoms.values()) == {'a', 'b'} and gs:
      verdict = True
      for a in range(1, 5):
        for b in range(1, 5):
          env = {k: (a if v == 'a' else b) for k, v in atoms.items()}
          vals = [_eval_guard(_subst(t, env), {}) for t, _ in gs]
          if any(v is None for v in vals):
            verdict = None
            break
          raised = all(v == pol for v, (_, pol) in zip(vals, gs))
          if raised != (a != b):
            verdict = False
        if verdict is None:
          break
    check.ob('R-ERR.classes', ev, 'raise iff num_classes != len(pred)', verdict,
             'the length check rejects every prediction whose length differs from num_classes, in either direction', node=rs[0].ast)


def _subst(t: ast.AST, env):
  """Copy of `t` with every sub-expression whose text is a key of env replaced by the constant."""
  import copy
  class R(ast.NodeTransformer):
    def visit(self, node):
      if isinstance(node, ast.expr) and txt(node) in env:
        return ast.copy_location(ast.Constant(env[txt(node)]), node)
      return self.generic_visit(node)
  return R().visit(copy.deepcopy(t))
